"""Source locks: a normalised-AST fingerprint of every function of the package and of every module's frame.

The translators regenerate what is data or small pure code; the rest of a property's cone is modelled by hand and
validated against the implementation by the correspondence of each run.  A hand model is only known to describe the
source text it was written and validated against, so every check also compares the fingerprints of the functions in
its cone (manifest/lock_cones.json) with the committed baseline (source_locks.json): an edit anywhere in the cone -
also in the middle of a function whose shape the translator checks only at some statements - breaks the obligation
`source-lock:<file>` and the check searches for a failing input (or reports `no-failing-input-found`).
Comments, blank lines and docstrings do not change a fingerprint.  Nothing of the repository is imported or evaluated."""
import ast, hashlib, json, os

HERE = os.path.dirname(os.path.abspath(__file__))
ROOT = os.path.dirname(HERE)
BASELINE = os.path.join(ROOT, 'source_locks.json')
CONES = os.path.join(ROOT, 'manifest', 'lock_cones.json')


def _strip_docstrings(tree):
    for n in ast.walk(tree):
        if isinstance(n, (ast.FunctionDef, ast.AsyncFunctionDef, ast.ClassDef, ast.Module)):
            b = n.body
            if b and isinstance(b[0], ast.Expr) and isinstance(b[0].value, ast.Constant) and isinstance(b[0].value.value, str):
                n.body = b[1:] or [ast.Pass()]
    return tree


def _dump(n):
    """version-independent dump: empty / None fields and the fields newer Pythons added are left out"""
    if isinstance(n, ast.AST):
        parts = []
        for f in n._fields:
            if f in ('type_params', 'type_comment', 'kind', 'ctx'):
                continue
            v = getattr(n, f, None)
            if v is None or v == []:
                continue
            parts.append(f + '=' + _dump(v))
        return type(n).__name__ + '(' + ','.join(parts) + ')'
    if isinstance(n, list):
        return '[' + ','.join(_dump(x) for x in n) + ']'
    return repr(n)


def _h(node):
    return hashlib.sha256(_dump(node).encode()).hexdigest()[:16]


def fingerprints(repo):
    """{relpath: {'<module>': hash of the module with every function body emptied, 'qualname': hash of the function}}"""
    out = {}
    pkg = os.path.join(repo, 'pedantic')
    for dp, dn, fn in os.walk(pkg):
        dn[:] = sorted(d for d in dn if d not in ('tests', 'examples', '__pycache__'))
        for f in sorted(fn):
            if not f.endswith('.py'):
                continue
            path = os.path.join(dp, f)
            rel = os.path.relpath(path, repo)
            try:
                tree = _strip_docstrings(ast.parse(open(path, encoding='utf-8').read()))
            except SyntaxError as ex:
                out[rel] = {'<module>': 'syntax error: ' + str(ex)}
                continue
            entry = {}

            def visit(node, prefix):
                for ch in ast.iter_child_nodes(node):
                    if isinstance(ch, (ast.FunctionDef, ast.AsyncFunctionDef)):
                        entry[prefix + ch.name] = _h(ch)
                        visit(ch, prefix + ch.name + '.')
                    elif isinstance(ch, ast.ClassDef):
                        visit(ch, prefix + ch.name + '.')
                    else:
                        visit(ch, prefix)
            visit(tree, '')
            frame = ast.parse(open(path, encoding='utf-8').read())
            _strip_docstrings(frame)
            for n in ast.walk(frame):
                if isinstance(n, (ast.FunctionDef, ast.AsyncFunctionDef)):
                    n.body = [ast.Pass()]
            entry['<module>'] = _h(frame)
            out[rel] = entry
    return out


def compare(repo, files):
    """[(relpath, ok, detail)] for the files of a cone"""
    base = json.load(open(BASELINE))['files']
    cur = fingerprints(repo)
    res = []
    for rel in files:
        b, c = base.get(rel), cur.get(rel)
        if b is None or c is None:
            res.append((rel, False, 'file missing in ' + ('the baseline' if b is None else 'the repository')))
            continue
        diff = sorted(k for k in set(b) | set(c) if b.get(k) != c.get(k))
        res.append((rel, not diff, 'changed since the hand models were validated: ' + ', '.join(diff) if diff else f'{len(c)} fingerprints equal'))
    return res


def cone(pid):
    return json.load(open(CONES))[pid]


if __name__ == '__main__':
    import subprocess, sys
    repo = os.environ.get('PV_REPO', '/repo')
    if '--update-baseline' in sys.argv:
        head = subprocess.run(['git', '-C', repo, 'rev-parse', '--short', 'HEAD'], capture_output=True, text=True).stdout.strip()
        json.dump({'repo_head': head, 'files': fingerprints(repo)}, open(BASELINE, 'w'), indent=1, sort_keys=True)
        print('baseline written for', head)
    else:
        for pid in sorted(json.load(open(CONES))):
            bad = [(r, d) for r, ok, d in compare(repo, cone(pid)) if not ok]
            print(pid, 'ok' if not bad else bad)
