"""External sources of @validate -> Gen/ValidateSources.v

  parameters/abstract_external_parameter.py   ExternalParameter: has_value / load_value are abstract
  parameters/environment_variable_parameter.py EnvironmentVariableParameter.__init__ (rule for the variable name),
                                               has_value, load_value
  parameters/flask_parameters.py              FlaskParameter.has_value / load_value, get_dict of FlaskJsonParameter,
                                               FlaskFormParameter, FlaskGetParameter, FlaskHeaderParameter,
                                               FlaskGetParameter.load_value, exception_type of FlaskHeaderParameter,
                                               FlaskPathParameter (a plain Parameter), GenericFlaskDeserializer.*
  parameters/deserializable.py                Deserializable.from_json is an abstract static method
  exceptions.py                               InvalidHeader is a direct subclass of ParameterException

Every method body is compiled into a value of the description language of Model/ValidateSources.v (get_dict_def, has_def,
load_def, handler table of the deserializer); the methods of a class are resolved along its bases here (own definition,
else the one of FlaskParameter).  Every class of the two parameter modules, every method of these classes and every
statement of these methods must have one of the whitelisted shapes, otherwise Untranslatable (fail closed).
Nothing of the repository is imported or evaluated."""
import ast
from common import *

UNIT = 'ValidateSources'
UNITS = [UNIT]
P = 'pedantic/decorators/fn_deco_validate/parameters/'
REL_X = P + 'abstract_external_parameter.py'
REL_ENV = P + 'environment_variable_parameter.py'
REL_F = P + 'flask_parameters.py'
REL_D = P + 'deserializable.py'
REL_E = 'pedantic/decorators/fn_deco_validate/exceptions.py'

EXC = {'ValidatorException': 'ValidatorExceptionC', 'ValidateException': 'ValidateExceptionC',
       'ParameterException': 'ParameterExceptionC', 'Exception': 'ExceptionC', 'BaseException': 'BaseExceptionC',
       'ValueError': 'ValueErrorC', 'TypeError': 'TypeErrorC', 'KeyError': 'KeyErrorC', 'LookupError': 'LookupErrorC'}
ATTR = {'json': 'RJson', 'form': 'RForm', 'args': 'RArgs', 'headers': 'RHeaders'}


def bad(reason):
    raise Untranslatable(UNIT, reason)


def stmts(src):
    return ast.parse(src).body


def same(node, src):
    return dump(node) == dump(stmts(src)[0])


def same_block(nodes, src):
    exp = stmts(src)
    return len(nodes) == len(exp) and all(dump(a) == dump(b) for a, b in zip(nodes, exp))


def same_expr(node, src):
    return dump(node).replace('Store()', 'Load()') == dump(ast.parse(src, mode='eval').body)


def methods(cls):
    return [n for n in cls.body if isinstance(n, (ast.FunctionDef, ast.AsyncFunctionDef))]


def class_frame(cls, bases, method_names, extra=(), who=None):
    """the class has exactly these bases, these methods (in any order) and, besides a docstring, these other statements"""
    who = who or cls.name
    if [dump(b) for b in cls.bases] != [dump(ast.parse(b, mode='eval').body) for b in bases] or cls.keywords or cls.decorator_list:
        bad(f'{who}: bases / decorators changed')
    ms = methods(cls)
    if sorted(m.name for m in ms) != sorted(method_names):
        bad(f'{who}: methods are {sorted(m.name for m in ms)}, expected {sorted(method_names)}')
    other = [s for s in strip_doc(cls.body) if s not in ms]
    if len(other) != len(extra) or not all(same(s, e) for s, e in zip(other, extra)):
        bad(f'{who}: class-level statements changed')
    return {m.name: m for m in ms}


def plain_method(m, who, decorators, params=('self',)):
    """a synchronous method (self) with exactly these decorators"""
    a = m.args
    if isinstance(m, ast.AsyncFunctionDef) or [x.arg for x in a.args] != list(params) or a.vararg or a.kwarg or a.kwonlyargs \
            or a.posonlyargs or a.defaults:
        bad(f'{who}: signature changed')
    if [dump(d) for d in m.decorator_list] != [dump(ast.parse(d, mode='eval').body) for d in decorators]:
        bad(f'{who}: decorators changed')
    return strip_doc(m.body)


def abstract_method(m, who, decorators=('abstractmethod',), params=('self',)):
    body = plain_method(m, who, decorators, params)
    if body or not m.body:
        bad(f'{who}: an abstract method with a body')


# ------------------------------------------------------------------ method bodies -> descriptions
def tr_get_dict(body, who):
    if not body:
        bad(f'{who}: empty body')
    s = body[0]
    if same(s, 'if not request.is_json:\n    return {}'):
        return f'(GDEmptyUnlessJson {tr_get_dict(body[1:], who)})'
    if len(body) == 1 and isinstance(s, ast.Return) and isinstance(s.value, ast.Attribute) and is_name(s.value.value, 'request') \
            and s.value.attr in ATTR:
        return f'(GDAttr {ATTR[s.value.attr]})'
    bad(f'{who}: unrecognised statement at line {s.lineno}')


def tr_has(body, who):
    if same_block(body, 'dict_ = self.get_dict()\nreturn dict_ is not None and self.name in dict_'):
        return 'HNameInDict true'
    if same_block(body, 'dict_ = self.get_dict()\nreturn self.name in dict_'):
        return 'HNameInDict false'
    if same_block(body, 'return request.is_json'):
        return 'HIsJson'
    if same_block(body, 'return self._env_var_name in os.environ'):
        return 'HVarInEnviron'
    bad(f'{who}: unrecognised shape')


def caught(h, who):
    t = h.type
    if t is None:
        return ['BaseExceptionC']
    names = t.elts if isinstance(t, ast.Tuple) else [t]
    out = []
    for n in names:
        if not (is_name(n) and n.id in EXC):
            bad(f'{who}: unrecognised exception class in the except clause at line {h.lineno}')
        out.append(EXC[n.id])
    return out


def tr_load(body, who):
    if same_block(body, 'dict_ = self.get_dict()\nreturn dict_[self.name]'):
        return 'LDictItem'
    if same_block(body, 'value = request.args.getlist(self.name)\nif self.value_type == list:\n    return value\nreturn value[0]'):
        return 'LArgsGetlist'
    if same_block(body, 'return os.environ[self._env_var_name].strip()'):
        return 'LEnvironItem true'
    if same_block(body, 'return os.environ[self._env_var_name]'):
        return 'LEnvironItem false'
    if len(body) == 1 and isinstance(body[0], ast.Try):
        t = body[0]
        if t.orelse or t.finalbody or not same_block(t.body, 'return self._cls.from_json(request.json)'):
            bad(f'{who}: the try block changed')
        table = []
        for h in t.handlers:
            if h.name != 'ex':
                bad(f'{who}: handler at line {h.lineno} does not bind the exception as ex')
            if same_block(h.body, "raise ParameterException.from_validator_exception(exception=ex, parameter_name='')"):
                act = 'DARaiseParamNoName'
            elif same_block(h.body, 'if self._catch_exceptions:\n    self.raise_exception(msg=str(ex))\nraise ex'):
                act = 'DAIfCatchRaiseParamElseReraise'
            elif same_block(h.body, 'raise ex') or same_block(h.body, 'raise'):
                act = 'DAReraise'
            else:
                bad(f'{who}: unrecognised handler body at line {h.lineno}')
            table += [(c, act) for c in caught(h, who)]
        return '(LFromJson %s)' % coq_list([f'({c}, {a})' for c, a in table])
    bad(f'{who}: unrecognised shape')


# ------------------------------------------------------------------ the modules
def tr_external():
    src, tree = load(REL_X)
    cls = find_class(tree, 'ExternalParameter', UNIT)
    ms = class_frame(cls, ['Parameter', 'ABC'], ['has_value', 'load_value'])
    abstract_method(ms['has_value'], 'ExternalParameter.has_value')
    abstract_method(ms['load_value'], 'ExternalParameter.load_value')
    if [n.name for n in tree.body if isinstance(n, ast.ClassDef)] != ['ExternalParameter']:
        bad('abstract_external_parameter.py: classes changed')
    dsrc, dtree = load(REL_D)
    d = find_class(dtree, 'Deserializable', UNIT)
    dm = class_frame(d, ['ABC'], ['from_json'])
    abstract_method(dm['from_json'], 'Deserializable.from_json', ('staticmethod', 'abstractmethod'), ('data',))
    return src, cls


def tr_environment():
    src, tree = load(REL_ENV)
    if [n.name for n in tree.body if isinstance(n, ast.ClassDef)] != ['EnvironmentVariableParameter']:
        bad('environment_variable_parameter.py: classes changed')
    if not any(same(s, 'import os') for s in tree.body):
        bad('environment_variable_parameter.py: `import os` is gone (os.environ would be something else)')
    cls = find_class(tree, 'EnvironmentVariableParameter', UNIT)
    ms = class_frame(cls, ['ExternalParameter'], ['__init__', 'has_value', 'load_value'])
    init = ms['__init__']
    a = init.args
    if [x.arg for x in a.args] != ['self', 'name', 'env_var_name', 'value_type', 'validators', 'required', 'default'] or a.vararg \
            or a.kwarg or a.kwonlyargs or a.posonlyargs or init.decorator_list \
            or [dump(d) for d in a.defaults] != [dump(ast.parse(s, mode='eval').body) for s in ('None', 'str', 'None', 'True', 'NoValue')]:
        bad('EnvironmentVariableParameter.__init__: signature changed')
    body = strip_doc(init.body)
    if len(body) != 3 or not same_block(body[:2], '''
super().__init__(name=name, validators=validators, default=default, value_type=value_type, required=required)
if value_type not in [str, bool, int, float]:
    raise AssertionError(f'value_type needs to be one of these: str, bool, int & float')
'''):
        bad('EnvironmentVariableParameter.__init__: statements before the rule for the variable name changed')
    r = body[2]
    if same(r, 'if env_var_name is None:\n    self._env_var_name = name\nelse:\n    self._env_var_name = env_var_name') \
            or same(r, 'if env_var_name is not None:\n    self._env_var_name = env_var_name\nelse:\n    self._env_var_name = name') \
            or same(r, 'self._env_var_name = name if env_var_name is None else env_var_name') \
            or same(r, 'self._env_var_name = env_var_name if env_var_name is not None else name'):
        rule = 'match given with Some g => g | None => n end'
    elif same(r, 'self._env_var_name = name'):
        rule = 'n'
    else:
        bad('EnvironmentVariableParameter.__init__: unrecognised rule for the name of the variable')
    has = tr_has(plain_method(ms['has_value'], 'EnvironmentVariableParameter.has_value', ['overrides(ExternalParameter)']),
                 'EnvironmentVariableParameter.has_value')
    ld = tr_load(plain_method(ms['load_value'], 'EnvironmentVariableParameter.load_value', ['overrides(ExternalParameter)']),
                 'EnvironmentVariableParameter.load_value')
    if has != 'HVarInEnviron' or not ld.startswith('LEnvironItem'):
        bad('EnvironmentVariableParameter: has_value / load_value do not read os.environ')
    return src, cls, rule, has, ld


def tr_flask():
    src, tree = load(REL_F)
    names = [n.name for n in tree.body if isinstance(n, ast.ClassDef)]
    if names != ['FlaskParameter', 'FlaskJsonParameter', 'FlaskFormParameter', 'FlaskPathParameter', 'FlaskGetParameter',
                 'FlaskHeaderParameter', 'GenericFlaskDeserializer']:
        bad('flask_parameters.py: the classes changed: ' + ', '.join(names))
    if not any(same(s, 'from flask import request') for s in tree.body):
        bad('flask_parameters.py: `from flask import request` is gone (request would be something else)')
    if any(isinstance(s, (ast.FunctionDef, ast.AsyncFunctionDef, ast.Assign, ast.AnnAssign, ast.AugAssign)) for s in tree.body):
        bad('flask_parameters.py: module-level definitions besides the classes')
    C = {n: find_class(tree, n, UNIT) for n in names}
    # FlaskParameter
    ms = class_frame(C['FlaskParameter'], ['ExternalParameter', 'ABC'], ['get_dict', 'has_value', 'load_value'])
    abstract_method(ms['get_dict'], 'FlaskParameter.get_dict')
    base_has = tr_has(plain_method(ms['has_value'], 'FlaskParameter.has_value', ['overrides(ExternalParameter)']), 'FlaskParameter.has_value')
    base_load = tr_load(plain_method(ms['load_value'], 'FlaskParameter.load_value', ['overrides(ExternalParameter)']), 'FlaskParameter.load_value')
    if not base_has.startswith('HNameInDict') or base_load != 'LDictItem':
        bad('FlaskParameter: has_value / load_value do not go through get_dict')
    out = {}
    for cname, extra, own in (('FlaskJsonParameter', (), ('get_dict',)), ('FlaskFormParameter', (), ('get_dict',)),
                              ('FlaskGetParameter', (), ('get_dict', 'load_value')),
                              ('FlaskHeaderParameter', ('exception_type = InvalidHeader',), ('get_dict',))):
        ms = class_frame(C[cname], ['FlaskParameter'], own, extra)
        gd = tr_get_dict(plain_method(ms['get_dict'], cname + '.get_dict', ['overrides(FlaskParameter)']), cname + '.get_dict')
        ld = base_load
        if 'load_value' in ms:
            ld = tr_load(plain_method(ms['load_value'], cname + '.load_value', ['overrides(ExternalParameter)']), cname + '.load_value')
        out[cname] = (f'Some {gd}', base_has, ld, 'InvalidHeaderC' if extra else 'ParameterExceptionC')
    # FlaskPathParameter: a plain Parameter (no source)
    class_frame(C['FlaskPathParameter'], ['Parameter'], [])
    # GenericFlaskDeserializer
    ms = class_frame(C['GenericFlaskDeserializer'], ['ExternalParameter'], ['__init__', 'has_value', 'load_value'])
    init = ms['__init__']
    a = init.args
    if [x.arg for x in a.args] != ['self', 'cls', 'catch_exception'] or a.vararg or a.kwarg is None or a.kwarg.arg != 'kwargs' \
            or a.kwonlyargs or a.posonlyargs or init.decorator_list or [dump(d) for d in a.defaults] != [dump(ast.parse('True', mode='eval').body)]:
        bad('GenericFlaskDeserializer.__init__: signature changed')
    if not same_block(strip_doc(init.body), 'super().__init__(**kwargs)\nself._cls = cls\nself._catch_exceptions = catch_exception'):
        bad('GenericFlaskDeserializer.__init__: body changed')
    has = tr_has(plain_method(ms['has_value'], 'GenericFlaskDeserializer.has_value', ['overrides(ExternalParameter)']),
                 'GenericFlaskDeserializer.has_value')
    ld = tr_load(plain_method(ms['load_value'], 'GenericFlaskDeserializer.load_value', ['overrides(ExternalParameter)']),
                 'GenericFlaskDeserializer.load_value')
    if not ld.startswith('(LFromJson'):
        bad('GenericFlaskDeserializer.load_value: does not call from_json')
    out['GenericFlaskDeserializer'] = ('None', has, ld, 'ParameterExceptionC')
    return src, C, out


def tr_exceptions():
    src, tree = load(REL_E)
    subs = [n.name for n in tree.body if isinstance(n, ast.ClassDef) and len(n.bases) == 1 and is_name(n.bases[0], 'ParameterException')]
    ih = find_class(tree, 'InvalidHeader', UNIT)
    if not (len(ih.bases) == 1 and is_name(ih.bases[0], 'ParameterException')) or strip_doc(ih.body) or ih.keywords or ih.decorator_list:
        bad('exceptions.py: InvalidHeader is no longer a plain direct subclass of ParameterException')
    return subs.index('InvalidHeader')


def translate():
    xsrc, xcls = tr_external()
    esrc, ecls, rule, ehas, eload = tr_environment()
    fsrc, C, flask = tr_flask()
    ih = tr_exceptions()
    out = header('t_validate_sources.py', ['From PV Require Import Base.Exn Model.ValidateSem Model.ValidateSources.'])
    out += f'Definition src_external_parameter : string := {coq_string(provenance(REL_X, xsrc, xcls))}.\n'
    out += f'Definition src_environment_variable_parameter : string := {coq_string(provenance(REL_ENV, esrc, ecls))}.\n'
    for n in C:
        out += f'Definition src_{n} : string := {coq_string(provenance(REL_F, fsrc, C[n]))}.\n'
    out += f'Definition InvalidHeaderC : exn := ParameterExceptionC ++ [{ih}%nat].\n'

    def cls(name, t):
        return (f'Definition {name} : source_class :=\n  {{| sc_get_dict := {t[0]};\n     sc_has := {t[1]};\n     sc_load := {t[2]};\n'
                f'     sc_exc := {t[3]} |}}.\n')
    out += cls('flask_json_parameter', flask['FlaskJsonParameter'])
    out += cls('flask_form_parameter', flask['FlaskFormParameter'])
    out += cls('flask_get_parameter', flask['FlaskGetParameter'])
    out += cls('flask_header_parameter', flask['FlaskHeaderParameter'])
    out += cls('generic_flask_deserializer', flask['GenericFlaskDeserializer'])
    out += cls('environment_variable_parameter', ('None', ehas, eload, 'ParameterExceptionC'))
    out += f'Definition env_var_rule (given : option name) (n : name) : name := {rule}.\n'
    out += 'Definition flask_path_parameter_is_external : bool := false.\n'
    return {UNIT: out}
