"""T2/T3/T4 for @validate: fn_deco_validate.py + parameters/abstract_parameter.py -> Gen/Validate.v

Extracted (everything else must match the known shape exactly, otherwise Untranslatable):
  * Parameter.__init__: the `is_required` rule as a boolean function of (default given, required)
  * Parameter.validate: the handler tables of the conversion step and of the validator loop
    (caught classes, in order, and what the handler does)
  * _wrapper_content: the phases in source order and whether each is guarded by `not ignore_input`;
    what happens to an undeclared keyword / positional argument (strict / not strict, `self` exemption);
    the handler table around signature.bind_partial; the decision list of the unused-parameter loop
  * wrapper / async_wrapper: per ReturnAs mode the sequence of call-convention steps
  * _as_args: arrival order on unknown key (old shape, before d10af45) / signature order otherwise"""
import ast
from common import *

REL = 'pedantic/decorators/fn_deco_validate/fn_deco_validate.py'
REL_P = 'pedantic/decorators/fn_deco_validate/parameters/abstract_parameter.py'
REL_E = 'pedantic/decorators/fn_deco_validate/exceptions.py'
UNIT = 'Validate'
UNITS = [UNIT]

EXC = {'ConversionError': 'ConversionErrorC', 'ValidatorException': 'ValidatorExceptionC',
       'ValidateException': 'ValidateExceptionC', 'ParameterException': 'ParameterExceptionC',
       'TooManyArguments': 'TooManyArgumentsC', 'Exception': 'ExceptionC', 'BaseException': 'BaseExceptionC',
       'ValueError': 'ValueErrorC', 'TypeError': 'TypeErrorC', 'KeyError': 'KeyErrorC', 'LookupError': 'LookupErrorC',
       'AttributeError': 'AttributeErrorC', 'RuntimeError': 'RuntimeErrorC'}


def bad(reason):
    raise Untranslatable(UNIT, reason)


def stmts(src):
    return ast.parse(src).body


def expr(src):
    return ast.parse(src, mode='eval').body


def same(node, src_or_node):
    other = src_or_node if isinstance(src_or_node, ast.AST) else stmts(src_or_node)[0]
    return dump(node) == dump(other)


def same_expr(node, src):
    """expression equality up to the Load/Store context of the outermost target"""
    return dump(node).replace('Store()', 'Load()') == dump(expr(src))


def same_block(nodes, src):
    exp = stmts(src)
    return len(nodes) == len(exp) and all(dump(a) == dump(b) for a, b in zip(nodes, exp))


def caught(handler, where):
    """classes of an except clause"""
    t = handler.type
    if t is None:
        return ['BaseExceptionC']
    names = t.elts if isinstance(t, ast.Tuple) else [t]
    out = []
    for n in names:
        if not (is_name(n) and n.id in EXC):
            bad(f'{where}: unrecognised exception class in except clause at line {handler.lineno}')
        out.append(EXC[n.id])
    return out


# ------------------------------------------------------------------ Parameter.__init__ / validate
def bool_expr(node):
    """the is_required rule over the variables d (default given) and r (required)"""
    if isinstance(node, ast.Constant) and isinstance(node.value, bool):
        return coq_bool(node.value)
    if is_name(node, 'required'):
        return 'r'
    if isinstance(node, ast.Compare) and len(node.ops) == 1 and is_name(node.left, 'default') \
            and is_name(node.comparators[0], 'NoValue'):
        if isinstance(node.ops[0], (ast.NotEq, ast.IsNot)):
            return 'd'
        if isinstance(node.ops[0], (ast.Eq, ast.Is)):
            return '(negb d)'
    if isinstance(node, ast.UnaryOp) and isinstance(node.op, ast.Not):
        return f'(negb {bool_expr(node.operand)})'
    if isinstance(node, ast.BoolOp):
        op = ' && ' if isinstance(node.op, ast.And) else ' || '
        return '(' + op.join(bool_expr(v) for v in node.values) + ')'
    if isinstance(node, ast.IfExp):
        return f'(if {bool_expr(node.test)} then {bool_expr(node.body)} else {bool_expr(node.orelse)})'
    bad(f'Parameter.__init__: unrecognised expression in the is_required rule at line {node.lineno}')


def tr_parameter():
    src, tree = load(REL_P)
    cls = find_class(tree, 'Parameter', UNIT)
    if not any(same(s, 'exception_type: Type[ParameterException] = ParameterException') for s in cls.body):
        bad('Parameter.exception_type is not ParameterException')
    init = find_in(cls, '__init__', UNIT)
    a = init.args
    if [x.arg for x in a.args] != ['self', 'name', 'value_type', 'validators', 'default', 'required'] or a.vararg or a.kwarg \
            or a.kwonlyargs or [dump(d) for d in a.defaults] != [dump(expr(s)) for s in ('None', 'None', 'NoValue', 'True')]:
        bad('signature of Parameter.__init__ changed')
    rule = None
    rest = []
    for s in strip_doc(init.body):
        if isinstance(s, ast.Assign) and len(s.targets) == 1 and same_expr(s.targets[0], 'self.is_required'):
            if rule is not None:
                bad('Parameter.__init__: is_required assigned twice')
            rule = bool_expr(s.value)
        else:
            rest.append(s)
    if rule is None:
        bad('Parameter.__init__: no assignment to self.is_required')
    if not same_block(rest, '''
self.name = name
self.validators = validators if validators else []
self.default_value = default
self.value_type = value_type
if value_type not in [str, bool, int, float, dict, list, None]:
    raise AssertionError(f'value_type needs to be one of these: str, bool, int, float, dict & list')
'''):
        bad('Parameter.__init__: statements other than the is_required rule changed')

    # raise_exception: raises self.exception_type carrying self.name
    rex = find_in(cls, 'raise_exception', UNIT)
    if not same_block(strip_doc(rex.body), '''
raise self.exception_type(value=value, parameter_name=self.name, msg=msg,
                          validator_name=validator.name if validator else None)
'''):
        bad('Parameter.raise_exception changed')

    val = find_in(cls, 'validate', UNIT)
    if [x.arg for x in val.args.args] != ['self', 'value']:
        bad('signature of Parameter.validate changed')
    body = strip_doc(val.body)
    if len(body) != 4:
        bad('Parameter.validate: expected four statements (None rule, conversion, validator loop, return)')
    none_rule, conv, loop, ret = body
    if not same(none_rule, '''
if value is None:
    if self.is_required:
        self.raise_exception(msg=f'Value for key {self.name} is required.')

    return None
'''):
        bad('Parameter.validate: the None rule changed')
    if not (isinstance(conv, ast.If) and same_expr(conv.test, 'self.value_type is not None')
            and same_block(conv.orelse, 'result_value = value') and len(conv.body) == 1 and isinstance(conv.body[0], ast.Try)):
        bad('Parameter.validate: the conversion step changed')
    tr = conv.body[0]
    if tr.orelse or tr.finalbody or not same_block(tr.body, 'result_value = convert_value(value=value, target_type=self.value_type)'):
        bad('Parameter.validate: the conversion try block changed')
    conv_handlers = []
    for h in tr.handlers:
        act = handler_action(h, 'conversion')
        conv_handlers += [(c, act) for c in caught(h, 'Parameter.validate conversion')]
    if not (isinstance(loop, ast.For) and is_name(loop.target, 'validator') and same_expr(loop.iter, 'self.validators')
            and not loop.orelse and len(loop.body) == 1 and isinstance(loop.body[0], ast.Try)):
        bad('Parameter.validate: the validator loop changed (must iterate over self.validators with one try statement)')
    tr = loop.body[0]
    if tr.orelse or tr.finalbody or not same_block(tr.body, 'result_value = validator.validate(result_value)'):
        bad('Parameter.validate: the loop body is not `result_value = validator.validate(result_value)`')
    chain_handlers = []
    for h in tr.handlers:
        act = handler_action(h, 'chain')
        chain_handlers += [(c, act) for c in caught(h, 'Parameter.validate loop')]
    if not same(ret, 'return result_value'):
        bad('Parameter.validate: does not end in `return result_value`')

    # ParameterException.from_validator_exception keeps the given parameter name
    esrc, etree = load(REL_E)
    pe = find_class(etree, 'ParameterException', UNIT)
    fve = find_in(pe, 'from_validator_exception', UNIT)
    if not same_block(strip_doc(fve.body), '''
return cls(
    value=exception.value,
    msg=exception.message,
    validator_name=exception.validator_name,
    parameter_name=parameter_name or exception.parameter_name,
)
'''):
        bad('ParameterException.from_validator_exception changed')
    pinit = find_in(pe, '__init__', UNIT)
    if not any(same(s, 'self.parameter_name = parameter_name') for s in pinit.body):
        bad('ParameterException.__init__ does not store parameter_name')
    tree_ok = []
    for cname, base in (('ValidatorException', 'ValidateException'), ('ParameterException', 'ValidateException'),
                        ('TooManyArguments', 'ValidateException'), ('ConversionError', 'ValidateException'),
                        ('ValidateException', 'Exception')):
        c = find_class(etree, cname, UNIT)
        if not (len(c.bases) == 1 and is_name(c.bases[0], base)):
            bad(f'exceptions.py: {cname} is no longer a direct subclass of {base}')
    return src, cls, rule, conv_handlers, chain_handlers


def handler_action(h, where):
    b = h.body
    if len(b) != 1:
        bad(f'Parameter.validate: {where} handler has more than one statement (line {h.lineno})')
    s = b[0]
    call = None
    if isinstance(s, ast.Raise) and s.exc is None:
        return 'HReraise'
    if isinstance(s, ast.Raise) and isinstance(s.exc, ast.Call):
        call = s.exc
    elif isinstance(s, (ast.Return, ast.Expr)) and isinstance(s.value, ast.Call):
        call = s.value
    if call is not None:
        f = call.func
        if same_expr(f, 'self.raise_exception'):
            return 'HRaiseParam'
        if same_expr(f, 'self.exception_type'):
            kw = {k.arg: k.value for k in call.keywords}
            if 'parameter_name' in kw and same_expr(kw['parameter_name'], 'self.name'):
                return 'HRaiseParam'
        if same_expr(f, 'self.exception_type.from_validator_exception'):
            kw = {k.arg: k.value for k in call.keywords}
            if 'parameter_name' in kw and same_expr(kw['parameter_name'], 'self.name') and 'exception' in kw \
                    and h.name and is_name(kw['exception'], h.name):
                return 'HRaiseParam'
    if where == 'conversion' and same(s, 'result_value = value'):
        return 'HKeepValue'
    if where == 'chain' and isinstance(s, (ast.Pass, ast.Continue)):
        return 'HKeepValue'
    bad(f'Parameter.validate: unrecognised {where} handler body at line {s.lineno}')


# ------------------------------------------------------------------ wrapper / async_wrapper
STEP_SELF = "if 'self' in result:\n    return func(result.pop('self'), **result)"
STEP_SELF_A = "if 'self' in result:\n    return await func(result.pop('self'), **result)"
MODES = ['ARGS', 'KWARGS_WITH_NONE', 'KWARGS_WITHOUT_NONE']


def conv_steps(body, mode, is_async, who):
    """symbolic walk of the wrapper body for one ReturnAs mode -> (steps, terminated)"""
    steps = []
    i = 0
    while i < len(body):
        s = body[i]
        if isinstance(s, ast.If) and isinstance(s.test, ast.Compare) and len(s.test.ops) == 1 \
                and isinstance(s.test.ops[0], ast.Eq) and is_name(s.test.left, 'return_as'):
            c = s.test.comparators[0]
            if not (isinstance(c, ast.Attribute) and is_name(c.value, 'ReturnAs') and c.attr in MODES) or s.orelse:
                bad(f'{who}: unrecognised return_as test at line {s.lineno}')
            if c.attr == mode:
                inner, term = conv_steps(s.body, mode, is_async, who)
                steps += inner
                if term:
                    return steps, True
            i += 1
            continue
        if same(s, STEP_SELF_A if is_async else STEP_SELF):
            steps.append('CIfSelfCallKw'); i += 1; continue
        if same(s, 'positional, keywords = _as_args(result)'):
            nxt = body[i + 1] if i + 1 < len(body) else None
            want = 'return await func(*positional, **keywords)' if is_async else 'return func(*positional, **keywords)'
            if nxt is None or not same(nxt, want):
                bad(f'{who}: `_as_args(result)` is not followed by `{want}`')
            steps.append('CAsArgsCall')
            return steps, True
        if same(s, 'result = {k: v for k, v in result.items() if v is not None}'):
            steps.append('CDropNone'); i += 1; continue
        if same(s, 'return await func(**result)' if is_async else 'return func(**result)'):
            steps.append('CCallKw')
            return steps, True
        bad(f'{who}: unrecognised statement at line {s.lineno}')
    return steps, False


def tr_wrapper(w, is_async):
    who = w.name
    if isinstance(w, ast.AsyncFunctionDef) != is_async:
        bad(f'{who}: sync/async kind changed')
    a = w.args
    if a.args or a.kwonlyargs or a.vararg is None or a.vararg.arg != 'args' or a.kwarg is None or a.kwarg.arg != 'kwargs':
        bad(f'{who}: signature is not (*args, **kwargs)')
    if not (len(w.decorator_list) == 1 and same_expr(w.decorator_list[0], 'wraps(func)')):
        bad(f'{who}: not decorated with @wraps(func)')
    body = strip_doc(w.body)
    if not body or not same(body[0], 'result = _wrapper_content(*args, **kwargs)'):
        bad(f'{who}: does not start with `result = _wrapper_content(*args, **kwargs)`')
    out = {}
    for m in MODES:
        steps, _ = conv_steps(body[1:], m, is_async, who)
        out[m] = steps
    return out


AS_ARGS_HEAD = '''
params = inspect.signature(func).parameters
has_var_keyword = any(p.kind == p.VAR_KEYWORD for p in params.values())
'''
AS_ARGS_HEAD_PLAIN = '''
params = inspect.signature(func).parameters
'''
AS_ARGS_IF_FULL = '''
if any(p.kind == p.VAR_POSITIONAL for p in params.values()) \\
        or (not has_var_keyword and any(k not in params for k in result)):
    return list(result.values()), {}
'''
AS_ARGS_IF_VARPOS = '''
if any(p.kind == p.VAR_POSITIONAL for p in params.values()):
    return list(result.values()), {}
'''
AS_ARGS_TAIL = '''
positional = []
for name, p in params.items():
    if name not in result or p.kind not in (p.POSITIONAL_ONLY, p.POSITIONAL_OR_KEYWORD):
        break

    positional.append(result.pop(name))
return positional, result
'''


def tr_as_args(f):
    if [x.arg for x in f.args.args] != ['result'] or f.args.vararg or f.args.kwarg or f.args.kwonlyargs:
        bad('_as_args: signature changed')
    body = strip_doc(f.body)
    if same_block(body, 'return list(result.values()), {}'):
        return True, False
    if len(body) >= 3 and same_block(body[:2], AS_ARGS_HEAD) and same_block(body[3:], AS_ARGS_TAIL):
        if same(body[2], AS_ARGS_IF_FULL):
            return True, True
        if same(body[2], AS_ARGS_IF_VARPOS):
            return False, True
    # since d10af45: no has_var_keyword, arrival order only for a var-positional parameter
    if len(body) >= 2 and same_block(body[:1], AS_ARGS_HEAD_PLAIN) and same(body[1], AS_ARGS_IF_VARPOS) \
            and same_block(body[2:], AS_ARGS_TAIL):
        return False, True
    bad('_as_args: unrecognised shape')


# ------------------------------------------------------------------ _wrapper_content
WC_PROLOGUE = '''
result = {}
parameter_dict = {parameter.name: parameter for parameter in parameters}
used_parameter_names: List[str] = []
signature = inspect.signature(func)
'''
DECLARED_KW = '''
parameter = parameter_dict[k]
result[k] = parameter.validate(value=v)
used_parameter_names.append(parameter.name)
'''
DECLARED_POS = '''
parameter = parameter_dict[k]
result[k] = parameter.validate(value=bound_args[k])
used_parameter_names.append(parameter.name)
'''
DECLARED_POS_K5 = DECLARED_POS + 'used_args.append(bound_args[k])\n'
# the *args branch since /repo 1908fef + 137d0c4: the collected positionals by position, zipped with the unused Parameters;
# strict: a positional beyond the last Parameter raises TooManyArguments; otherwise it is passed through under the key *args[i]
VARARGS_BRANCH = '''
unused = [p for p in parameters if p.name not in used_parameter_names]

if strict and len(bound_args[k]) > len(unused):
    raise TooManyArguments(f'Got more arguments expected: No parameter found for '
                           f'positional argument {len(unused)} of *args')

for arg, parameter in zip(bound_args[k], unused):
    print(f'Validate value {arg} with {parameter}')
    result[parameter.name] = parameter.validate(arg)
    used_parameter_names.append(parameter.name)

for i, arg in enumerate(bound_args[k][len(unused):], start=len(unused)):
    result[f'*args[{i}]'] = arg
'''
VARARGS_BRANCH_K5 = '''
for arg, parameter in zip(
        [a for a in args if a not in used_args],
        [p for p in parameters if p.name not in used_parameter_names]
):
    print(f'Validate value {arg} with {parameter}')
    result[parameter.name] = parameter.validate(arg)
    used_parameter_names.append(parameter.name)
'''
VARARGS_BRANCH_K4 = '''
for arg, parameter in zip(
        bound_args[k],
        [p for p in parameters if p.name not in used_parameter_names]
):
    print(f'Validate value {arg} with {parameter}')
    result[parameter.name] = parameter.validate(arg)
    used_parameter_names.append(parameter.name)
'''
UNUSED_ASSIGN = 'unused_parameters = [parameter for parameter in parameters if parameter.name not in used_parameter_names]'
UNUSED_LOOP = '''
for parameter in unused_parameters:
    if isinstance(parameter, ExternalParameter):
        if parameter.has_value():
            v = parameter.load_value()
            result[parameter.name] = parameter.validate(value=v)
            continue

    if parameter.is_required:
        return parameter.raise_exception(msg=f'Value for parameter {parameter.name} is required.')
    elif parameter.default_value == NoValue:
        if parameter.name in signature.parameters and \\
                signature.parameters[parameter.name].default is not signature.empty:
            value = signature.parameters[parameter.name].default
        else:
            raise ValidateException(f'Got neither value nor default value for parameter {parameter.name}')
    else:
        value = parameter.default_value

    result[parameter.name] = value
'''
FLASK_STRICT = '''
if strict and IS_FLASK_INSTALLED:
    if all([isinstance(p, FlaskJsonParameter) for p in parameter_dict.values()]) and request.is_json:
        unexpected_args = [k for k in request.json if k not in parameter_dict]

        if unexpected_args:
            raise TooManyArguments(f'Got unexpected arguments: {unexpected_args}')
'''


def undeclared_action(block, value_src, where):
    """a block handling an undeclared argument: raise TooManyArguments / pass it on unvalidated"""
    if len(block) == 1 and isinstance(block[0], ast.Raise) and isinstance(block[0].exc, ast.Call) \
            and is_name(block[0].exc.func, 'TooManyArguments'):
        return 'URaiseTooMany'
    if same_block(block, f'result[k] = {value_src}'):
        return 'UPass'
    bad(f'{where}: unrecognised treatment of an undeclared argument at line {block[0].lineno}')


def undeclared(block, value_src, where):
    """-> (action when strict condition holds, action otherwise, self exemption)"""
    if len(block) == 1 and isinstance(block[0], ast.If):
        s = block[0]
        if same_expr(s.test, 'strict'):
            exempt = False
        elif same_expr(s.test, "strict and k != 'self'"):
            exempt = True
        else:
            bad(f'{where}: unrecognised condition for undeclared arguments at line {s.lineno}')
        if not s.orelse:
            bad(f'{where}: undeclared argument is dropped when the condition is false')
        return undeclared_action(s.body, value_src, where), undeclared_action(s.orelse, value_src, where), exempt
    a = undeclared_action(block, value_src, where)
    return a, a, False


def tr_wrapper_content(f):
    a = f.args
    if a.args or a.kwonlyargs or a.vararg is None or a.vararg.arg != 'args' or a.kwarg is None or a.kwarg.arg != 'kwargs':
        bad('_wrapper_content: signature is not (*args, **kwargs)')
    body = strip_doc(f.body)
    if not same_block(body[:4], WC_PROLOGUE):
        bad('_wrapper_content: prologue changed')
    if not body or not same(body[-1], 'return result'):
        bad('_wrapper_content: does not end in `return result`')
    cfg = {'phases': []}

    def walk(block, guarded):
        i = 0
        bound_seen = False
        while i < len(block):
            s = block[i]
            if isinstance(s, ast.If) and same_expr(s.test, 'not ignore_input') and not s.orelse and not guarded:
                walk(s.body, True); i += 1; continue
            # keyword loop
            if isinstance(s, ast.For) and same_expr(s.target, '(k, v)') and same_expr(s.iter, 'kwargs.items()') and not s.orelse:
                if not (len(s.body) == 1 and isinstance(s.body[0], ast.If) and same_expr(s.body[0].test, 'k in parameter_dict')
                        and same_block(s.body[0].body, DECLARED_KW)):
                    bad('_wrapper_content: keyword loop changed')
                st, lax, exempt = undeclared(s.body[0].orelse, 'v', '_wrapper_content keyword loop')
                if exempt:
                    bad('_wrapper_content: keyword loop has a self exemption')
                cfg['kw'] = (st, lax)
                cfg['phases'].append((guarded, 'PhKwargs')); i += 1; continue
            if same(s, 'used_args = []'):
                bad('_wrapper_content: pre-fix shape of the *args branch: the values for *args are found by filtering all positionals '
                    'by == against used_args (finding C12-K5, repaired by /repo 1908fef)')
            if same(s, "wants_args = '*args' in str(signature)"):
                i += 1; continue
            # bind_partial
            if isinstance(s, ast.Try):
                if s.orelse or s.finalbody or not same_block(s.body, 'bound_args = signature.bind_partial(*args).arguments'):
                    bad('_wrapper_content: the bind_partial try block changed')
                table = []
                for h in s.handlers:
                    if not (len(h.body) == 1 and isinstance(h.body[0], ast.Raise) and isinstance(h.body[0].exc, ast.Call)
                            and is_name(h.body[0].exc.func) and h.body[0].exc.func.id in EXC):
                        bad('_wrapper_content: unrecognised handler around bind_partial')
                    table += [(c, EXC[h.body[0].exc.func.id]) for c in caught(h, '_wrapper_content bind_partial')]
                cfg['bind'] = table
                bound_seen = True
                i += 1; continue
            # positional loop
            if isinstance(s, ast.For) and is_name(s.target, 'k') and is_name(s.iter, 'bound_args') and not s.orelse:
                if not bound_seen:
                    bad('_wrapper_content: positional loop before bind_partial')
                ok = len(s.body) == 1 and isinstance(s.body[0], ast.If)
                top = s.body[0] if ok else None
                ok = ok and same_expr(top.test, "k == 'args' and wants_args")
                if ok and same_block(top.body, VARARGS_BRANCH_K5):
                    bad('_wrapper_content: pre-fix shape of the *args branch: values filtered by equality (finding C12-K5)')
                if ok and same_block(top.body, VARARGS_BRANCH_K4):
                    bad('_wrapper_content: pre-fix shape of the *args branch: zip drops a positional beyond the last Parameter silently, '
                        'no TooManyArguments under strict (finding C12-K4, repaired by /repo 137d0c4)')
                ok = ok and same_block(top.body, VARARGS_BRANCH) \
                    and len(top.orelse) == 1 and isinstance(top.orelse[0], ast.If)
                mid = top.orelse[0] if ok else None
                if ok and same_expr(mid.test, 'k in parameter_dict') and same_block(mid.body, DECLARED_POS_K5):
                    bad('_wrapper_content: pre-fix shape of the positional loop: used_args bookkeeping by value (finding C12-K5)')
                ok = ok and same_expr(mid.test, 'k in parameter_dict') and same_block(mid.body, DECLARED_POS)
                if not ok:
                    bad('_wrapper_content: positional loop changed')
                st, lax, exempt = undeclared(mid.orelse, 'bound_args[k]', '_wrapper_content positional loop')
                cfg['pos'] = (st, lax, exempt)
                cfg['phases'].append((guarded, 'PhPositional')); i += 1; continue
            # unused-parameter loop
            if same(s, UNUSED_ASSIGN):
                nxt = block[i + 1] if i + 1 < len(block) else None
                if nxt is None or not same(nxt, UNUSED_LOOP):
                    bad('_wrapper_content: the unused-parameter loop (external source, required, default cascade) changed')
                cfg['unused'] = ['UExternal', 'URequired', 'UParamDefault', 'USigDefault']
                cfg['phases'].append((guarded, 'PhUnused')); i += 2; continue
            if same(s, FLASK_STRICT):
                cfg['phases'].append((guarded, 'PhFlaskStrict')); i += 1; continue
            bad(f'_wrapper_content: unrecognised statement at line {s.lineno}')

    walk(body[4:-1], False)
    for k, what in (('kw', 'keyword loop'), ('pos', 'positional loop'), ('bind', 'bind_partial'), ('unused', 'unused-parameter loop')):
        if k not in cfg:
            bad(f'_wrapper_content: no {what} found')
    names = [p for _, p in cfg['phases']]
    if len(set(names)) != len(names):
        bad('_wrapper_content: a phase occurs twice')
    return cfg


def translate():
    psrc, pcls, rule, conv_h, chain_h = tr_parameter()
    src, tree = load(REL)
    v = find_def(tree, 'validate', UNIT)
    va = v.args
    if va.args or va.vararg is None or va.vararg.arg != 'parameters' or [x.arg for x in va.kwonlyargs] != ['return_as', 'strict', 'ignore_input'] \
            or [dump(d) for d in va.kw_defaults] != [dump(expr(s)) for s in ('ReturnAs.ARGS', 'True', 'False')]:
        bad('signature or defaults of validate changed')
    inner = find_in(v, 'validator', UNIT)
    ib = strip_doc(inner.body)
    kinds = [type(s).__name__ + ':' + getattr(s, 'name', '') for s in ib]
    if kinds != ['Assign:', 'FunctionDef:wrapper', 'AsyncFunctionDef:async_wrapper', 'FunctionDef:_as_args',
                 'FunctionDef:_wrapper_content', 'If:']:
        bad('validate.validator: the sequence of nested definitions changed')
    if not same(ib[0], 'is_coroutine = inspect.iscoroutinefunction(func)'):
        bad('validate.validator: is_coroutine changed')
    if not same(ib[5], 'if is_coroutine:\n    return async_wrapper\nelse:\n    return wrapper'):
        bad('validate.validator: the sync/async dispatch changed')
    if not same_block(strip_doc(v.body)[1:], 'return validator') or strip_doc(v.body)[0] is not inner:
        bad('validate: does not return validator')
    sync = tr_wrapper(ib[1], False)
    asyn = tr_wrapper(ib[2], True)
    arrival_unknown, sig_order = tr_as_args(ib[3])
    wc = tr_wrapper_content(ib[4])
    # the ReturnAs enumeration
    ra = find_class(tree, 'ReturnAs', UNIT)
    if [t.targets[0].id for t in ra.body if isinstance(t, ast.Assign)] != MODES:
        bad('ReturnAs members changed')

    def table(t):
        return coq_list([f'({c}, {a})' for c, a in t])

    def conv(c):
        return ('{| cv_args := %s; cv_kw_with_none := %s; cv_kw_without_none := %s |}'
                % tuple(coq_list(c[m]) for m in MODES))

    out = header('t_validate.py', ['From PV Require Import Base.Exn Model.ValidateSem.'])
    out += f'Definition src_validate : string := {coq_string(provenance(REL, src, v))}.\n'
    out += f'Definition src_parameter : string := {coq_string(provenance(REL_P, psrc, pcls))}.\n'
    out += f'Definition is_required_rule (d r : bool) : bool := {rule}.\n'
    out += 'Definition cfg : vcfg := {|\n'
    out += f'  pv_conv_handlers := {table(conv_h)};\n'
    out += f'  pv_chain_handlers := {table(chain_h)};\n'
    out += '  wc_phases := %s;\n' % coq_list([f'({coq_bool(g)}, {p})' for g, p in wc['phases']])
    out += f'  wc_kw_strict := {wc["kw"][0]};\n  wc_kw_lax := {wc["kw"][1]};\n'
    out += f'  wc_pos_strict := {wc["pos"][0]};\n  wc_pos_lax := {wc["pos"][1]};\n'
    out += f'  wc_pos_self_exempt := {coq_bool(wc["pos"][2])};\n'
    out += f'  wc_bind_handlers := {table(wc["bind"])};\n'
    out += f'  wc_unused := {coq_list(wc["unused"])};\n'
    out += f'  cv_sync := {conv(sync)};\n  cv_async := {conv(asyn)};\n'
    out += f'  aa_arrival_on_unknown_key := {coq_bool(arrival_unknown)};\n'
    out += f'  aa_signature_order := {coq_bool(sig_order)} |}}.\n'
    return {UNIT: out}
