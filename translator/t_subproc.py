"""T5/op sequences: pedantic/decorators/fn_deco_in_subprocess.py -> Gen/Subproc.v

`calculate_in_subprocess` -> `parent_prog : list pop`, `_inner` -> `child_prog : list cop` (op languages of
coq/Model/Subproc.v), statement by statement and IN SOURCE ORDER: a moved `tx.close()`, a dropped `join()` /
`rx.close()`, a narrowed or widened `except` all change the emitted program.  The handler tables (which classes the two
try statements catch) come from the AST.  `in_subprocess.wrapper` is checked to be `@wraps(func) async def` that returns
`await calculate_in_subprocess(func, *args, **kwargs)`.  Every statement must match one whitelisted shape exactly
(same variable names, same call arguments); anything else raises Untranslatable.  Syntactic side conditions emitted as
booleans: the only `await` of the parent is the one inside `if not rx.poll(): await event.wait()` (so there is no
suspension point between Pipe() and tx.close()); Pipe()/Process() are called nowhere else in the module."""
import ast
from common import *

REL = 'pedantic/decorators/fn_deco_in_subprocess.py'
UNIT = 'Subproc'
UNITS = [UNIT]

EXC = {'BaseException': 'BaseExceptionC', 'Exception': 'ExceptionC', 'KeyboardInterrupt': 'KeyboardInterruptC',
       'SystemExit': 'SystemExitC', 'ValueError': 'ValueErrorC', 'TypeError': 'TypeErrorC', 'LookupError': 'LookupErrorC',
       'IndexError': 'IndexErrorC', 'KeyError': 'KeyErrorC', 'AttributeError': 'AttributeErrorC',
       'AssertionError': 'AssertionErrorC', 'RuntimeError': 'RuntimeErrorC', 'StopIteration': 'StopIterationC',
       'ArithmeticError': 'ArithmeticErrorC', 'OverflowError': 'OverflowErrorC', 'NameError': 'NameErrorC',
       'OSError': 'OSErrorC', 'IOError': 'OSErrorC', 'EnvironmentError': 'OSErrorC', 'EOFError': 'EOFErrorC',
       'ChildProcessError': 'ChildProcessErrorC'}


def stmt(text):
    return dump(ast.parse(text).body[0])


def same(node, text):
    return dump(node) == stmt(text)


def classes_of(h, where):
    """caught classes of an except clause as Coq terms"""
    if h.type is None:
        return ['BaseExceptionC']
    elts = h.type.elts if isinstance(h.type, ast.Tuple) else [h.type]
    out = []
    for e in elts:
        if not is_name(e) or e.id not in EXC:
            raise Untranslatable(UNIT, f'{where}: except clause names an unknown class at line {h.lineno}')
        out.append(EXC[e.id])
    if not out:
        raise Untranslatable(UNIT, f'{where}: empty except tuple at line {h.lineno}')
    return out


PARENT_SIMPLE = [
    ('rx, tx = Pipe(duplex=False)', 'PPipe'),
    ('process = Process(target=_inner, args=(tx, func, *args), kwargs=kwargs)', 'PMkProcess'),
    ('process.start()', 'PStart'),
    ('tx.close()', 'PCloseTx'),
    ('event = asyncio.Event()', 'PNewEvent'),
    ('loop = asyncio.get_event_loop()', 'PGetLoop'),
    ('loop.add_reader(fd=rx.fileno(), callback=event.set)', 'PAddReader'),
    ('loop.add_reader(rx.fileno(), event.set)', 'PAddReader'),
    ('if not rx.poll():\n    await event.wait()', 'PIfNotPollWait'),
    ('loop.remove_reader(fd=rx.fileno())', 'PRemoveReader'),
    ('loop.remove_reader(rx.fileno())', 'PRemoveReader'),
    ('event.clear()', 'PClearEvent'),
    ('process.join()', 'PJoin'),
    ('process.kill()', 'PKill KSigKill'),            # SIGKILL
    ('process.terminate()', 'PKill KSigTerm'),       # SIGTERM: fatal only under the default disposition (beh.b_term_fatal)
    ('rx.close()', 'PCloseRx'),
    ('if isinstance(result, SubprocessError):\n    raise result.exception', 'PRaiseIfError'),
    ('return result', 'PReturn'),
]
PARENT_SIMPLE = [(stmt(t), op) for t, op in PARENT_SIMPLE]


def parent_op(s):
    d = dump(s)
    for pat, op in PARENT_SIMPLE:
        if d == pat:
            return op
    # if Pipe is None: raise ImportError(<str>)
    if isinstance(s, ast.If) and dump(s.test) == dump(ast.parse('Pipe is None').body[0].value) and not s.orelse \
            and len(s.body) == 1 and isinstance(s.body[0], ast.Raise) and isinstance(s.body[0].exc, ast.Call) \
            and is_name(s.body[0].exc.func, 'ImportError') and s.body[0].cause is None:
        return 'PRequirePipe'
    if same(s, 'result = rx.recv()'):
        return 'PRecv []'
    if isinstance(s, ast.Try) and len(s.body) == 1 and same(s.body[0], 'if not rx.poll():\n    await event.wait()'):
        # try: <the wait> except BaseException | asyncio.CancelledError: <simple statements>; raise
        # -> PIfNotPollWaitH n, the n ops of the handler body, PReraise (the normal path jumps over them)
        if s.orelse or s.finalbody or len(s.handlers) != 1:
            raise Untranslatable(UNIT, f'calculate_in_subprocess: the try around the wait is not try/except with one handler (line {s.lineno})')
        h = s.handlers[0]
        t = h.type
        catches_cancel = t is None or is_name(t, 'BaseException') or dump(t) == dump(ast.parse('asyncio.CancelledError').body[0].value)
        if not catches_cancel:
            raise Untranslatable(UNIT, f'calculate_in_subprocess: the handler around the wait does not catch CancelledError (line {h.lineno})')
        if not h.body or not (isinstance(h.body[-1], ast.Raise) and h.body[-1].exc is None and h.body[-1].cause is None):
            raise Untranslatable(UNIT, f'calculate_in_subprocess: the handler around the wait does not end with a bare raise (line {h.lineno})')
        ops = []
        for x in h.body[:-1]:
            if isinstance(x, ast.Try):
                raise Untranslatable(UNIT, f'calculate_in_subprocess: nested try in the handler around the wait at line {x.lineno}')
            o = parent_op(x)
            if isinstance(o, list) or o in ('PIfNotPollWait', 'PReturn', 'PRaiseIfError') or o.startswith('PRecv'):
                raise Untranslatable(UNIT, f'calculate_in_subprocess: unsupported statement in the handler around the wait at line {x.lineno}')
            ops.append(o)
        return [f'PIfNotPollWaitH {len(ops)}'] + ops + ['PReraise']
    if isinstance(s, ast.Try):
        if s.orelse or not (s.handlers or s.finalbody):
            raise Untranslatable(UNIT, f'calculate_in_subprocess: try statement with else / without handlers at line {s.lineno}')
        if not (len(s.body) == 1 and same(s.body[0], 'result = rx.recv()')):
            raise Untranslatable(UNIT, f'calculate_in_subprocess: try body is not `result = rx.recv()` at line {s.lineno}')
        hs = []
        for h in s.handlers:
            ok = (len(h.body) == 1 and isinstance(h.body[0], ast.Assign) and len(h.body[0].targets) == 1
                  and is_name(h.body[0].targets[0], 'result'))
            if ok:
                v = h.body[0].value
                ok = (isinstance(v, ast.Call) and is_name(v.func, 'SubprocessError') and not v.args and len(v.keywords) == 1
                      and v.keywords[0].arg == 'ex' and isinstance(v.keywords[0].value, ast.Call)
                      and is_name(v.keywords[0].value.func, 'ChildProcessError')
                      and all(isinstance(a, ast.Constant) and isinstance(a.value, str) for a in v.keywords[0].value.args)
                      and not v.keywords[0].value.keywords)
            if not ok:
                raise Untranslatable(UNIT, 'calculate_in_subprocess: handler body is not '
                                           f'`result = SubprocessError(ex=ChildProcessError(<str>))` at line {h.lineno}')
            hs.append(f'({coq_list(classes_of(h, "calculate_in_subprocess"))}, PASetChildProcessError)')
        if s.finalbody:
            # try/except/finally: the finally body (simple statements only) is flattened behind the deferred recv
            fin = []
            for x in s.finalbody:
                if isinstance(x, ast.Try):
                    raise Untranslatable(UNIT, f'calculate_in_subprocess: nested try in a finally body at line {x.lineno}')
                o = parent_op(x)
                if isinstance(o, list) or o in ('PIfNotPollWait', 'PReturn', 'PRaiseIfError'):
                    raise Untranslatable(UNIT, f'calculate_in_subprocess: unsupported statement in a finally body at line {x.lineno}')
                fin.append(o)
            return [f'PRecvDefer {coq_list(hs)}'] + fin + ['PReraise']
        return f'PRecv {coq_list(hs)}'
    raise Untranslatable(UNIT, f'calculate_in_subprocess: unrecognised statement at line {s.lineno}')


def send_action(s, where):
    if same(s, 'tx.send(SubprocessError(ex=ex))'):
        return 'CSendError'
    if same(s, 'tx.send(res)'):
        return 'CSendResult'
    raise Untranslatable(UNIT, f'{where}: unrecognised send statement at line {s.lineno}')


def translate():
    src, tree = load(REL)
    # ---- module level: where Pipe / Process / _inner come from, nothing shared ------------------------------
    imp_ok = False
    for n in tree.body:
        if isinstance(n, ast.Try):
            for s in n.body:
                if isinstance(s, ast.ImportFrom) and s.module == 'multiprocess' and s.level == 0 \
                        and {a.name for a in s.names} >= {'Process', 'Pipe'} and all(a.asname is None for a in s.names):
                    imp_ok = True
    if not imp_ok:
        raise Untranslatable(UNIT, 'Process and Pipe are not imported from multiprocess')
    f = find_def(tree, 'calculate_in_subprocess', UNIT)
    inner = find_def(tree, '_inner', UNIT)
    deco = find_def(tree, 'in_subprocess', UNIT)
    if f not in tree.body or inner not in tree.body or deco not in tree.body:
        raise Untranslatable(UNIT, 'calculate_in_subprocess / _inner / in_subprocess are not module-level functions')
    for n in ast.walk(tree):
        if isinstance(n, (ast.Global, ast.Nonlocal)):
            raise Untranslatable(UNIT, f'global/nonlocal statement at line {n.lineno}')
        if isinstance(n, ast.Call) and is_name(n.func) and n.func.id in ('Pipe', 'Process'):
            if not (f.lineno <= n.lineno <= f.end_lineno):
                raise Untranslatable(UNIT, f'{n.func.id}() is called outside calculate_in_subprocess (line {n.lineno})')
    for n in tree.body:      # no module-level rebinding of the names the programs use
        if isinstance(n, (ast.Assign, ast.AnnAssign, ast.AugAssign)):
            tg = n.targets if isinstance(n, ast.Assign) else [n.target]
            for t in tg:
                for x in ast.walk(t):
                    if is_name(x) and x.id in ('rx', 'tx', 'process', 'event', 'loop', 'result', '_inner',
                                               'calculate_in_subprocess', 'SubprocessError'):
                        raise Untranslatable(UNIT, f'module-level assignment to {x.id} at line {n.lineno}')

    # ---- SubprocessError carries the exception unchanged ---------------------------------------------------
    se = find_class(tree, 'SubprocessError', UNIT)
    if se.bases or se.keywords or se.decorator_list:
        raise Untranslatable(UNIT, 'SubprocessError has bases/decorators')
    se_body = strip_doc(se.body)
    se_ok = False
    if len(se_body) == 1 and isinstance(se_body[0], ast.FunctionDef) and se_body[0].name == '__init__':
        ini = se_body[0]
        se_ok = ([a.arg for a in ini.args.args] == ['self', 'ex'] and not ini.args.vararg and not ini.args.kwarg
                 and not ini.args.kwonlyargs and not ini.decorator_list
                 and len(strip_doc(ini.body)) == 1 and same(strip_doc(ini.body)[0], 'self.exception = ex'))
    if not se_ok:
        raise Untranslatable(UNIT, 'SubprocessError is not `__init__(self, ex): self.exception = ex`')

    # ---- parent ----------------------------------------------------------------------------------------------
    if not isinstance(f, ast.AsyncFunctionDef) or f.decorator_list:
        raise Untranslatable(UNIT, 'calculate_in_subprocess is not an undecorated `async def`')
    a = f.args
    names = ([x.arg for x in a.posonlyargs], [x.arg for x in a.args])
    if names not in ((['func'], []), ([], ['func'])) or a.kwonlyargs or a.defaults or a.vararg is None \
            or a.vararg.arg != 'args' or a.kwarg is None or a.kwarg.arg != 'kwargs':
        raise Untranslatable(UNIT, 'signature of calculate_in_subprocess is not (func[, /], *args, **kwargs)')
    parent_kw_safe = names == (['func'], [])     # positional-only: a caller's keyword `func` lands in **kwargs
    pops = []
    for st in strip_doc(f.body):
        o = parent_op(st)
        pops += o if isinstance(o, list) else [o]
    n_await = len([n for n in ast.walk(f) if isinstance(n, (ast.Await, ast.AsyncFor, ast.AsyncWith, ast.Yield, ast.YieldFrom))])
    only_wait_awaits = n_await == len([o for o in pops if o.startswith('PIfNotPollWait')])

    # ---- child -----------------------------------------------------------------------------------------------
    if not isinstance(inner, ast.FunctionDef) or inner.decorator_list:
        raise Untranslatable(UNIT, '_inner is not an undecorated `def`')
    a = inner.args
    names = ([x.arg for x in a.posonlyargs], [x.arg for x in a.args])
    if names not in ((['tx', 'fun'], []), ([], ['tx', 'fun'])) or a.kwonlyargs or a.defaults or a.vararg is None \
            or a.vararg.arg != 'a' or a.kwarg is None or a.kwarg.arg != 'kw_args':
        raise Untranslatable(UNIT, 'signature of _inner is not (tx, fun[, /], *a, **kw_args)')
    child_kw_safe = names == (['tx', 'fun'], [])
    body = strip_doc(inner.body)
    cops = []
    i = 0
    have_loop = False
    setup = ('if inspect.iscoroutinefunction(fun):\n    event_loop = asyncio.new_event_loop()\n'
             '    asyncio.set_event_loop(event_loop)')
    aware = ('if event_loop is not None:\n    res = event_loop.run_until_complete(fun(*a, **kw_args))\n'
             'else:\n    res = fun(*a, **kw_args)')
    while i < len(body):
        s = body[i]
        if same(s, 'event_loop = None') and i + 1 < len(body) and same(body[i + 1], setup) and not have_loop:
            cops.append('CSetupLoop')
            have_loop = True
            i += 2
            continue
        if isinstance(s, ast.Try):
            if s.finalbody:
                raise Untranslatable(UNIT, f'_inner: try/finally at line {s.lineno}')
            if len(s.body) == 1 and same(s.body[0], aware) and have_loop:
                cops.append('CRunCallee true')
            elif len(s.body) == 1 and same(s.body[0], 'res = fun(*a, **kw_args)'):
                cops.append('CRunCallee false')
            else:
                raise Untranslatable(UNIT, f'_inner: unrecognised try body at line {s.lineno}')
            for h in s.handlers:
                if h.type is not None and h.name != 'ex':
                    raise Untranslatable(UNIT, f'_inner: handler does not bind `ex` at line {h.lineno}')
                if len(h.body) != 1:
                    raise Untranslatable(UNIT, f'_inner: handler body is not a single send at line {h.lineno}')
                cops.append(f'CCatch {coq_list(classes_of(h, "_inner"))} {send_action(h.body[0], "_inner")}')
            if s.orelse:
                if len(s.orelse) != 1:
                    raise Untranslatable(UNIT, f'_inner: else body is not a single send at line {s.lineno}')
                cops.append(f'CElse {send_action(s.orelse[0], "_inner")}')
            cops.append('CTryEnd')
            i += 1
            continue
        raise Untranslatable(UNIT, f'_inner: unrecognised statement at line {s.lineno}')
    if len([c for c in cops if c.startswith('CRunCallee')]) != 1:
        raise Untranslatable(UNIT, '_inner does not contain exactly one try statement running the callee')

    # ---- decorator ---------------------------------------------------------------------------------------------
    da = deco.args
    if [x.arg for x in da.args] != ['func'] or da.vararg or da.kwarg or da.kwonlyargs or deco.decorator_list:
        raise Untranslatable(UNIT, 'signature of in_subprocess is not (func)')
    db = strip_doc(deco.body)
    if not (len(db) == 2 and isinstance(db[0], (ast.FunctionDef, ast.AsyncFunctionDef)) and db[0].name == 'wrapper'
            and same(db[1], 'return wrapper')):
        raise Untranslatable(UNIT, 'in_subprocess is not `<def wrapper>; return wrapper`')
    wr = db[0]
    wa = wr.args
    if wa.args or wa.posonlyargs or wa.kwonlyargs or wa.vararg is None or wa.vararg.arg != 'args' or wa.kwarg is None \
            or wa.kwarg.arg != 'kwargs':
        raise Untranslatable(UNIT, 'signature of in_subprocess.wrapper is not (*args, **kwargs)')
    wb = strip_doc(wr.body)
    is_async = isinstance(wr, ast.AsyncFunctionDef)
    delegates = len(wb) == 1 and same(wb[0], 'return await calculate_in_subprocess(func, *args, **kwargs)')
    if not delegates and not (len(wb) == 1 and isinstance(wb[0], ast.Return)):
        raise Untranslatable(UNIT, 'in_subprocess.wrapper is not a single return statement')
    has_wraps = len(wr.decorator_list) == 1 and dump(wr.decorator_list[0]) == dump(ast.parse('wraps(func)').body[0].value)
    if wr.decorator_list and not has_wraps:
        raise Untranslatable(UNIT, 'in_subprocess.wrapper has decorators other than @wraps(func)')

    out = header('t_subproc.py', ['From PV Require Import Base.Exn Model.PipeKernel Model.Subproc.'])
    out += f'Definition src_calculate_in_subprocess : string := {coq_string(provenance(REL, src, f))}.\n'
    out += f'Definition src_inner : string := {coq_string(provenance(REL, src, inner))}.\n'
    out += f'Definition src_in_subprocess : string := {coq_string(provenance(REL, src, deco))}.\n'
    out += 'Definition parent_prog : list pop :=\n  [ ' + ';\n    '.join(pops) + ' ].\n'
    out += 'Definition child_prog : list cop :=\n  [ ' + ';\n    '.join(cops) + ' ].\n'
    out += f'Definition parent_awaits_only_in_wait : bool := {coq_bool(only_wait_awaits)}.\n'
    out += f'Definition wrapper_delegates : bool := {coq_bool(delegates)}.\n'
    out += f'Definition wrapper_is_async : bool := {coq_bool(is_async)}.\n'
    out += f'Definition wrapper_has_wraps : bool := {coq_bool(has_wraps)}.\n'
    out += (f'Definition kw_flags : kwflags := {{| kw_parent_safe := {coq_bool(parent_kw_safe)}; '
            f'kw_child_safe := {coq_bool(child_kw_safe)} |}}.\n')
    return {UNIT: out}
