"""T3/retry: pedantic/decorators/fn_deco_retry.py -> Gen/Retry.v

Family: `counter = <int>; (prologue not touching the counter); while counter <cmp> attempts:
try: return func(*args, **kwargs) except <spec>: <handler stmts>; <after stmt>`."""
import ast
from common import *

REL = 'pedantic/decorators/fn_deco_retry.py'
UNIT = 'Retry'
UNITS = [UNIT]
CMP = {ast.Lt: 'CLt', ast.LtE: 'CLe', ast.Gt: 'CGt', ast.GtE: 'CGe', ast.Eq: 'CEq', ast.NotEq: 'CNe'}


def fwd(node):
    return 'FwdSame' if is_forwarding_call(node, 'func') else 'FwdOther'


def translate():
    src, tree = load(REL)
    # retry_func: public entry, hands its *args / **kwargs over as a tuple and a dict (no merging with its own keywords)
    rf = find_def(tree, 'retry_func', UNIT)
    a = rf.args
    if [x.arg for x in a.args] != ['func'] or a.vararg is None or a.vararg.arg != 'args' or a.kwarg is None \
            or a.kwarg.arg != 'kwargs' or [x.arg for x in a.kwonlyargs] != ['attempts', 'exceptions', 'sleep_time', 'logger']:
        raise Untranslatable(UNIT, 'signature of retry_func changed')
    delegate = ast.parse('_retry(func, args, kwargs, attempts=attempts, exceptions=exceptions, '
                         'sleep_time=sleep_time, logger=logger)').body[0].value
    rb = strip_doc(rf.body)
    if not (len(rb) == 1 and isinstance(rb[0], ast.Return) and rb[0].value is not None and dump(rb[0].value) == dump(delegate)):
        raise Untranslatable(UNIT, 'retry_func does not delegate to _retry(func, args, kwargs, <same keywords>)')
    f = find_def(tree, '_retry', UNIT)
    a = f.args
    if [x.arg for x in a.args] != ['func', 'args', 'kwargs', 'attempts', 'exceptions', 'sleep_time', 'logger'] \
            or a.vararg is not None or a.kwarg is not None or a.kwonlyargs or a.defaults or a.posonlyargs:
        raise Untranslatable(UNIT, 'signature of _retry changed')
    body = strip_doc(f.body)
    # counter initialisation
    st = body[0]
    if not (isinstance(st, ast.Assign) and len(st.targets) == 1 and is_name(st.targets[0])
            and isinstance(st.value, ast.Constant) and type(st.value.value) is int):
        raise Untranslatable(UNIT, 'first statement is not `<counter> = <int literal>`')
    counter, init = st.targets[0].id, st.value.value
    i = 1
    # prologue: only the logger default is allowed
    while i < len(body) and not isinstance(body[i], ast.While):
        p = body[i]
        ok = (isinstance(p, ast.If) and dump(p.test) == dump(ast.parse('logger is None').body[0].value)
              and len(p.body) == 1 and isinstance(p.body[0], ast.Assign) and is_name(p.body[0].targets[0], 'logger')
              and not p.orelse)
        if not ok:
            raise Untranslatable(UNIT, f'unrecognised prologue statement at line {p.lineno}')
        i += 1
    if i >= len(body):
        raise Untranslatable(UNIT, 'no while loop')
    w = body[i]
    if w.orelse:
        raise Untranslatable(UNIT, 'while/else')
    t = w.test
    if not (isinstance(t, ast.Compare) and len(t.ops) == 1 and type(t.ops[0]) in CMP and is_name(t.left, counter)
            and is_name(t.comparators[0], 'attempts')):
        raise Untranslatable(UNIT, 'loop test is not `<counter> <cmp> attempts`')
    cmp_ = CMP[type(t.ops[0])]
    if len(w.body) != 1 or not isinstance(w.body[0], ast.Try):
        raise Untranslatable(UNIT, 'loop body is not a single try statement')
    tr = w.body[0]
    if tr.orelse or tr.finalbody or len(tr.handlers) != 1:
        raise Untranslatable(UNIT, 'try statement has else/finally or not exactly one handler')
    if not (len(tr.body) == 1 and isinstance(tr.body[0], ast.Return) and isinstance(tr.body[0].value, ast.Call)
            and is_name(tr.body[0].value.func, 'func')):
        raise Untranslatable(UNIT, 'try body is not `return func(...)`')
    try_fwd = fwd(tr.body[0].value)
    h = tr.handlers[0]
    if h.type is None or is_name(h.type, 'BaseException'):
        catch = 'CatchAll'
    elif is_name(h.type, 'exceptions'):
        catch = 'CatchParam'
    elif is_name(h.type, 'Exception'):
        catch = 'CatchCls ExceptionC'
    else:
        raise Untranslatable(UNIT, 'unrecognised except clause')
    hs = []
    for s in h.body:
        if isinstance(s, ast.Expr) and isinstance(s.value, ast.Call) and isinstance(s.value.func, ast.Attribute) \
                and is_name(s.value.func.value, 'logger'):
            # the message must not read attributes of the callee directly: func.__name__ raises AttributeError for
            # functools.partial / callable objects and the handler would die instead of retrying (pre-fix shape)
            # allowed: `func.__name__ if hasattr(func, '__name__') else repr(func)` (lazy: repr only for nameless callables).
            # refused: a bare `func.<attr>` (AttributeError for callables without it replaces the retry, finding F20) and
            # `getattr(func, '__name__', repr(func))` (repr evaluated eagerly: a bound method of an object whose __repr__ raises)
            guarded = set()
            for n in ast.walk(s):
                if isinstance(n, ast.IfExp) and dump(n.test) == dump(ast.parse("hasattr(func, '__name__')").body[0].value) \
                        and isinstance(n.body, ast.Attribute) and is_name(n.body.value, 'func') and n.body.attr == '__name__' \
                        and dump(n.orelse) == dump(ast.parse('repr(func)').body[0].value):
                    guarded.add(id(n.body))
                    guarded.add(id(n.orelse))
            for n in ast.walk(s):
                if isinstance(n, ast.Attribute) and is_name(n.value, 'func') and id(n) not in guarded:
                    raise Untranslatable(UNIT, f'the log statement at line {s.lineno} reads an attribute of func directly '
                                               '(AttributeError for callables without it replaces the retry)')
                if isinstance(n, ast.Call) and is_name(n.func, 'repr') and id(n) not in guarded:
                    raise Untranslatable(UNIT, f'the log statement at line {s.lineno} evaluates repr(...) unconditionally '
                                               '(a bound method of an object whose __repr__ raises replaces the retry)')
            hs.append('HLog')
        elif isinstance(s, ast.AugAssign) and is_name(s.target, counter) and isinstance(s.op, (ast.Add, ast.Sub)) \
                and isinstance(s.value, ast.Constant) and type(s.value.value) is int:
            k = s.value.value if isinstance(s.op, ast.Add) else -s.value.value
            hs.append(f'HIncr {coq_Z(k)}')
        elif isinstance(s, ast.Expr) and is_attr_call(s.value, 'time', 'sleep'):
            hs.append('HSleep')
        elif isinstance(s, ast.Raise) and s.exc is None:
            hs.append('HReraise')
        elif isinstance(s, ast.Pass):
            hs.append('HPass')
        elif isinstance(s, ast.Break):
            hs.append('HBreak')
        elif isinstance(s, ast.Return) and (s.value is None or (isinstance(s.value, ast.Constant) and s.value.value is None)):
            hs.append('HReturnNone')
        else:
            raise Untranslatable(UNIT, f'unrecognised handler statement at line {s.lineno}')
    rest = body[i + 1:]
    if len(rest) == 1 and isinstance(rest[0], ast.Return) and isinstance(rest[0].value, ast.Call) \
            and is_name(rest[0].value.func, 'func'):
        after, after_fwd = 'AfterCall', fwd(rest[0].value)
    elif len(rest) == 0 or (len(rest) == 1 and isinstance(rest[0], ast.Return) and rest[0].value is None):
        after, after_fwd = 'AfterReturnNone', 'FwdSame'
    else:
        raise Untranslatable(UNIT, 'unrecognised statements after the loop')

    # the decorator: wrapper must hand everything to retry_func unchanged
    r = find_def(tree, 'retry', UNIT)
    wr = find_def(r, 'wrapper', UNIT)
    wb = strip_doc(wr.body)
    wa = wr.args
    sig_ok = (not wa.args and not wa.kwonlyargs and not wa.posonlyargs and wa.vararg is not None and wa.vararg.arg == 'args'
              and wa.kwarg is not None and wa.kwarg.arg == 'kwargs')
    wrapper_ok = (sig_ok and len(wb) == 1 and isinstance(wb[0], ast.Return) and wb[0].value is not None
                  and dump(wb[0].value) == dump(delegate))
    if not wrapper_ok:
        raise Untranslatable(UNIT, 'retry.wrapper is not `def wrapper(*args, **kwargs): return _retry(func, args, kwargs, <same keywords>)` '
                                   '(merging **kwargs into the keywords of the retry machinery collides with parameters of the callee)')
    wraps_ok = any(isinstance(d, ast.Call) and is_name(d.func, 'wraps') and len(d.args) == 1 and is_name(d.args[0], 'func')
                   for d in wr.decorator_list)

    out = header('t_retry.py', ['From PV Require Import Base.Exn Model.RetrySem.'])
    out += f'Definition src_retry_func : string := {coq_string(provenance(REL, src, rf))}.\n'
    out += f'Definition src_retry_loop : string := {coq_string(provenance(REL, src, f))}.\n'
    out += f'Definition src_retry : string := {coq_string(provenance(REL, src, r))}.\n'
    out += 'Definition retry_cfg : retry_cfg := {|\n'
    out += f'  rc_init := {coq_Z(init)};\n  rc_cmp := {cmp_};\n  rc_catch := {catch};\n'
    out += f'  rc_handler := {coq_list(hs)};\n  rc_after := {after};\n'
    out += f'  rc_try_fwd := {try_fwd};\n  rc_after_fwd := {after_fwd} |}}.\n'
    out += f'Definition retry_wrapper_delegates : bool := {coq_bool(wrapper_ok)}.\n'
    out += f'Definition retry_wrapper_has_wraps : bool := {coq_bool(wraps_ok)}.\n'
    return {UNIT: out}
