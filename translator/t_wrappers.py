"""T4/wrappers + env switch: every wrapper of the package -> Gen/Wrappers.v, env_var_logic + every reference to the switch
-> Gen/EnvSwitch.v.

The wrapper bodies are *compiled* (statement by statement, explicit whitelist) into the effect language of
Model/WrapperSem.v.  Nothing is summarised into "shape ok" booleans: a second call of the callee, a swallowed exception,
a changed return expression, a dropped @wraps each change the emitted term.  Anything outside the whitelist raises
Untranslatable (fail closed)."""
import ast, os
from common import *

U = 'Wrappers'
UE = 'EnvSwitch'
UNITS = [U, UE]
D = 'pedantic/decorators/'

EXC = {'BaseException': [], 'Exception': [0], 'KeyboardInterrupt': [1], 'ValueError': [0, 1], 'TypeError': [0, 2],
       'LookupError': [0, 3], 'IndexError': [0, 3, 0], 'KeyError': [0, 3, 1], 'AttributeError': [0, 4],
       'AssertionError': [0, 5], 'RuntimeError': [0, 6], 'NotImplementedError': [0, 6, 1], 'StopIteration': [0, 7],
       'PedanticException': [0, 0], 'PedanticTypeCheckException': [0, 0, 0], 'PedanticOverrideException': [0, 0, 2],
       'PedanticCallWithArgsException': [0, 0, 3], 'NotImplementedException': [0, 14]}


def cpath(p):
    return coq_list([f'{x}%nat' for x in p])


def ndump(node):
    """ast dump insensitive to the Load/Store context"""
    return dump(node).replace('Store()', 'Load()').replace('Del()', 'Load()')


def same(node, text):
    return ndump(node) == ndump(ast.parse(text).body[0].value)


def same_stmt(node, text):
    return ndump(node) == ndump(ast.parse(text).body[0])


# ------------------------------------------------------------------------------------------------------
# wrapper bodies
# ------------------------------------------------------------------------------------------------------
class Body:
    """compiler of one wrapper body"""

    def __init__(self, unit, deco, wname, callees, params, is_async):
        self.unit, self.deco, self.wname = unit, deco, wname
        self.callees = callees            # python name -> 'CFunc' | 'COther'
        self.params = params              # names of the enclosing factory parameters usable as values
        self.is_async = is_async
        self.locals = {}                  # name -> slot
        self.kwlocals = set()
        self.purelocals = set()           # locals holding a value of the wrapper's own (datetime, timedelta)
        self.tmp = 0

    def bad(self, node, why):
        raise Untranslatable(self.unit, f'{self.deco}.{self.wname} line {getattr(node, "lineno", "?")}: {why}')

    def slot(self, name):
        if name not in self.locals:
            self.locals[name] = len(self.locals)
        return self.locals[name]

    # --- expressions that only format text: names, attributes of names, datetime.now() ---------------
    def fmt_ok(self, e):
        if isinstance(e, ast.Constant):
            return True
        if isinstance(e, ast.Name):
            return True
        if isinstance(e, ast.Attribute) and isinstance(e.value, ast.Name):
            return True
        if same(e, 'datetime.now()'):
            return True
        if isinstance(e, ast.JoinedStr):
            return all(self.fmt_ok(v) for v in e.values)
        if isinstance(e, ast.FormattedValue):
            return self.fmt_ok(e.value) and (e.format_spec is None or self.fmt_ok(e.format_spec))
        return False

    def fmt_items(self, exprs, node):
        """what evaluating these message expressions evaluates, left to right, as a Coq `list fitem`: reads of
        <callee>.__name__ / __qualname__ (FName), the text of args / kwargs / a local / a factory parameter
        (FArgs / FKwargs / FVal), things of the wrapper's own that cannot fail (FOwn).  Anything else fails closed."""
        out = []

        def go(e):
            if isinstance(e, ast.Constant):
                return
            if isinstance(e, ast.JoinedStr):
                for v in e.values:
                    go(v)
                return
            if isinstance(e, ast.FormattedValue):
                go(e.value)
                if e.format_spec is not None:
                    go(e.format_spec)
                return
            if same(e, 'datetime.now()'):
                out.append('FOwn')
                return
            if isinstance(e, ast.Name):
                if e.id == 'args':
                    out.append('FArgs')
                elif e.id == 'kwargs':
                    out.append('FKwargs')
                elif e.id in self.purelocals:
                    out.append('FOwn')
                elif (e.id in self.locals and e.id not in self.kwlocals) or e.id in self.params:
                    out.append(f'FVal ({self.expr(e)})')
                else:
                    self.bad(node, f'message formats the name {e.id}, which is neither args/kwargs, a local nor a factory parameter')
                return
            if isinstance(e, ast.Attribute) and isinstance(e.value, ast.Name):
                if e.value.id in self.callees and e.attr in ('__name__', '__qualname__'):
                    self.bad(node, f'message reads {e.value.id}.{e.attr} unconditionally: AttributeError on functools.partial / callable '
                                   f'objects (C18-K14, fixed by ff26652)')
                if e.value.id == self.wname and e.attr == 'num_calls':
                    out.append('FOwn')
                    return
            # <callee>.__name__ if hasattr(<callee>, "__name__") else repr(<callee>): the lazy name read (FName)
            if isinstance(e, ast.IfExp) and isinstance(e.body, ast.Attribute) and isinstance(e.body.value, ast.Name) \
                    and e.body.value.id in self.callees and e.body.attr in ('__name__', '__qualname__'):
                x, a = e.body.value.id, e.body.attr
                if same(e.test, f'hasattr({x}, {a!r})') and same(e.orelse, f'repr({x})'):
                    out.append(f'FName {self.callees[x]}')
                    return
            # getattr(func, '__name__', <constant>): a read that cannot fail
            if isinstance(e, ast.Call) and is_name(e.func, 'getattr') and len(e.args) == 3 and not e.keywords \
                    and isinstance(e.args[0], ast.Name) and e.args[0].id in self.callees \
                    and isinstance(e.args[1], ast.Constant) and e.args[1].value in ('__name__', '__qualname__'):
                if isinstance(e.args[2], ast.Constant):
                    out.append('FOwn')
                    return
                if same(e.args[2], f'repr({e.args[0].id})'):
                    self.bad(node, 'getattr(func, "__name__", repr(func)) evaluates repr(func) EAGERLY on every call, also for named '
                                   'callables (regression of fix ff26652: a bound method of an object whose __repr__ raises)')
            self.bad(node, f'message expression outside the whitelist: {dump(e)[:80]}')
        for x in exprs:
            go(x)
        return coq_list(out)

    def pure_ok(self, e):
        """effect-free value computed by the wrapper itself (never a callee, never args/kwargs)"""
        if same(e, 'datetime.now()') or isinstance(e, ast.Constant):
            return True
        if isinstance(e, ast.BinOp) and isinstance(e.op, (ast.Sub, ast.Add)):
            return all(isinstance(x, ast.Name) and x.id in self.locals and x.id not in self.kwlocals
                       for x in (e.left, e.right))
        return False

    def expr(self, e):
        if e is None or (isinstance(e, ast.Constant) and e.value is None):
            return 'ENone'
        if isinstance(e, ast.Name):
            if e.id in self.locals and e.id not in self.kwlocals:
                return f'EVar {self.locals[e.id]}%nat'
            if e.id in self.params:
                return f'EParam {coq_string(e.id)}'
        self.bad(e, f'value expression outside the whitelist: {dump(e)[:80]}')

    def cond(self, t):
        if isinstance(t, ast.UnaryOp) and isinstance(t.op, ast.Not):
            return f'CNot ({self.cond(t.operand)})'
        if isinstance(t, ast.Compare) and len(t.ops) == 1:
            op = {ast.Eq: 'CEq', ast.NotEq: 'CNe', ast.Is: 'CIs', ast.IsNot: 'CIsNot'}.get(type(t.ops[0]))
            if op:
                return f'{op} ({self.expr(t.left)}) ({self.expr(t.comparators[0])})'
        if isinstance(t, ast.Call) and same(t.func, 'inspect.iscoroutinefunction') and len(t.args) == 1 and not t.keywords \
                and isinstance(t.args[0], ast.Name) and t.args[0].id in self.callees:
            return f'CIsCoro {self.callees[t.args[0].id]}'
        if isinstance(t, ast.Constant) and t.value in (True, False):
            return 'CTrue' if t.value else 'CFalse'
        self.bad(t, f'condition outside the whitelist: {dump(t)[:80]}')

    def callee_call(self, e):
        """e is `callee(...)`; returns (callee, argspec, kwspec) or None"""
        if not (isinstance(e, ast.Call) and isinstance(e.func, ast.Name) and e.func.id in self.callees):
            return None
        a, k = 'ArgsOther', 'KwOther'
        if len(e.args) == 1 and isinstance(e.args[0], ast.Starred) and is_name(e.args[0].value, 'args'):
            a = 'ArgsSame'
        if len(e.keywords) == 1 and e.keywords[0].arg is None and isinstance(e.keywords[0].value, ast.Name):
            n = e.keywords[0].value.id
            if n == 'kwargs':
                k = 'KwSame'
            elif n in self.kwlocals:
                k = f'(KwVar {self.locals[n]}%nat)'
        return self.callees[e.func.id], a, k

    def call_stmt(self, tgt, value):
        """[tgt =] [await] callee(...)   or   [tgt =] await <local>"""
        awaited = isinstance(value, ast.Await)
        inner = value.value if awaited else value
        if awaited and not self.is_async:
            self.bad(value, 'await outside an async wrapper')
        cc = self.callee_call(inner)
        t = f'(Some {self.slot(tgt)}%nat)' if tgt is not None else 'None'
        if cc:
            return f'WCall {t} {cc[0]} {cc[1]} {cc[2]} {coq_bool(awaited)}'
        if awaited and isinstance(inner, ast.Name):
            ex = self.expr(inner)
            t = f'(Some {self.slot(tgt)}%nat)' if tgt is not None else 'None'
            return f'WAwait {t} ({ex})'
        return None

    def seq(self, items):
        if not items:
            return 'WSkip'
        out = items[-1]
        for it in reversed(items[:-1]):
            out = f'WSeq ({it}) ({out})'
        return out

    def block(self, stmts, in_handler=False):
        out = []
        i = 0
        while i < len(stmts):
            s = stmts[i]
            # require_kwargs trio
            if i + 2 < len(stmts) and isinstance(s, ast.Assign) and len(s.targets) == 1 and is_name(s.targets[0]) \
                    and isinstance(s.value, ast.Call) and is_name(s.value.func, 'DecoratedFunction'):
                fn = [n for n, c in self.callees.items() if c == 'CFunc'][0]
                x = s.targets[0].id
                s2, s3 = stmts[i + 1], stmts[i + 2]
                ok = same_stmt(s, f'{x} = DecoratedFunction(func={fn})') and isinstance(s2, ast.Assign) \
                    and len(s2.targets) == 1 and is_name(s2.targets[0])
                if ok:
                    y = s2.targets[0].id
                    ok = same_stmt(s2, f'{y} = FunctionCall(func={x}, args=args, kwargs=kwargs, context={{}})') \
                        and same_stmt(s3, f'{y}.assert_uses_kwargs()')
                if not ok:
                    self.bad(s, 'DecoratedFunction/FunctionCall/assert_uses_kwargs sequence changed')
                out.append('WAssertKw ArgsSame KwSame')
                i += 3
                continue
            # rename_kwargs loop family
            if i + 1 < len(stmts) and isinstance(s, ast.Assign) and len(s.targets) == 1 and is_name(s.targets[0]) \
                    and isinstance(s.value, ast.Dict) and not s.value.keys and isinstance(stmts[i + 1], ast.For):
                out.append(self.rename_loop(s.targets[0].id, stmts[i + 1]))
                i += 2
                continue
            out.append(self.stmt(s, in_handler))
            i += 1
        return self.seq(out)

    def rename_loop(self, tgt, loop):
        if loop.orelse or not same(loop.iter, 'kwargs.items()') or not (
                isinstance(loop.target, ast.Tuple) and len(loop.target.elts) == 2 and all(is_name(e) for e in loop.target.elts)):
            self.bad(loop, 'loop is not `for k, v in kwargs.items()`')
        k, v = (e.id for e in loop.target.elts)

        def action(body):
            if len(body) == 1 and isinstance(body[0], ast.Pass):
                return 'RkDrop'
            if len(body) == 1 and isinstance(body[0], ast.Assign) and len(body[0].targets) == 1:
                t, val = body[0].targets[0], body[0].value
                if not (same(val, f'kwargs[{k}]') or same(val, v)):
                    self.bad(body[0], 'assigned value is not the value of the current keyword')
                if same(t, f'{tgt}[param_dict[{k}]]'):
                    return 'RkRenamed'
                if same(t, f'{tgt}[{k}]'):
                    return 'RkSame'
            self.bad(body[0], 'unrecognised statement in the renaming loop')
        if len(loop.body) != 1 or not isinstance(loop.body[0], ast.If):
            self.bad(loop, 'loop body is not a single if/else')
        iff = loop.body[0]
        if same(iff.test, f'{k} in param_dict'):
            listed, unlisted = action(iff.body), (action(iff.orelse) if iff.orelse else 'RkDrop')
        elif same(iff.test, f'{k} not in param_dict'):
            unlisted, listed = action(iff.body), (action(iff.orelse) if iff.orelse else 'RkDrop')
        else:
            self.bad(iff, 'loop test is not `k in param_dict`')
        sl = self.slot(tgt)
        self.kwlocals.add(tgt)
        return f'WRenameKw {sl}%nat {listed} {unlisted}'

    def stmt(self, s, in_handler=False):
        if isinstance(s, ast.Pass):
            return 'WSkip'
        if isinstance(s, ast.Expr):
            v = s.value
            if isinstance(v, ast.Constant) and isinstance(v.value, str):
                return 'WSkip'
            if isinstance(v, ast.Call) and is_name(v.func, 'print'):
                if v.keywords:
                    self.bad(s, 'print with keyword arguments')
                return f'WPrint {self.fmt_items(v.args, s)}'
            if isinstance(v, ast.Call) and is_name(v.func, '_raise_warning'):
                kw = {k.arg: k.value for k in v.keywords}
                if v.args or set(kw) != {'msg', 'category'} or not is_name(kw['category']):
                    self.bad(s, '_raise_warning call changed')
                cat = kw['category'].id
                items = self.fmt_items([kw['msg']], s)
                return f'WWarn WDeprecation {items}' if cat == 'DeprecationWarning' else f'WWarn (WOtherCat {coq_string(cat)}) {items}'
            c = self.call_stmt(None, v)
            if c:
                return c
            self.bad(s, f'expression statement outside the whitelist: {dump(v)[:80]}')
        if isinstance(s, (ast.Assign, ast.AnnAssign)):
            tgts = s.targets if isinstance(s, ast.Assign) else [s.target]
            if len(tgts) != 1 or not is_name(tgts[0]) or s.value is None:
                self.bad(s, 'assignment target is not a single local name')
            name = tgts[0].id
            if name in ('args', 'kwargs') or name in self.callees or name in self.params:
                self.bad(s, f'assignment to {name}')
            c = self.call_stmt(name, s.value)
            if c:
                return c
            if self.pure_ok(s.value):
                self.purelocals.add(name)
                return f'WPure {self.slot(name)}%nat'
            if isinstance(s.value, ast.Name) or (isinstance(s.value, ast.Constant) and s.value.value is None):
                return f'WAssign {self.slot(name)}%nat ({self.expr(s.value)})'
            self.bad(s, f'assigned expression outside the whitelist: {dump(s.value)[:80]}')
        if isinstance(s, ast.AugAssign):
            if same(s.target, f'{self.wname}.num_calls') and isinstance(s.op, (ast.Add, ast.Sub)) \
                    and isinstance(s.value, ast.Constant) and type(s.value.value) is int:
                k = s.value.value if isinstance(s.op, ast.Add) else -s.value.value
                return f'WCount {coq_Z(k)}'
            self.bad(s, 'augmented assignment is not `<this wrapper>.num_calls += <int>`')
        if isinstance(s, ast.If):
            return f'WIf ({self.cond(s.test)}) ({self.block(s.body, in_handler)}) ({self.block(s.orelse, in_handler)})'
        if isinstance(s, ast.Raise):
            if s.exc is None:
                if not in_handler:
                    self.bad(s, 'bare raise outside a handler')
                return 'WReraise'
            cls = s.exc.func if isinstance(s.exc, ast.Call) else s.exc
            if s.cause is not None or not (isinstance(cls, ast.Name) and cls.id in EXC):
                self.bad(s, 'raise of an unknown class')
            if isinstance(s.exc, ast.Call) and s.exc.keywords:
                self.bad(s, 'exception constructed with keyword arguments')
            items = self.fmt_items(s.exc.args, s) if isinstance(s.exc, ast.Call) else '[]'
            return f'WRaise {cpath(EXC[cls.id])} {items}'
        if isinstance(s, ast.Return):
            v = s.value
            if v is not None and (isinstance(v, ast.Await) or isinstance(v, ast.Call)):
                self.tmp += 1
                name = f'$ret{self.tmp}'
                c = self.call_stmt(name, v)
                if not c:
                    self.bad(s, f'returned call outside the whitelist: {dump(v)[:80]}')
                return f'WSeq ({c}) (WReturn (EVar {self.locals[name]}%nat))'
            return f'WReturn ({self.expr(v)})'
        if isinstance(s, ast.Try):
            if s.orelse or len(s.handlers) > 1:
                self.bad(s, 'try with else or several handlers')
            body = self.block(s.body, in_handler)
            if s.handlers:
                h = s.handlers[0]
                if h.type is None:
                    catch = f'(Some {cpath([])})'
                elif isinstance(h.type, ast.Name) and h.type.id in EXC:
                    catch = f'(Some {cpath(EXC[h.type.id])})'
                else:
                    self.bad(h, 'except clause with an unknown class')
                handler = self.block(h.body, True)
            else:
                catch, handler = 'None', 'WSkip'
            fin = self.block(s.finalbody, in_handler)
            return f'WTry ({body}) {catch} ({handler}) ({fin})'
        self.bad(s, f'statement outside the whitelist: {type(s).__name__}')


# ------------------------------------------------------------------------------------------------------
# decorators
# ------------------------------------------------------------------------------------------------------
#  name, file, path of nested defs down to the function that receives the callable, mode
DECOS = [
    ('trace', D + 'fn_deco_trace.py', ['trace'], 'full'),
    ('timer', D + 'fn_deco_timer.py', ['timer'], 'full'),
    ('count_calls', D + 'fn_deco_count_calls.py', ['count_calls'], 'full'),
    ('deprecated', D + 'fn_deco_deprecated.py', ['deprecated'], 'full'),
    ('trace_if_returns', D + 'fn_deco_trace_if_returns.py', ['trace_if_returns', 'decorator'], 'full'),
    ('does_same_as_function', D + 'fn_deco_does_same_as_function.py', ['does_same_as_function', 'decorator'], 'full'),
    ('rename_kwargs', D + 'fn_deco_rename_kwargs.py', ['rename_kwargs', 'decorator'], 'full'),
    ('overrides', D + 'fn_deco_overrides.py', ['overrides', 'decorator'], 'full'),
    ('require_kwargs', D + 'fn_deco_require_kwargs.py', ['require_kwargs'], 'full'),
    ('mock', D + 'fn_deco_mock.py', ['mock', 'decorator'], 'full'),
    ('unimplemented', D + 'fn_deco_unimplemented.py', ['unimplemented'], 'full'),
    ('pedantic', D + 'fn_deco_pedantic.py', ['pedantic', 'decorator'], 'flags'),
    ('validate', D + 'fn_deco_validate/fn_deco_validate.py', ['validate', 'validator'], 'flags'),
    ('in_subprocess', D + 'fn_deco_in_subprocess.py', ['in_subprocess'], 'flags'),
    ('retry', D + 'fn_deco_retry.py', ['retry', 'decorator'], 'flags'),
    ('safe_contextmanager', D + 'fn_deco_context_manager.py', ['safe_contextmanager'], 'flags'),
    ('safe_async_contextmanager', D + 'fn_deco_context_manager.py', ['safe_async_contextmanager'], 'flags'),
]


def is_guard(st, argname):
    """`if not is_enabled(): return <the argument unchanged>`"""
    return same_stmt(st, f'if not is_enabled():\n    return {argname}')


def single_param(fn, unit, what):
    a = fn.args
    if len(a.args) != 1 or a.vararg or a.kwarg or a.kwonlyargs or a.posonlyargs:
        raise Untranslatable(unit, f'{what}: expected exactly one parameter')
    return a.args[0].arg


def star_sig(fn):
    a = fn.args
    return (not a.args and not a.posonlyargs and not a.kwonlyargs and a.vararg is not None and a.vararg.arg == 'args'
            and a.kwarg is not None and a.kwarg.arg == 'kwargs')


def translate_deco(name, rel, path, mode):
    src, tree = load(rel)
    node = tree
    outer_params = []
    for k, p in enumerate(path):
        node = find_in(node, p, U)
        if k < len(path) - 1:
            a = node.args
            outer_params += [x.arg for x in a.args + a.kwonlyargs] + ([a.vararg.arg] if a.vararg else [])
            # the factory must do nothing but define and return the inner function (plus whitelisted tables)
            for st in strip_doc(node.body):
                if st is find_in(node, path[k + 1], U):
                    continue
                if same_stmt(st, f'return {path[k + 1]}'):
                    continue
                if name == 'rename_kwargs' and same_stmt(st, 'param_dict = {p.from_: p.to for p in params}'):
                    continue
                if name == 'pedantic' and same_stmt(st, 'return decorator if func is None else decorator(f=func)'):
                    continue
                raise Untranslatable(U, f'{name}: unrecognised statement in the factory at line {st.lineno}')
    fparam = single_param(node, U, name)
    callees = {fparam: 'CFunc'}
    if name == 'does_same_as_function':
        if outer_params != ['other_func']:
            raise Untranslatable(U, 'does_same_as_function: factory parameters changed')
        callees['other_func'] = 'COther'
    valparams = [p for p in outer_params if p in ('return_value',)]
    body = strip_doc(node.body)
    pre, variants, counter_init, dispatch = [], {}, 'None', None
    coro_alias = set()
    n = len(body)
    i = 0
    while i < n:
        st = body[i]
        last = (i == n - 1)
        if isinstance(st, (ast.FunctionDef, ast.AsyncFunctionDef)):
            is_async = isinstance(st, ast.AsyncFunctionDef)
            returned = any(isinstance(x, ast.Return) and x.value is not None and any(is_name(y, st.name) for y in ast.walk(x.value))
                           for b_ in body if b_ is not st and not isinstance(b_, (ast.FunctionDef, ast.AsyncFunctionDef))
                           for x in ast.walk(b_))
            if mode == 'flags' and not returned and not st.decorator_list and st.name not in ('wrapper', 'async_wrapper'):
                i += 1            # helper definition (validate._as_args / _wrapper_content)
                continue
            if not star_sig(st):
                raise Untranslatable(U, f'{name}.{st.name}: signature is not (*args, **kwargs)')
            wraps = False
            for d in st.decorator_list:
                if isinstance(d, ast.Call) and is_name(d.func, 'wraps') and len(d.args) == 1 and not d.keywords \
                        and is_name(d.args[0], fparam):
                    wraps = True
                else:
                    raise Untranslatable(U, f'{name}.{st.name}: unrecognised decorator on the wrapper')
            if mode == 'full':
                b = Body(U, name, st.name, callees, valparams, is_async)
                term = b.block(strip_doc(st.body))
                is_gen = False
            else:
                term = f'WOpaque {coq_string(seg_hash(src, st))}'
                is_gen = any(isinstance(x, (ast.Yield, ast.YieldFrom)) for x in ast.walk(st))
            key = 'async' if is_async else 'sync'
            if key in variants:
                raise Untranslatable(U, f'{name}: two {key} wrappers')
            variants[key] = (st.name, wraps, term, is_gen)
        elif i == 0 and is_guard(st, fparam):
            pre.append('DGuardEnabled')
        elif name == 'overrides' and same_stmt(st, f'name = {fparam}.__name__'):
            pre.append('DReadName')
        elif name == 'overrides' and isinstance(st, ast.If) and not st.orelse and len(st.body) == 1 \
                and isinstance(st.body[0], ast.Raise) and isinstance(st.body[0].exc, ast.Call) \
                and is_name(st.body[0].exc.func) and st.body[0].exc.func.id in EXC:
            t = st.test
            neg = False
            if isinstance(t, ast.Compare) and len(t.ops) == 1 and isinstance(t.ops[0], (ast.NotIn, ast.In)) \
                    and is_name(t.left, 'name') and isinstance(t.comparators[0], ast.Call) \
                    and is_name(t.comparators[0].func, 'dir') and len(t.comparators[0].args) == 1 \
                    and is_name(t.comparators[0].args[0]):
                neg = isinstance(t.ops[0], ast.NotIn)
                who = t.comparators[0].args[0].id
            else:
                raise Untranslatable(U, 'overrides: test is not `name [not] in dir(<class>)`')
            c = f'DNameInDir {coq_string(who)}'
            pre.append(f'DIfRaise ({"DNot (" + c + ")" if neg else c}) {cpath(EXC[st.body[0].exc.func.id])}')
        elif isinstance(st, ast.Assign) and len(st.targets) == 1 and 'sync' in variants \
                and same(st.targets[0], f'{variants["sync"][0]}.num_calls') and isinstance(st.value, ast.Constant) \
                and type(st.value.value) is int:
            counter_init = f'(Some {coq_Z(st.value.value)})'
        elif isinstance(st, ast.Assign) and len(st.targets) == 1 and is_name(st.targets[0]) \
                and same(st.value, f'inspect.iscoroutinefunction({fparam})'):
            coro_alias.add(ndump(st.targets[0]))
        elif mode == 'flags' and same_stmt(st, f'decorated_func = DecoratedFunction(func={fparam})'):
            coro_alias.add(ndump(ast.parse('decorated_func.is_coroutine').body[0].value))
            pre.append('DOpaque')
        elif isinstance(st, ast.Return) or (isinstance(st, ast.If) and all(isinstance(x, ast.Return) for x in st.body + st.orelse)
                                            and st.body and mode != 'never'):
            def sel(r):
                if not isinstance(r, ast.Return) or r.value is None:
                    raise Untranslatable(U, f'{name}: unrecognised return in the dispatch')
                v = r.value
                if is_name(v, fparam):
                    return 'VFunc'
                for key, (wn, _, _, _) in variants.items():
                    if is_name(v, wn):
                        return 'VSync' if key == 'sync' else 'VAsync'
                raise Untranslatable(U, f'{name}: the decorator returns something that is neither the callable nor a wrapper')
            if isinstance(st, ast.Return):
                v = st.value
                if isinstance(v, ast.Call) and isinstance(v.func, ast.Name) and v.func.id in ('contextmanager', 'asynccontextmanager') \
                        and len(v.args) == 1 and not v.keywords and mode == 'flags':
                    dispatch = f'DispThrough {coq_string(v.func.id)} {sel(ast.Return(value=v.args[0]))}'
                else:
                    dispatch = f'DispAlways {sel(st)}'
                if not last:
                    raise Untranslatable(U, f'{name}: statements after the return')
            else:
                t = st.test
                iscoro = same(t, f'inspect.iscoroutinefunction({fparam})') or ndump(t) in coro_alias
                if not iscoro:
                    raise Untranslatable(U, f'{name}: dispatch test is not iscoroutinefunction of the callable')
                if len(st.body) != 1:
                    raise Untranslatable(U, f'{name}: dispatch branch')
                if st.orelse:
                    if len(st.orelse) != 1 or not last:
                        raise Untranslatable(U, f'{name}: dispatch branch')
                    other = st.orelse[0]
                else:
                    if i != n - 2:
                        raise Untranslatable(U, f'{name}: dispatch is not the end of the decorator')
                    other = body[i + 1]
                    i += 1
                dispatch = f'DispOnCoro {sel(st.body[0])} {sel(other)}'
        elif mode == 'flags' and not any(isinstance(x, (ast.Return,)) for x in ast.walk(st)):
            pre.append('DOpaque')          # e.g. docstring check, generator-function assertions
        else:
            raise Untranslatable(U, f'{name}: unrecognised statement in the decorator at line {st.lineno}')
        i += 1
    if dispatch is None:
        raise Untranslatable(U, f'{name}: no return of the decorator found')

    def variant(key):
        if key not in variants:
            return 'None'
        wn, wraps, term, is_gen = variants[key]
        return (f'(Some {{| w_name := {coq_string(wn)}; w_async := {coq_bool(key == "async")}; w_wraps := {coq_bool(wraps)};\n'
                f'      w_generator := {coq_bool(is_gen)};\n      w_body := {term} |}})')
    out = f'Definition src_{name} : string := {coq_string(provenance(rel, src, node))}.\n'
    out += f'Definition d_{name} : deco := {{|\n  d_pre := {coq_list(pre)};\n  d_sync := {variant("sync")};\n' \
           f'  d_async := {variant("async")};\n  d_dispatch := {dispatch};\n  d_counter_init := {counter_init} |}}.\n'
    return out


def translate_raise_warning():
    rel = 'pedantic/helper_methods.py'
    src, tree = load(rel)
    f = find_def(tree, '_raise_warning', U)
    if [a.arg for a in f.args.args] != ['msg', 'category'] or f.args.vararg or f.args.kwarg:
        raise Untranslatable(U, '_raise_warning: signature changed')
    ops = []
    for st in strip_doc(f.body):
        ok = False
        for act, c in (('always', 'FaAlways'), ('default', 'FaDefault'), ('error', 'FaError'), ('ignore', 'FaIgnore'),
                       ('once', 'FaOnce'), ('module', 'FaModule')):
            if same_stmt(st, f"warnings.simplefilter(action='{act}', category=category)") \
                    or same_stmt(st, f"warnings.simplefilter('{act}', category=category)") \
                    or same_stmt(st, f"warnings.simplefilter('{act}', category)"):
                ops.append(f'FSimple {c}')
                ok = True
        if isinstance(st, ast.Expr) and isinstance(st.value, ast.Call) and same(st.value.func, 'warnings.warn'):
            kw = {k.arg: dump(k.value) for k in st.value.keywords}
            pos = [dump(a) for a in st.value.args]
            nm, nc = dump(ast.parse('msg').body[0].value), dump(ast.parse('category').body[0].value)
            if (kw.get('message') == nm or pos[:1] == [nm]) and (kw.get('category') == nc or pos[1:2] == [nc]) \
                    and set(kw) <= {'message', 'category', 'stacklevel'}:
                ops.append('FWarn')
                ok = True
        if not ok:
            raise Untranslatable(U, f'_raise_warning: unrecognised statement at line {st.lineno}')
    return (f'Definition src_raise_warning : string := {coq_string(provenance(rel, src, f))}.\n'
            f'Definition raise_warning_prog : list fop := {coq_list(ops)}.\n')


def translate_rename_dict():
    """param_dict = {p.from_: p.to for p in params}; class Rename stores its two arguments unchanged"""
    rel = D + 'fn_deco_rename_kwargs.py'
    src, tree = load(rel)
    c = find_class(tree, 'Rename', U)
    init = find_in(c, '__init__', U)
    if [a.arg for a in init.args.args] != ['self', 'from_', 'to'] or \
            [dump(s) for s in strip_doc(init.body)] != [dump(s) for s in ast.parse('self.from_ = from_\nself.to = to').body]:
        raise Untranslatable(U, 'Rename.__init__ changed')
    return 'Definition rename_dict_is_last_wins_comprehension : bool := true.\n'


def translate_is_coroutine_property():
    rel = 'pedantic/models/decorated_function.py'
    src, tree = load(rel)
    c = find_class(tree, 'DecoratedFunction', U)
    p = find_in(c, 'is_coroutine', U)
    b = strip_doc(p.body)
    if not (len(b) == 1 and same_stmt(b[0], 'return inspect.iscoroutinefunction(self._func)')
            and any(is_name(d, 'property') for d in p.decorator_list)):
        raise Untranslatable(U, 'DecoratedFunction.is_coroutine is not inspect.iscoroutinefunction(self._func)')
    init = find_in(c, '__init__', U)
    if not any(same_stmt(s, 'self._func = func') for s in init.body):
        raise Untranslatable(U, 'DecoratedFunction.__init__ does not store func in self._func')


# ------------------------------------------------------------------------------------------------------
# for_all_methods and the shortcuts
# ------------------------------------------------------------------------------------------------------
def translate_for_all():
    rel = D + 'class_decorators.py'
    src, tree = load(rel)
    fam = find_in(tree, 'for_all_methods', U)
    if [a.arg for a in fam.args.args] == ['decorator']:
        raise Untranslatable(U, 'for_all_methods has no `skip` parameter: trace_class traces __repr__ / __str__ again (C18-K13a: a traced '
                                '__repr__ prints its own self, RecursionError on every method call)')
    if [a.arg for a in fam.args.args] != ['decorator', 'skip'] or fam.args.vararg or fam.args.kwarg or fam.args.kwonlyargs \
            or len(fam.args.defaults) != 1 or not same(fam.args.defaults[0], '()'):
        raise Untranslatable(U, 'for_all_methods: parameters are not (decorator, skip=())')
    dec = find_in(fam, 'decorate', U)
    cls = single_param(dec, U, 'for_all_methods.decorate')
    fb = strip_doc(fam.body)
    if not (len(fb) == 2 and fb[0] is dec and same_stmt(fb[1], 'return decorate')):
        raise Untranslatable(U, 'for_all_methods: body is not `def decorate ...; return decorate`')
    body = strip_doc(dec.body)
    guard_first = bool(body) and is_guard(body[0], cls)
    i = 1 if guard_first else 0
    pre = []
    while i < len(body) and isinstance(body[i], ast.If) and len(body[i].body) == 1 and isinstance(body[i].body[0], ast.Raise) \
            and not body[i].orelse:
        t = body[i].test
        if same(t, f'issubclass({cls}, enum.Enum)'):
            pre.append('"enum"')
        elif same(t, f'is_dataclass(obj={cls})') or same(t, f'is_dataclass({cls})'):
            pre.append('"dataclass"')
        else:
            raise Untranslatable(U, f'for_all_methods.decorate: unrecognised precondition at line {body[i].lineno}')
        i += 1
    if i >= len(body) or not isinstance(body[i], ast.For):
        raise Untranslatable(U, 'for_all_methods.decorate: no loop over the class attributes')
    loop = body[i]
    if loop.orelse or not is_name(loop.target) or not same(loop.iter, f'{cls}.__dict__'):
        raise Untranslatable(U, 'for_all_methods.decorate: loop is not `for attr in cls.__dict__`')
    attr = loop.target.id
    lb = loop.body
    # the names in `skip` are left alone: first statement of the loop
    if not (lb and same_stmt(lb[0], f'if {attr} in skip:\n    continue')):
        raise Untranslatable(U, 'for_all_methods.decorate: the loop does not start with `if attr in skip: continue` (C18-K13a)')
    lb = lb[1:]
    if len(lb) != 2 or not (isinstance(lb[0], ast.Assign) and len(lb[0].targets) == 1 and is_name(lb[0].targets[0])):
        raise Untranslatable(U, 'for_all_methods.decorate: loop body changed')
    val = lb[0].targets[0].id
    if same(lb[0].value, f'getattr({cls}, {attr})'):
        lookup = 'LookupGetattr'
    elif same(lb[0].value, f'{cls}.__dict__[{attr}]'):
        lookup = 'LookupRawDict'
    else:
        raise Untranslatable(U, 'for_all_methods.decorate: attribute lookup changed')
    iff = lb[1]
    kinds = {'types.FunctionType': False, 'types.MethodType': False}
    if not isinstance(iff, ast.If):
        raise Untranslatable(U, 'for_all_methods.decorate: loop body changed')
    t = iff.test
    if not (isinstance(t, ast.Call) and is_name(t.func, 'isinstance') and len(t.args) == 2 and is_name(t.args[0], val)):
        raise Untranslatable(U, 'for_all_methods.decorate: first test is not isinstance(attr_value, ...)')
    classes = t.args[1].elts if isinstance(t.args[1], ast.Tuple) else [t.args[1]]
    for c in classes:
        key = ast.unparse(c)
        if key not in kinds:
            raise Untranslatable(U, f'for_all_methods.decorate: unexpected class {key} in the isinstance test')
        kinds[key] = True
    if not (len(iff.body) == 1 and same_stmt(iff.body[0], f'setattr({cls}, {attr}, decorator({val}))')):
        raise Untranslatable(U, 'for_all_methods.decorate: function branch is not setattr(cls, attr, decorator(attr_value))')
    wrap_prop = False
    if iff.orelse:
        expect = ast.parse(
            f'if isinstance({val}, property):\n'
            f'    prop = {val}\n'
            f'    wrapped_getter = _get_wrapped(prop=prop.fget, decorator=decorator)\n'
            f'    wrapped_setter = _get_wrapped(prop=prop.fset, decorator=decorator)\n'
            f'    wrapped_deleter = _get_wrapped(prop=prop.fdel, decorator=decorator)\n'
            f'    new_prop = property(fget=wrapped_getter, fset=wrapped_setter, fdel=wrapped_deleter)\n'
            f'    setattr({cls}, {attr}, new_prop)\n').body[0]
        if len(iff.orelse) != 1 or dump(iff.orelse[0]) != dump(expect):
            raise Untranslatable(U, 'for_all_methods.decorate: property branch changed')
        gw = find_in(tree, '_get_wrapped', U)
        gb = strip_doc(gw.body)
        if [a.arg for a in gw.args.args] != ['prop', 'decorator'] or len(gb) != 1 \
                or not same_stmt(gb[0], 'return decorator(prop) if prop is not None else None'):
            raise Untranslatable(U, '_get_wrapped changed')
        wrap_prop = True
    rest = body[i + 1:]
    if not (len(rest) == 2 and same_stmt(rest[0], f'_add_type_var_attr_and_method_to_class(cls={cls})')
            and same_stmt(rest[1], f'return {cls}')):
        raise Untranslatable(U, 'for_all_methods.decorate: statements after the loop changed')
    out = f'Definition src_for_all_methods : string := {coq_string(provenance(rel, src, fam))}.\n'
    out += ('Definition forall_cfg : forall_cfg := {|\n'
            f'  fa_guard_first := {coq_bool(guard_first)};\n  fa_pre_raises := {coq_list(pre)};\n  fa_lookup := {lookup};\n'
            f'  fa_wrap_function_type := {coq_bool(kinds["types.FunctionType"])};\n'
            f'  fa_wrap_method_type := {coq_bool(kinds["types.MethodType"])};\n'
            f'  fa_wrap_property := {coq_bool(wrap_prop)} |}}.\n')
    # shortcuts
    routes = []
    sc = []
    skips = []
    for short, inner in (('pedantic_class', 'pedantic'), ('pedantic_class_require_docstring', 'pedantic_require_docstring'),
                         ('trace_class', 'trace'), ('timer_class', 'timer')):
        f = find_in(tree, short, U)
        p = single_param(f, U, short)
        b = strip_doc(f.body)
        names = None
        if len(b) == 1 and same_stmt(b[0], f'return for_all_methods(decorator={inner})({cls}={p})'):
            names = []
        elif len(b) == 1 and isinstance(b[0], ast.Return) and isinstance(b[0].value, ast.Call) \
                and isinstance(b[0].value.func, ast.Call) and len(b[0].value.func.keywords) == 2 \
                and b[0].value.func.keywords[1].arg == 'skip' and isinstance(b[0].value.func.keywords[1].value, ast.Tuple) \
                and all(isinstance(e, ast.Constant) and isinstance(e.value, str) for e in b[0].value.func.keywords[1].value.elts):
            names = [e.value for e in b[0].value.func.keywords[1].value.elts]
            if not same_stmt(b[0], f'return for_all_methods(decorator={inner}, skip={tuple(names)!r})({cls}={p})'):
                names = None
        if names is None:
            raise Untranslatable(U, f'{short} is not `return for_all_methods(decorator={inner}[, skip=(<names>)])(cls=cls)`')
        if short == 'trace_class' and not {'__repr__', '__str__'} <= set(names):
            raise Untranslatable(U, 'trace_class does not skip __repr__ / __str__: trace prints repr(self), a traced __repr__ recurses '
                                    '(C18-K13a)')
        routes.append((short, 'RouteVia "for_all_methods"'))
        sc.append(f'({coq_string(short)}, {coq_string(inner)})')
        skips.append(f'({coq_string(short)}, {coq_list([coq_string(n) for n in names])})')
    # the names trace/timer/pedantic used here are the package's decorators
    imports = [dump(s) for s in tree.body if isinstance(s, ast.ImportFrom)]
    for need in ('from pedantic.decorators import timer, trace',
                 'from pedantic.decorators.fn_deco_pedantic import pedantic, pedantic_require_docstring',
                 'from pedantic.env_var_logic import is_enabled'):
        if dump(ast.parse(need).body[0]) not in imports:
            raise Untranslatable(U, f'class_decorators.py: import `{need}` changed')
    for s in tree.body:
        if isinstance(s, (ast.Assign, ast.AugAssign)) or (isinstance(s, (ast.FunctionDef, ast.ClassDef)) and s.name in
                                                          ('trace', 'timer', 'pedantic', 'is_enabled', 'pedantic_require_docstring')):
            raise Untranslatable(U, 'class_decorators.py: module-level rebinding')
    out += f'Definition class_shortcuts : list (string * string) := {coq_list(sc)}.\n'
    out += f'Definition class_skips : list (string * list string) := {coq_list(skips)}.\n'
    routes.append(('for_all_methods', 'RouteGuard SiteForAll' if guard_first else 'RouteNoGuard'))
    return out, routes


def translate_pedantic_routes():
    rel = D + 'fn_deco_pedantic.py'
    src, tree = load(rel)
    p = find_in(tree, 'pedantic', U)
    dec = find_in(p, 'decorator', U)
    f = single_param(dec, U, 'pedantic.decorator')
    body = strip_doc(dec.body)
    guard_first = bool(body) and is_guard(body[0], f)
    pb = strip_doc(p.body)
    if [a.arg for a in p.args.args] != ['func', 'require_docstring'] or not (
            len(pb) == 2 and pb[0] is dec and same_stmt(pb[1], 'return decorator if func is None else decorator(f=func)')):
        raise Untranslatable(U, 'pedantic: body is not `def decorator ...; return decorator if func is None else decorator(f=func)`')
    routes = [('pedantic', 'RouteGuard SitePedantic' if guard_first else 'RouteNoGuard')]
    r = find_in(tree, 'pedantic_require_docstring', U)
    rb = strip_doc(r.body)
    if [a.arg for a in r.args.args] == ['func'] and len(rb) == 1 and same_stmt(rb[0], 'return pedantic(func=func, require_docstring=True)'):
        routes.append(('pedantic_require_docstring', 'RouteVia "pedantic"'))
    else:
        raise Untranslatable(U, 'pedantic_require_docstring is not `return pedantic(func=func, require_docstring=True)`')
    if dump(ast.parse('from pedantic.env_var_logic import is_enabled').body[0]) not in [dump(s) for s in tree.body]:
        raise Untranslatable(U, 'fn_deco_pedantic.py: import of is_enabled changed')
    return routes


# ------------------------------------------------------------------------------------------------------
# env_var_logic.py and the cross reference
# ------------------------------------------------------------------------------------------------------
ENVREL = 'pedantic/env_var_logic.py'


def bexp(e, var):
    if isinstance(e, ast.Constant) and e.value in (True, False) and type(e.value) is bool:
        return f'BConst {coq_bool(e.value)}'
    if isinstance(e, ast.UnaryOp) and isinstance(e.op, ast.Not):
        return f'BNot ({bexp(e.operand, var)})'
    if isinstance(e, ast.BoolOp):
        parts = [bexp(v, var) for v in e.values]
        op = 'BAnd' if isinstance(e.op, ast.And) else 'BOr'
        out = parts[-1]
        for p_ in reversed(parts[:-1]):
            out = f'{op} ({p_}) ({out})'
        return out
    if isinstance(e, ast.Compare) and len(e.ops) == 1:
        l, r, op = e.left, e.comparators[0], e.ops[0]
        if isinstance(op, (ast.In, ast.NotIn)) and is_name(l, var) and same(r, 'os.environ'):
            return 'BIsSet' if isinstance(op, ast.In) else 'BNot (BIsSet)'
        if isinstance(op, (ast.Eq, ast.NotEq)) and isinstance(r, ast.Constant) and isinstance(r.value, str):
            neg = isinstance(op, ast.NotEq)
            if same(l, f'os.environ[{var}]'):
                t = f'BValEq {coq_string(r.value)}'
            elif isinstance(l, ast.Call) and (same(l.func, 'os.environ.get') or same(l.func, 'os.getenv')) and not l.keywords \
                    and len(l.args) in (1, 2) and is_name(l.args[0], var) \
                    and (len(l.args) == 1 or (isinstance(l.args[1], ast.Constant) and isinstance(l.args[1].value, (str, type(None))))):
                d = l.args[1].value if len(l.args) == 2 else None
                t = f'BGetEq {"None" if d is None else "(Some " + coq_string(d) + ")"} {coq_string(r.value)}'
            else:
                raise Untranslatable(UE, f'is_enabled: unrecognised comparison {ast.unparse(e)}')
            return f'BNot ({t})' if neg else t
    raise Untranslatable(UE, f'is_enabled: expression outside the whitelist: {ast.unparse(e)}')


def translate_env_logic():
    src, tree = load(ENVREL)
    var, lit = None, None
    for st in tree.body:
        if isinstance(st, ast.Import):
            if [a.name for a in st.names] != ['os'] or st.names[0].asname:
                raise Untranslatable(UE, 'env_var_logic.py: unexpected import')
        elif isinstance(st, ast.Assign):
            if len(st.targets) == 1 and is_name(st.targets[0]) and isinstance(st.value, ast.Constant) \
                    and isinstance(st.value.value, str) and var is None:
                var, lit = st.targets[0].id, st.value.value
            else:
                raise Untranslatable(UE, 'env_var_logic.py: unexpected module-level assignment')
        elif isinstance(st, ast.FunctionDef) and st.name in ('enable_pedantic', 'disable_pedantic', 'is_enabled'):
            if st.decorator_list or st.args.args or st.args.vararg or st.args.kwarg or st.args.kwonlyargs:
                raise Untranslatable(UE, f'{st.name}: signature or decorators changed')
        elif isinstance(st, ast.Expr) and isinstance(st.value, ast.Constant):
            pass
        else:
            raise Untranslatable(UE, f'env_var_logic.py: unexpected module-level statement at line {st.lineno}')
    if var is None:
        raise Untranslatable(UE, 'env_var_logic.py: variable name constant not found')
    out = f'Definition src_env_var_logic : string := {coq_string(provenance(ENVREL, src, tree.body[-1]))}.\n'
    out += f'Definition env_var_name : string := {coq_string(lit)}.\n'
    for fn in ('enable_pedantic', 'disable_pedantic'):
        f = find_in(tree, fn, UE)
        b = strip_doc(f.body)
        if not (len(b) == 1 and isinstance(b[0], ast.Assign) and len(b[0].targets) == 1
                and same(ast.parse(ast.unparse(b[0].targets[0])).body[0].value, f'os.environ[{var}]')
                and isinstance(b[0].value, ast.Constant) and isinstance(b[0].value.value, str)):
            if len(b) == 1 and (same_stmt(b[0], f'del os.environ[{var}]') or same_stmt(b[0], f'os.environ.pop({var}, None)')):
                out += f'Definition {fn}_prog : env_assign := DelVar.\n'
                continue
            raise Untranslatable(UE, f'{fn}: body is not `os.environ[{var}] = <literal>`')
        out += f'Definition {fn}_prog : env_assign := SetVal {coq_string(b[0].value.value)}.\n'
    f = find_in(tree, 'is_enabled', UE)
    stmts = []
    b = strip_doc(f.body)
    for k, st in enumerate(b):
        if isinstance(st, ast.If) and not st.orelse and len(st.body) == 1 and isinstance(st.body[0], ast.Return) \
                and st.body[0].value is not None:
            stmts.append(f'IeIfRet ({bexp(st.test, var)}) ({bexp(st.body[0].value, var)})')
        elif isinstance(st, ast.Return) and st.value is not None and k == len(b) - 1:
            stmts.append(f'IeRet ({bexp(st.value, var)})')
        else:
            raise Untranslatable(UE, f'is_enabled: unrecognised statement at line {st.lineno}')
    out += f'Definition is_enabled_prog : list ie_stmt := {coq_list(stmts)}.\n'
    return out, var, lit


SWITCH_NAMES = ('is_enabled', 'enable_pedantic', 'disable_pedantic')


def collect_refs(var, lit):
    """every reference to the switch in the package (tests and examples excluded)"""
    base = os.path.join(REPO, 'pedantic')
    refs = []
    for d, dirs, files in os.walk(base):
        dirs[:] = sorted(x for x in dirs if x not in ('tests', 'examples', '__pycache__'))
        for fn in sorted(files):
            if not fn.endswith('.py'):
                continue
            rel = os.path.relpath(os.path.join(d, fn), REPO)
            src, tree = load(rel)
            parents = {}
            for n in ast.walk(tree):
                for c in ast.iter_child_nodes(n):
                    parents[c] = n

            def scope(n):
                names = []
                while n in parents:
                    n = parents[n]
                    if isinstance(n, (ast.FunctionDef, ast.AsyncFunctionDef, ast.ClassDef)):
                        names.append(n.name)
                return '.'.join(reversed(names))

            def is_first_guard(n):
                """n is the Call is_enabled() of `if not is_enabled(): return <arg>` as first statement of
                pedantic.decorator / for_all_methods.decorate"""
                p1 = parents.get(n)
                p2 = parents.get(p1)
                fn_ = parents.get(p2)
                if not (isinstance(p1, ast.UnaryOp) and isinstance(p2, ast.If) and isinstance(fn_, ast.FunctionDef)):
                    return False
                sc = scope(p2)
                if (rel, sc) not in ((D + 'fn_deco_pedantic.py', 'pedantic.decorator'),
                                     (D + 'class_decorators.py', 'for_all_methods.decorate')):
                    return False
                body = strip_doc(fn_.body)
                return bool(body) and body[0] is p2 and len(fn_.args.args) == 1 and is_guard(p2, fn_.args.args[0].arg)

            def add(n, kind, guard=False):
                sc = scope(n)
                if rel == ENVREL:
                    phase = 'PhEnvLogic'
                elif kind == 'RImport':
                    phase = 'PhModule'
                else:
                    site = None
                    for (r_, root, s_) in ((D + 'fn_deco_pedantic.py', 'pedantic.decorator', 'SitePedantic'),
                                           (D + 'fn_deco_pedantic.py', 'pedantic', 'SitePedantic'),
                                           (D + 'class_decorators.py', 'for_all_methods.decorate', 'SiteForAll'),
                                           (D + 'class_decorators.py', 'for_all_methods', 'SiteForAll')):
                        if rel == r_ and (sc == root or sc.startswith(root + '.')):
                            site = (root, s_)
                            break
                    if site and site[0] in ('pedantic.decorator', 'for_all_methods.decorate'):
                        phase = f'PhDecoration {site[1]}' if sc == site[0] else f'PhCall {site[1]}'
                    elif site:
                        phase = f'PhDecoration {site[1]}' if sc == site[0] else f'PhCall {site[1]}'
                    elif sc == '':
                        phase = 'PhModule'
                    else:
                        phase = 'PhElsewhere'
                refs.append((rel, sc, n.lineno, kind, guard, phase))

            handled = set()
            for n in ast.walk(tree):
                if isinstance(n, ast.ImportFrom):
                    for a in n.names:
                        if a.name in SWITCH_NAMES + (var, 'environ', 'getenv', 'putenv', 'unsetenv') or a.name == '*' and \
                                (n.module or '').endswith('env_var_logic'):
                            if a.asname or a.name in ('environ', 'getenv', 'putenv', 'unsetenv', '*'):
                                add(n, 'RUnknown')
                            else:
                                add(n, 'RImport')
                elif isinstance(n, ast.Import):
                    for a in n.names:
                        if a.name.endswith('env_var_logic') or (a.name == 'os' and a.asname):
                            add(n, 'RUnknown')
                elif isinstance(n, (ast.Name, ast.Attribute)):
                    ident = n.id if isinstance(n, ast.Name) else n.attr
                    par = parents.get(n)
                    if ident == 'is_enabled':
                        if isinstance(par, ast.Call) and par.func is n and not par.args and not par.keywords:
                            add(n, 'RIsEnabledCall', is_first_guard(par))
                        else:
                            add(n, 'RUnknown')
                    elif ident in ('enable_pedantic', 'disable_pedantic'):
                        add(n, 'RToggle')
                    elif ident == var:
                        if id(n) not in handled:
                            add(n, 'RVarName')
                    elif ident in ('getenv', 'putenv', 'unsetenv', 'environb'):
                        add(n, 'RUnknown')
                    elif ident == 'environ':
                        # os.environ[...] / x in os.environ
                        key, store = None, False
                        if isinstance(par, ast.Subscript) and par.value is n:
                            key, store = par.slice, not isinstance(par.ctx, ast.Load)
                        elif isinstance(par, ast.Compare) and len(par.ops) == 1 and isinstance(par.ops[0], (ast.In, ast.NotIn)) \
                                and par.comparators[0] is n:
                            key = par.left
                        if key is None or not (isinstance(n, ast.Attribute) and is_name(n.value, 'os')):
                            add(n, 'RUnknown')
                        elif is_name(key, var) or (isinstance(key, ast.Constant) and key.value == lit):
                            handled.add(id(key))
                            add(n, 'RSwitchWrite' if store else 'RSwitchRead')
                        elif rel != ENVREL and same(key, 'self._env_var_name') and not store:
                            add(n, 'RForeignRead')
                        else:
                            add(n, 'RUnknown')
                elif isinstance(n, ast.Constant) and n.value == lit and id(n) not in handled:
                    add(n, 'RVarLiteral')
    # RVarName entries that were the key of an environ access were recorded before the access was seen: drop them
    out = []
    for r in refs:
        out.append(r)
    return out


def translate_env(routes):
    text, var, lit = translate_env_logic()
    refs = collect_refs(var, lit)
    # the key names inside environ accesses are part of the access, not separate references
    keyed = {(r[0], r[2]) for r in refs if r[3] in ('RSwitchRead', 'RSwitchWrite')}
    refs = [r for r in refs if not (r[3] == 'RVarName' and (r[0], r[2]) in keyed)]
    items = []
    for (rel, sc, line, kind, guard, phase) in refs:
        items.append(f'{{| er_file := {coq_string(rel)}; er_scope := {coq_string(sc)}; er_line := {line}%nat; '
                     f'er_kind := {kind}; er_guard := {coq_bool(guard)}; er_phase := {phase} |}}')
    out = header('t_wrappers.py', ['From PV Require Import Base.Exn Model.EnvSwitch.'])
    out += text
    out += 'Definition env_refs : list env_ref := [\n  ' + ';\n  '.join(items) + '\n].\n'
    out += 'Definition switch_routes : list (string * route) := ' + \
           coq_list([f'({coq_string(n)}, {r})' for n, r in routes]) + '.\n'
    return out


def translate():
    translate_is_coroutine_property()
    out = header('t_wrappers.py', ['From PV Require Import Base.Exn Model.WrapperSem.'])
    out += 'Open Scope Z_scope.\n'
    names = []
    for name, rel, path, mode in DECOS:
        out += translate_deco(name, rel, path, mode)
        names.append(name)
    out += translate_raise_warning()
    out += translate_rename_dict()
    fa, routes_c = translate_for_all()
    out += fa
    out += 'Definition all_decos : list (string * deco) := ' + \
           coq_list([f'({coq_string(n)}, d_{n})' for n in names]) + '.\n'
    routes = translate_pedantic_routes() + routes_c
    return {U: out, UE: translate_env(routes)}
