"""C20/mixins: pedantic/mixins/generic_mixin.py + with_decorated_methods.py -> Gen/Mixins.v

The bodies of get_generic_base, GenericMixin._get_types / type_var / type_vars,
WithDecoratedMethods.get_decorated_functions and of the innermost function of create_decorator
are translated statement by statement into terms of the small language of Model/Mixins.v
(expr / stmt); the model interprets those terms.  Whitelist only: any node, call, attribute name,
decorator or signature that is not recognised raises Untranslatable (fail closed)."""
import ast
from common import *

UNIT = 'Mixins'
UNITS = [UNIT]
REL_G = 'pedantic/mixins/generic_mixin.py'
REL_W = 'pedantic/mixins/with_decorated_methods.py'

EXN = {'AssertionError': 'AssertionErrorC', 'AttributeError': 'AttributeErrorC', 'TypeError': 'TypeErrorC',
       'ValueError': 'ValueErrorC', 'KeyError': 'KeyErrorC', 'IndexError': 'IndexErrorC', 'RuntimeError': 'RuntimeErrorC',
       'NotImplementedError': 'NotImplementedErrorC', 'Exception': 'ExceptionC', 'LookupError': 'LookupErrorC'}
ATTRS = {'__orig_bases__', '__origin__', '__args__', '__orig_class__', '__parameters__'}


def bad(why, node=None):
    where = f' (line {node.lineno})' if node is not None and hasattr(node, 'lineno') else ''
    raise Untranslatable(UNIT, why + where)


def cs(s):
    return coq_string(s)


class Fn:
    """translation context of one function body"""

    def __init__(self, params, closure=(), self_name=None, properties=(), methods=(), functions=None, ext=(),
                 harmless_props=()):
        self.params, self.closure, self.self_name = list(params), list(closure), self_name
        self.properties, self.methods = set(properties), set(methods)
        self.functions = dict(functions or {})      # module-level function name -> its single parameter name
        self.ext = set(ext)                          # names bound to callables the model knows nothing about
        self.harmless_props = set(harmless_props)    # side-effect free properties that may occur in messages
        self.mixin_in_scope = True                   # the global name GenericMixin is the mixin class (checked by translate())
        self.locals = []
        self.comp = []                               # comprehension variables in scope

    def known(self, name):
        return name in self.params or name in self.closure or name in self.locals or name in self.comp

    def local(self, name):
        if name in self.params or name in self.closure:
            bad(f'assignment to parameter/closure variable {name}')
        if name not in self.locals:
            self.locals.append(name)

    # ----- messages: evaluated by Python but without observable effect; only harmless parts are accepted
    def message(self, node):
        if node is None:
            return
        if isinstance(node, ast.Constant) and isinstance(node.value, str):
            return
        if isinstance(node, ast.JoinedStr):
            for part in node.values:
                if isinstance(part, ast.Constant):
                    continue
                if isinstance(part, ast.FormattedValue) and part.format_spec is None and part.conversion == -1 \
                        and isinstance(part.value, ast.Attribute) and is_name(part.value.value, self.self_name) \
                        and part.value.attr in self.harmless_props:
                    continue
                bad('message text evaluates something the model does not know', node)
            return
        bad('unrecognised message expression', node)

    # ----- expressions
    def expr(self, n):
        if isinstance(n, ast.Name):
            if not isinstance(n.ctx, ast.Load):
                bad('name in store context inside an expression', n)
            if self.known(n.id):
                return f'EVar {cs(n.id)}'
            if n.id == 'Generic':
                return 'EGenericRef'
            bad(f'unknown name {n.id}', n)
        if isinstance(n, ast.Constant):
            if n.value is None:
                return 'ENone'
            if type(n.value) is int:
                return f'EInt {coq_Z(n.value)}'
            if type(n.value) is str:
                return f'EStr {cs(n.value)}'
            bad(f'unsupported literal {n.value!r}', n)
        if isinstance(n, ast.Attribute):
            if n.attr in ATTRS or (is_name(n.value, self.self_name) and n.attr in self.properties):
                return f'EAttr ({self.expr(n.value)}) {cs(n.attr)}'
            bad(f'attribute .{n.attr} is not in the whitelist', n)
        if isinstance(n, ast.UnaryOp) and isinstance(n.op, ast.Not):
            return f'ENot ({self.expr(n.operand)})'
        if isinstance(n, ast.BoolOp):
            ctor = 'EAnd' if isinstance(n.op, ast.And) else 'EOr'
            out = self.expr(n.values[-1])
            for v in reversed(n.values[:-1]):
                out = f'{ctor} ({self.expr(v)}) ({out})'
            return out
        if isinstance(n, ast.Compare):
            if len(n.ops) != 1:
                bad('chained comparison', n)
            op, a, b = n.ops[0], n.left, n.comparators[0]
            none_b = isinstance(b, ast.Constant) and b.value is None
            if isinstance(op, ast.Eq):
                return f'EEq ({self.expr(a)}) ({self.expr(b)})'
            if isinstance(op, ast.NotEq):
                return f'ENot (EEq ({self.expr(a)}) ({self.expr(b)}))'
            if isinstance(op, ast.Is) and none_b:
                return f'EIsNone ({self.expr(a)})'
            if isinstance(op, ast.IsNot) and none_b:
                return f'ENot (EIsNone ({self.expr(a)}))'
            bad('unsupported comparison operator', n)
        if isinstance(n, ast.Subscript):
            if not isinstance(n.ctx, ast.Load):
                bad('subscript in store context inside an expression', n)
            idx = n.slice
            if isinstance(idx, ast.UnaryOp) and isinstance(idx.op, ast.USub) and isinstance(idx.operand, ast.Constant) \
                    and type(idx.operand.value) is int:
                return f'EIndex ({self.expr(n.value)}) {coq_Z(-idx.operand.value)}'
            if isinstance(idx, ast.Constant) and type(idx.value) is int:
                return f'EIndex ({self.expr(n.value)}) {coq_Z(idx.value)}'
            bad('subscript with a non-literal index', n)
        if isinstance(n, ast.Tuple) and isinstance(n.ctx, ast.Load) and len(n.elts) == 0:
            return 'ETupleEmpty'
        if isinstance(n, ast.Tuple) and isinstance(n.ctx, ast.Load) and len(n.elts) == 2 \
                and not any(isinstance(e, ast.Starred) for e in n.elts):
            return f'ETuple2 ({self.expr(n.elts[0])}) ({self.expr(n.elts[1])})'
        if isinstance(n, ast.Dict) and not n.keys:
            return 'EDictNew'
        if isinstance(n, ast.ListComp):
            if len(n.generators) != 1:
                bad('nested comprehension', n)
            g = n.generators[0]
            if g.is_async or not isinstance(g.target, ast.Name) or len(g.ifs) > 1:
                bad('unsupported comprehension shape', n)
            it = self.expr(g.iter)
            self.comp.append(g.target.id)
            cond = self.expr(g.ifs[0]) if g.ifs else 'EInt 1%Z'
            elt = self.expr(n.elt)
            self.comp.pop()
            return f'EListComp {cs(g.target.id)} ({it}) ({cond}) ({elt})'
        if isinstance(n, ast.DictComp):
            if len(n.generators) != 1:
                bad('nested comprehension', n)
            g = n.generators[0]
            if g.is_async or g.ifs:
                bad('unsupported dict comprehension shape', n)
            if isinstance(g.target, ast.Name):
                names = [g.target.id]
            elif isinstance(g.target, ast.Tuple) and len(g.target.elts) == 2 and all(isinstance(e, ast.Name) for e in g.target.elts):
                names = [e.id for e in g.target.elts]
                if names[0] == names[1]:
                    bad('comprehension binds one name twice', n)
            else:
                bad('unsupported comprehension target', n)
            it = self.expr(g.iter)
            self.comp.extend(names)
            k, v = self.expr(n.key), self.expr(n.value)
            del self.comp[-len(names):]
            y = f'(Some {cs(names[1])})' if len(names) == 2 else 'None'
            return f'EDictComp {cs(names[0])} {y} ({it}) ({k}) ({v})'
        if isinstance(n, ast.Call):
            return self.call(n)
        bad(f'unsupported expression {type(n).__name__}', n)

    def call(self, n):
        if any(isinstance(a, ast.Starred) for a in n.args) or any(k.arg is None for k in n.keywords):
            bad('call with * / ** arguments', n)
        f = n.func
        pos, kw = n.args, n.keywords
        if isinstance(f, ast.Name) and not self.known(f.id):
            name = f.id
            plain = {'hasattr': ('EHasAttr', 2), 'getattr': ('EGetAttr', 2), 'len': ('ELen', 1), 'list': ('EListOf', 1),
                     'zip': ('EZip', 2), 'dir': ('EDir', 1)}
            if name in plain and not kw and len(pos) == plain[name][1]:
                return plain[name][0] + ' ' + ' '.join(f'({self.expr(a)})' for a in pos)
            if name == 'isinstance' and not kw and len(pos) == 2 and is_name(pos[1], 'type'):
                return f'EIsClass ({self.expr(pos[0])})'
            if name == 'issubclass' and not kw and len(pos) == 2 and is_name(pos[1], 'GenericMixin') and self.mixin_in_scope:
                return f'EUsesMixin ({self.expr(pos[0])})'
            if name == 'isinstance' and not kw and len(pos) == 2 and is_name(pos[1], 'property'):
                # isinstance(getattr(type(X), N, None), property): is N a property of the class of X
                g = pos[0]
                if (isinstance(g, ast.Call) and is_name(g.func, 'getattr') and not g.keywords and len(g.args) == 3
                        and isinstance(g.args[2], ast.Constant) and g.args[2].value is None
                        and isinstance(g.args[0], ast.Call) and is_name(g.args[0].func, 'type') and not g.args[0].keywords
                        and len(g.args[0].args) == 1):
                    return f'EClassAttrIsProperty ({self.expr(g.args[0].args[0])}) ({self.expr(g.args[1])})'
                bad('isinstance(.., property) on something else than getattr(type(x), name, None)', n)
            if name == 'getattr' and not kw and len(pos) == 3 and isinstance(pos[1], ast.Constant) and type(pos[1].value) is str:
                return f'EGetAttrD ({self.expr(pos[0])}) {cs(pos[1].value)} ({self.expr(pos[2])})'
            if name == 'dict' and not kw and len(pos) == 1:
                return f'EDictOf ({self.expr(pos[0])})'
            if name == 'tuple' and not kw and len(pos) == 1 and isinstance(pos[0], ast.GeneratorExp):
                g0 = pos[0]
                if len(g0.generators) != 1 or g0.generators[0].is_async or g0.generators[0].ifs \
                        or not isinstance(g0.generators[0].target, ast.Name):
                    bad('unsupported generator expression', n)
                g = g0.generators[0]
                it = self.expr(g.iter)
                self.comp.append(g.target.id)
                elt = self.expr(g0.elt)
                self.comp.pop()
                return f'ETupleComp {cs(g.target.id)} ({it}) ({elt})'
            if name == 'dict' and not kw and not pos:
                return 'EDictNew'
            if name in EXN:
                if kw or len(pos) > 1:
                    bad('exception constructed with unexpected arguments', n)
                self.message(pos[0] if pos else None)
                return f'ENewExn {EXN[name]}'
            if name in self.functions:
                params = self.functions[name]
                params = [params] if isinstance(params, str) else list(params)
                if len(pos) == len(params) and not kw:
                    actual = list(pos)
                elif not pos and sorted(k.arg for k in kw) == sorted(params):
                    actual = [next(k.value for k in kw if k.arg == q) for q in params]
                else:
                    bad(f'call of {name} with unexpected arguments', n)
                if len(actual) == 1:
                    return f'ECall {cs(name)} ({self.expr(actual[0])})'
                if len(actual) == 2:
                    return f'ECall2 {cs(name)} ({self.expr(actual[0])}) ({self.expr(actual[1])})'
                bad(f'call of {name} with more than two arguments', n)
            bad(f'call of unknown function {name}', n)
        if isinstance(f, ast.Attribute):
            if is_name(f.value, self.self_name) and f.attr in self.methods:
                if pos or kw:
                    bad(f'method {f.attr} called with arguments', n)
                return f'ECall {cs(f.attr)} (EVar {cs(self.self_name)})'
            if f.attr == 'startswith' and len(pos) == 1 and not kw:
                return f'EStartsWith ({self.expr(f.value)}) ({self.expr(pos[0])})'
            if f.attr == 'get' and len(pos) == 2 and not kw:
                return f'EDictGetD ({self.expr(f.value)}) ({self.expr(pos[0])}) ({self.expr(pos[1])})'
            if f.attr == 'values' and not pos and not kw:
                return f'EDictValues ({self.expr(f.value)})'
            bad(f'unsupported method call .{f.attr}', n)
        bad('unsupported call', n)

    # ----- statements
    def block(self, stmts):
        out = [self.stmt(s) for s in stmts]
        if not out:
            return 'SSkip'
        term = out[-1]
        for s in reversed(out[:-1]):
            term = f'SSeq ({s}) ({term})'
        return term

    def stmt(self, s):
        if isinstance(s, ast.Assign):
            if len(s.targets) != 1:
                bad('multiple assignment targets', s)
            t = s.targets[0]
            if isinstance(t, ast.Name):
                e = self.expr(s.value)
                self.local(t.id)
                return f'SAssign {cs(t.id)} ({e})'
            if isinstance(t, ast.Tuple) and len(t.elts) == 2 and all(isinstance(e, ast.Name) for e in t.elts) \
                    and t.elts[0].id != t.elts[1].id:
                e = self.expr(s.value)
                self.local(t.elts[0].id)
                self.local(t.elts[1].id)
                return f'SAssign2 {cs(t.elts[0].id)} {cs(t.elts[1].id)} ({e})'
            if isinstance(t, ast.Subscript) and isinstance(t.value, ast.Subscript) and isinstance(t.value.value, ast.Name) \
                    and self.known(t.value.value.id):
                return (f'SSetItem2 {cs(t.value.value.id)} ({self.expr(t.value.slice)}) ({self.expr(t.slice)}) '
                        f'({self.expr(s.value)})')
            bad('unsupported assignment target', s)
        if isinstance(s, ast.If):
            return f'SIf ({self.expr(s.test)}) ({self.block(s.body)}) ({self.block(s.orelse)})'
        if isinstance(s, ast.For):
            if s.orelse or not isinstance(s.target, ast.Name):
                bad('for/else or a non-name loop target', s)
            it = self.expr(s.iter)
            self.local(s.target.id)
            return f'SFor {cs(s.target.id)} ({it}) ({self.block(s.body)})'
        if isinstance(s, ast.Continue):
            return 'SContinue'
        if isinstance(s, ast.Break):
            return 'SBreak'
        if isinstance(s, ast.Pass):
            return 'SSkip'
        if isinstance(s, ast.Return):
            v = s.value
            if isinstance(v, ast.Call) and isinstance(v.func, ast.Name) and v.func.id in self.ext:
                if v.keywords or any(isinstance(a, ast.Starred) for a in v.args):
                    bad('unknown callable called with keyword / star arguments', s)
                self.local('$ret')
                args = coq_list([self.expr(a) for a in v.args])
                return f'SSeq (SCallExt "$ret" (EVar {cs(v.func.id)}) {args}) (SReturn (EVar "$ret"))'
            return f'SReturn ({self.expr(v) if v is not None else "ENone"})'
        if isinstance(s, ast.Raise):
            if s.exc is None or s.cause is not None:
                bad('bare raise / raise from', s)
            return f'SRaise ({self.expr(s.exc)})'
        if isinstance(s, ast.Assert):
            self.message(s.msg)
            return f'SAssert ({self.expr(s.test)})'
        if isinstance(s, ast.Expr) and isinstance(s.value, ast.Call) and is_name(s.value.func, 'setattr') \
                and len(s.value.args) == 3 and not s.value.keywords and isinstance(s.value.args[0], ast.Name) \
                and self.known(s.value.args[0].id):
            a = s.value.args
            return f'SSetAttr {cs(a[0].id)} ({self.expr(a[1])}) ({self.expr(a[2])})'
        bad(f'unsupported statement {type(s).__name__}', s)

    def fundef(self, body, is_property):
        term = self.block(strip_doc(body))
        return ('{| fd_params := ' + coq_list([cs(p) for p in self.params + self.closure]) + ';\n     fd_locals := '
                + coq_list([cs(x) for x in self.locals]) + f';\n     fd_property := {coq_bool(is_property)};\n     fd_body :=\n       '
                + term + ' |}')


def plain_args(f, names, defaults=0):
    a = f.args
    return ([x.arg for x in a.args] == list(names) and not a.posonlyargs and not a.kwonlyargs and a.vararg is None
            and a.kwarg is None and len(a.defaults) == defaults)


def decorators(f):
    out = []
    for d in f.decorator_list:
        if not isinstance(d, ast.Name):
            bad(f'unrecognised decorator on {f.name}', d)
        out.append(d.id)
    return out


def translate():
    src_g, tree_g = load(REL_G)
    src_w, tree_w = load(REL_W)

    def imports(tree, module, name):
        return any(isinstance(n, ast.ImportFrom) and n.module == module and n.level == 0
                   and any(a.name == name and a.asname in (None, name) for a in n.names) for n in tree.body)

    # names the programs rely on must be the real ones and must not be rebound at module level
    if not imports(tree_g, 'typing', 'Generic') or not imports(tree_w, 'typing', 'Generic'):
        bad('Generic is not imported from typing')
    if not imports(tree_w, 'pedantic.mixins.generic_mixin', 'GenericMixin'):
        bad('with_decorated_methods does not import GenericMixin from generic_mixin')
    if not imports(tree_w, 'enum', 'StrEnum') or not imports(tree_w, 'abc', 'ABC'):
        bad('StrEnum / ABC imports changed')
    builtins_used = {'hasattr', 'getattr', 'setattr', 'len', 'list', 'zip', 'dir', 'dict', 'type', 'property', 'Generic', 'tuple',
                     'AssertionError', 'GenericMixin', 'StrEnum', 'ABC', 'isinstance', 'issubclass'}
    for tree in (tree_g, tree_w):
        for n in ast.walk(tree):
            if isinstance(n, (ast.Assign, ast.AnnAssign, ast.AugAssign)):
                tg = n.targets if isinstance(n, ast.Assign) else [n.target]
                for t in tg:
                    if isinstance(t, ast.Name) and t.id in builtins_used:
                        bad(f'{t.id} is rebound', n)
            if isinstance(n, (ast.FunctionDef, ast.AsyncFunctionDef, ast.ClassDef)) and n.name in builtins_used - {'GenericMixin'}:
                bad(f'{n.name} is redefined', n)
            if isinstance(n, (ast.Global, ast.Nonlocal)):
                bad('global / nonlocal statement', n)

    # ----- generic_mixin.py
    ggb = find_def(tree_g, 'get_generic_base', UNIT)
    if ggb not in tree_g.body or ggb.decorator_list or not plain_args(ggb, ['obj']) or isinstance(ggb, ast.AsyncFunctionDef):
        bad('get_generic_base is not a plain module-level function of one parameter obj')
    gm = find_class(tree_g, 'GenericMixin', UNIT)
    if gm.bases or gm.keywords or gm.decorator_list:
        bad('GenericMixin has bases, keywords or decorators')
    members = {}
    for n in strip_doc(gm.body):
        if not isinstance(n, ast.FunctionDef) or n.name in members:
            bad('GenericMixin contains something else than distinct plain method definitions', n)
        members[n.name] = n
    if set(members) != {'type_var', 'type_vars', '_get_types', 'class_name'}:
        bad(f'members of GenericMixin changed: {sorted(members)}')
    for name, props in (('type_var', ['property']), ('type_vars', ['property']), ('class_name', ['property']), ('_get_types', [])):
        if decorators(members[name]) != props or not plain_args(members[name], ['self']):
            bad(f'signature or decorators of GenericMixin.{name} changed')
    cn = strip_doc(members['class_name'].body)
    if not (len(cn) == 1 and isinstance(cn[0], ast.Return) and cn[0].value is not None
            and dump(cn[0].value) == dump(ast.parse('type(self).__name__').body[0].value)):
        bad('class_name is not `return type(self).__name__`')

    rgb = find_def(tree_g, '_resolve_generic_base', UNIT)
    if rgb not in tree_g.body or rgb.decorator_list or not plain_args(rgb, ['origin', 'args']) or isinstance(rgb, ast.AsyncFunctionDef):
        bad('_resolve_generic_base is not a plain module-level function of the parameters origin, args')
    functions = {'get_generic_base': 'obj', '_resolve_generic_base': ['origin', 'args']}
    mixin_ctx = dict(self_name='self', properties={'type_var', 'type_vars'}, methods={'_get_types'}, functions=functions,
                     harmless_props={'class_name'})
    out_defs = []
    f0 = Fn(['obj'], functions={})
    out_defs.append(('get_generic_base', f0.fundef(ggb.body, False), provenance(REL_G, src_g, ggb)))
    f1 = Fn(['origin', 'args'], functions=functions)
    out_defs.append(('_resolve_generic_base', f1.fundef(rgb.body, False), provenance(REL_G, src_g, rgb)))
    for name, is_prop in (('_get_types', False), ('type_var', True), ('type_vars', True)):
        fx = Fn(['self'], **mixin_ctx)
        out_defs.append((name, fx.fundef(members[name].body, is_prop), provenance(REL_G, src_g, members[name])))

    # ----- with_decorated_methods.py
    dt = find_class(tree_w, 'DecoratorType', UNIT)
    if [dump(b) for b in dt.bases] != [dump(ast.Name('StrEnum', ast.Load()))] or dt.keywords or dt.decorator_list or strip_doc(dt.body):
        bad('DecoratorType is not an empty `class DecoratorType(StrEnum)`')
    wdm = find_class(tree_w, 'WithDecoratedMethods', UNIT)
    expect_bases = [dump(ast.parse(t).body[0].value) for t in ('ABC', 'Generic[E]', 'GenericMixin')]
    if [dump(b) for b in wdm.bases] != expect_bases or wdm.keywords or wdm.decorator_list:
        bad('bases of WithDecoratedMethods are not (ABC, Generic[E], GenericMixin)')
    e_defs = [n for n in tree_w.body if isinstance(n, ast.Assign) and len(n.targets) == 1 and is_name(n.targets[0], 'E')]
    if len(e_defs) != 1 or not (isinstance(e_defs[0].value, ast.Call) and is_name(e_defs[0].value.func, 'TypeVar')):
        bad('E is not a module-level TypeVar')
    wbody = strip_doc(wdm.body)
    if len(wbody) != 1 or not isinstance(wbody[0], ast.FunctionDef) or wbody[0].name != 'get_decorated_functions':
        bad('WithDecoratedMethods contains something else than get_decorated_functions')
    gdf = wbody[0]
    if decorators(gdf) or not plain_args(gdf, ['self']):
        bad('signature or decorators of get_decorated_functions changed')
    fx = Fn(['self'], **mixin_ctx)
    out_defs.append(('get_decorated_functions', fx.fundef(gdf.body, False), provenance(REL_W, src_w, gdf)))

    # repaired defects must not come back unnoticed: the guards of the fix: commits have to be there
    def calls(node, fname, second):
        return [c for c in ast.walk(node) if isinstance(c, ast.Call) and is_name(c.func, fname) and len(c.args) == 2
                and is_name(c.args[1], second)]
    loops = [n for n in ast.walk(members['_get_types']) if isinstance(n, ast.For)]
    if len(loops) != 1 or not [c for c in ast.walk(loops[0]) if isinstance(c, ast.Call) and is_name(c.func, '_resolve_generic_base')]:
        bad('_get_types looks only one level up (get_generic_base(base.__origin__)) instead of resolving the parameters through '
            'forwarding / partially binding classes with _resolve_generic_base: defect K-C20-forwarding-chain / '
            'K-C20-partially-binding-chain (class C(Mid[int]) with class Mid(A[T]) raises AttributeError)')
    if len(loops) != 1 or not calls(loops[0], 'issubclass', 'GenericMixin'):
        bad('_get_types takes the first parametrised base for the binding base without testing issubclass(base.__origin__, GenericMixin): '
            'defect K-C20-builtin-alias-first / K-C20-foreign-generic-first (class S1(List[int], D[str]) raises AttributeError, '
            'class S3(P[int], D[str]) reports the arguments of P)')
    gloops = [n for n in gdf.body if isinstance(n, ast.For)]
    if len(gloops) != 1 or not calls(gloops[0], 'isinstance', 'property'):
        bad('get_decorated_functions reads every attribute without skipping properties (isinstance(getattr(type(self), name, None), property)): '
            'defect K-C20-raising-property (a property whose getter raises makes get_decorated_functions raise)')

    cd = find_def(tree_w, 'create_decorator', UNIT)
    if cd not in tree_w.body or cd.decorator_list or not plain_args(cd, ['decorator_type', 'transformation'], defaults=1) \
            or not (isinstance(cd.args.defaults[0], ast.Constant) and cd.args.defaults[0].value is None):
        bad('signature of create_decorator changed')
    cb = strip_doc(cd.body)
    if not (len(cb) == 2 and isinstance(cb[0], ast.FunctionDef) and cb[0].name == 'decorator' and isinstance(cb[1], ast.Return)
            and is_name(cb[1].value, 'decorator')):
        bad('create_decorator is not `def decorator(value): ...; return decorator`')
    dec = cb[0]
    db = strip_doc(dec.body)
    if dec.decorator_list or not plain_args(dec, ['value']) or not (
            len(db) == 2 and isinstance(db[0], ast.FunctionDef) and db[0].name == 'fun' and isinstance(db[1], ast.Return)
            and is_name(db[1].value, 'fun')):
        bad('decorator is not `def fun(f): ...; return fun`')
    fun = db[0]
    if fun.decorator_list or not plain_args(fun, ['f']):
        bad('signature or decorators of fun changed')
    ff = Fn(['f'], closure=['decorator_type', 'value', 'transformation'], ext={'transformation'})
    fun_def = ff.fundef(fun.body, False)

    out = header('t_mixins.py', ['From PV Require Import Base.Exn Model.Mixins.'])
    for name, _, prov in out_defs:
        out += f'Definition src_{name.strip("_")} : string := {cs(prov)}.\n'
    out += f'Definition src_create_decorator : string := {cs(provenance(REL_W, src_w, cd))}.\n\n'
    for name, term, _ in out_defs:
        out += f'Definition prog_{name.strip("_")} : fundef :=\n  {term}.\n\n'
    out += 'Definition progs : list (string * fundef) :=\n  ' + coq_list(
        [f'({cs(name)}, prog_{name.strip("_")})' for name, _, _ in out_defs]) + '.\n\n'
    out += ('(* innermost function of create_decorator: parameters f, then the closure variables *)\n'
            f'Definition prog_decorator_fun : fundef :=\n  {fun_def}.\n\n')
    # class WithDecoratedMethods(ABC, Generic[E], GenericMixin): its own __orig_bases__ (plain bases numbered from 900)
    out += ('Definition wdm_own_bases : list val := [VCls 900; VAlias VGeneric [VTok 0]; VCls 901].\n'
            'Definition create_decorator_nesting_ok : bool := true.\n'
            'Definition decorator_type_is_strenum : bool := true.\n')
    return {UNIT: out}
