#!/usr/bin/env python3
"""Run every translator against the current /repo working tree.

Writes coq/Gen/<Unit>.v (only when the text changed).  A unit that cannot be translated is
reported as a broken translation obligation and replaced by the committed baseline
coq/Gen.baseline/<Unit>.v so that models and specs can still be evaluated.
Prints a JSON report on stdout.   --update-baseline copies fresh output into Gen.baseline."""
import importlib, json, os, sys, shutil, traceback
HERE = os.path.dirname(os.path.abspath(__file__))
sys.path.insert(0, HERE)
from common import Untranslatable

ROOT = os.path.dirname(HERE)
GEN = os.path.join(ROOT, 'coq', 'Gen')
BASE = os.path.join(ROOT, 'coq', 'Gen.baseline')
# translator module -> units it produces (every translator/t_*.py declares UNITS = [...])
TRANSLATORS = {}
for _f in sorted(os.listdir(HERE)):
    if _f.startswith('t_') and _f.endswith('.py'):
        try:
            TRANSLATORS[_f[:-3]] = list(importlib.import_module(_f[:-3]).UNITS)
        except Exception as _ex:
            sys.stderr.write(f'translator {_f} cannot be loaded: {_ex}\n')


def write_if_changed(path, text):
    try:
        with open(path, encoding='utf-8') as fh:
            if fh.read() == text:
                return False
    except FileNotFoundError:
        pass
    tmp = path + '.tmp%d' % os.getpid()
    with open(tmp, 'w', encoding='utf-8') as fh:
        fh.write(text)
    os.replace(tmp, path)
    return True


def main(argv):
    update = '--update-baseline' in argv
    only = [a for a in argv if not a.startswith('--')]
    os.makedirs(GEN, exist_ok=True)
    report = {'units': {}, 'broken': []}
    for mod, units in TRANSLATORS.items():
        if only and not (set(only) & set(units)):
            # still make sure the files exist
            if all(os.path.exists(os.path.join(GEN, u + '.v')) for u in units):
                continue
        try:
            m = importlib.import_module(mod)
            out = m.translate()
            missing = [u for u in units if u not in out]
            if missing:
                raise Untranslatable(mod, f'translator produced no output for {missing}')
        except Exception as ex:  # fail closed: any problem breaks the obligation
            reason = str(ex) if isinstance(ex, Untranslatable) else 'translator crashed: ' + traceback.format_exc(limit=3)
            for u in units:
                report['broken'].append({'unit': u, 'translator': mod, 'reason': reason})
                report['units'][u] = 'baseline'
                with open(os.path.join(BASE, u + '.v'), encoding='utf-8') as fh:
                    write_if_changed(os.path.join(GEN, u + '.v'), fh.read())
            continue
        for u in units:
            changed = write_if_changed(os.path.join(GEN, u + '.v'), out[u])
            report['units'][u] = 'regenerated' + (' (changed)' if changed else '')
            if update:
                write_if_changed(os.path.join(BASE, u + '.v'), out[u])
    json.dump(report, sys.stdout)
    print()
    return 0


if __name__ == '__main__':
    sys.exit(main(sys.argv[1:]))
