"""C09 / ENABLE_PEDANTIC switch -> Gen/Env.v   (self-contained; nothing is shared with t_wrappers.py)

Emitted, all from the current working tree of the repository, nothing evaluated:
  * env_var_logic.py compiled statement by statement: the variable name, the value assigned by enable_pedantic /
    disable_pedantic, the body of is_enabled as a small boolean program over the variable (Model/EnvSwitch.v interprets it);
  * switch_routes: how each of the seven decorators of the property reaches a guard
    `if not is_enabled(): return <the argument>` that is the FIRST statement of pedantic.decorator / for_all_methods.decorate
    (directly, or through an exact-shape shortcut `return for_all_methods(decorator=X)(cls=cls)` / `return pedantic(func=func, ...)`);
  * enabled_paths: behind each guard the decorator really wraps (returns its local wrapper / setattr(cls, attr, decorator(...)));
  * env_refs: the cross reference - EVERY reference in the package (tests/ and examples/ excluded, and nothing in the package
    may import those) to is_enabled, enable_pedantic, disable_pedantic, ENVIRONMENT_VARIABLE_NAME, the literal name of the
    variable, os.environ / environ / environb / getenv / putenv / unsetenv in any spelling (also as string constants for
    getattr-style access), aliases of os, imports of posix/nt, rebindings of the watched names (parameters, defs, aliases,
    global/nonlocal), and every use of one of the seven decorators outside the locked shortcuts (a decorator applied while a
    decorated callable runs would be an indirect read of the switch at call time).  Each reference is classified by phase
    (inside env_var_logic.py / module level / creation of the decorator object = body of the factory pedantic(...) or
    for_all_methods(...) / decoration time of a guard site / inside a wrapper = call time / elsewhere);
    whether the list is harmless is decided in Coq (`good`, Props/C09.v), not here.
Anything outside the whitelisted shapes raises Untranslatable (fail closed)."""
import ast, os
from common import *

U = 'Env'
UNITS = [U]
D = 'pedantic/decorators/'
ENVREL = 'pedantic/env_var_logic.py'
PED = D + 'fn_deco_pedantic.py'
CLS = D + 'class_decorators.py'
SEVEN = ('pedantic', 'pedantic_require_docstring', 'pedantic_class', 'pedantic_class_require_docstring',
         'trace_class', 'timer_class', 'for_all_methods')
HOME = {'pedantic': PED, 'pedantic_require_docstring': PED, 'pedantic_class': CLS, 'pedantic_class_require_docstring': CLS,
        'trace_class': CLS, 'timer_class': CLS, 'for_all_methods': CLS}
SWITCH_NAMES = ('is_enabled', 'enable_pedantic', 'disable_pedantic')
OS_ENV_NAMES = ('environ', 'environb', 'getenv', 'getenvb', 'putenv', 'unsetenv')


def ndump(node):
    return dump(node).replace('Store()', 'Load()').replace('Del()', 'Load()')


def same(node, text):
    return ndump(node) == ndump(ast.parse(text).body[0].value)


def same_stmt(node, text):
    return ndump(node) == ndump(ast.parse(text).body[0])


def bad(why):
    raise Untranslatable(U, why)


def is_guard(st, argname):
    """`if not is_enabled(): return <the argument unchanged>`"""
    return same_stmt(st, f'if not is_enabled():\n    return {argname}')


def single_param(fn, what):
    a = fn.args
    if len(a.args) != 1 or a.vararg or a.kwarg or a.kwonlyargs or a.posonlyargs or a.defaults:
        bad(f'{what}: expected exactly one parameter')
    return a.args[0].arg


def undecorated(fn, what):
    if fn.decorator_list:
        bad(f'{what}: is decorated itself')


def no_rebinding(tree, rel, names):
    for s in tree.body:
        if isinstance(s, (ast.Assign, ast.AugAssign, ast.AnnAssign, ast.Delete, ast.Global)):
            bad(f'{rel}: module-level assignment at line {s.lineno}')
        if isinstance(s, (ast.FunctionDef, ast.AsyncFunctionDef, ast.ClassDef)) and s.name in names:
            bad(f'{rel}: module-level rebinding of {s.name}')
        if isinstance(s, (ast.If, ast.Try, ast.With, ast.For, ast.While)) and not (
                isinstance(s, ast.If) and same(s.test, '__name__ == "__main__"')):
            bad(f'{rel}: module-level control flow at line {s.lineno}')


def need_imports(tree, rel, needs):
    imports = [dump(s) for s in tree.body if isinstance(s, ast.ImportFrom)]
    for need in needs:
        if dump(ast.parse(need).body[0]) not in imports:
            bad(f'{rel}: import `{need}` changed')


# ------------------------------------------------------------------------------------------------------
# the seven decorators: routes to a guard, and what lies behind the guard
# ------------------------------------------------------------------------------------------------------
def translate_pedantic():
    src, tree = load(PED)
    p = find_in(tree, 'pedantic', U)
    undecorated(p, 'pedantic')
    dec = find_in(p, 'decorator', U)
    undecorated(dec, 'pedantic.decorator')
    f = single_param(dec, 'pedantic.decorator')
    body = strip_doc(dec.body)
    guard_first = bool(body) and is_guard(body[0], f)
    pb = strip_doc(p.body)
    a = p.args
    if [x.arg for x in a.args] != ['func', 'require_docstring'] or a.vararg or a.kwarg or a.kwonlyargs or a.posonlyargs or not (
            len(pb) == 2 and pb[0] is dec and same_stmt(pb[1], 'return decorator if func is None else decorator(f=func)')):
        bad('pedantic: body is not `def decorator ...; return decorator if func is None else decorator(f=func)`')
    routes = [('pedantic', 'RouteGuard SitePedantic' if guard_first else 'RouteNoGuard')]
    r = find_in(tree, 'pedantic_require_docstring', U)
    undecorated(r, 'pedantic_require_docstring')
    rb = strip_doc(r.body)
    if [x.arg for x in r.args.args] == ['func'] and not (r.args.vararg or r.args.kwarg or r.args.kwonlyargs) and len(rb) == 1 \
            and same_stmt(rb[0], 'return pedantic(func=func, require_docstring=True)'):
        routes.append(('pedantic_require_docstring', 'RouteVia "pedantic"'))
    else:
        bad('pedantic_require_docstring is not `return pedantic(func=func, require_docstring=True)`')
    need_imports(tree, PED, ['from pedantic.env_var_logic import is_enabled'])
    no_rebinding(tree, PED, ('is_enabled',))
    # behind the guard: every exit of `decorator` returns one of its own wrappers, and each wrapper builds a FunctionCall and
    # returns the result of its check_types / async_check_types
    wrappers = {n.name: n for n in body if isinstance(n, (ast.FunctionDef, ast.AsyncFunctionDef))}
    rets = [n for st in body[1 if guard_first else 0:] for n in ast.walk(st) if isinstance(n, ast.Return)
            and not any(n in ast.walk(w) for w in wrappers.values())]
    wraps = bool(rets) and all(is_name(n.value) and n.value.id in wrappers for n in rets) \
        and isinstance(body[-1], (ast.Return, ast.If))

    def checks(w):
        calls = [ast.unparse(n.func) for n in ast.walk(w) if isinstance(n, ast.Call)]
        return 'FunctionCall' in calls and 'call.assert_uses_kwargs' in calls and \
            ('call.check_types' in calls or 'call.async_check_types' in calls)
    wraps = wraps and all(checks(wrappers[n.value.id]) for n in rets)
    return routes, wraps, provenance(PED, src, p)


def translate_for_all():
    src, tree = load(CLS)
    fam = find_in(tree, 'for_all_methods', U)
    undecorated(fam, 'for_all_methods')
    a = fam.args
    # (decorator) or, since fix 80ba436, (decorator, skip=()): names the loop leaves alone; it sits behind the guard
    names = [x.arg for x in a.args]
    skip_ok = names == ['decorator', 'skip'] and len(a.defaults) == 1 and isinstance(a.defaults[0], ast.Tuple) and not a.defaults[0].elts
    if not (names == ['decorator'] and not a.defaults or skip_ok) or a.vararg or a.kwarg or a.kwonlyargs or a.posonlyargs:
        bad('for_all_methods: parameters changed')
    dec = find_in(fam, 'decorate', U)
    undecorated(dec, 'for_all_methods.decorate')
    cls = single_param(dec, 'for_all_methods.decorate')
    fb = strip_doc(fam.body)
    if not (len(fb) == 2 and fb[0] is dec and same_stmt(fb[1], 'return decorate')):
        bad('for_all_methods: body is not `def decorate ...; return decorate`')
    body = strip_doc(dec.body)
    guard_first = bool(body) and is_guard(body[0], cls)
    routes = []
    for short, inner in (('pedantic_class', 'pedantic'), ('pedantic_class_require_docstring', 'pedantic_require_docstring'),
                         ('trace_class', 'trace'), ('timer_class', 'timer')):
        f = find_in(tree, short, U)
        undecorated(f, short)
        p = single_param(f, short)
        b = strip_doc(f.body)
        def via(st):
            # return for_all_methods(decorator=<inner>[, skip=(<string constants>)])(<cls>=<p>)
            if not (isinstance(st, ast.Return) and isinstance(st.value, ast.Call)):
                return False
            outer = st.value
            if outer.args or len(outer.keywords) != 1 or outer.keywords[0].arg != cls or not is_name(outer.keywords[0].value, p):
                return False
            mk = outer.func
            if not (isinstance(mk, ast.Call) and is_name(mk.func, 'for_all_methods') and not mk.args):
                return False
            kws = {k.arg: k.value for k in mk.keywords}
            if set(kws) - {'decorator', 'skip'} or 'decorator' not in kws or not is_name(kws['decorator'], inner):
                return False
            if 'skip' in kws and not (isinstance(kws['skip'], ast.Tuple) and all(isinstance(e, ast.Constant) and isinstance(e.value, str)
                                                                                 for e in kws['skip'].elts)):
                return False
            return True
        if len(b) == 1 and via(b[0]):
            routes.append((short, 'RouteVia "for_all_methods"'))
        else:
            bad(f'{short} is not `return for_all_methods(decorator={inner}[, skip=(...)])(cls=cls)`')
    routes.append(('for_all_methods', 'RouteGuard SiteForAll' if guard_first else 'RouteNoGuard'))
    need_imports(tree, CLS, ['from pedantic.decorators import timer, trace',
                             'from pedantic.decorators.fn_deco_pedantic import pedantic, pedantic_require_docstring',
                             'from pedantic.env_var_logic import is_enabled'])
    no_rebinding(tree, CLS, ('trace', 'timer', 'pedantic', 'is_enabled', 'pedantic_require_docstring'))
    # behind the guard: a loop over cls.__dict__ that stores decorator(<the attribute>) back with setattr, then `return cls`
    rest = body[1 if guard_first else 0:]
    loops = [st for st in rest if isinstance(st, ast.For) and same(st.iter, f'{cls}.__dict__') and is_name(st.target)]
    wraps = False
    if len(loops) == 1 and rest and same_stmt(rest[-1], f'return {cls}'):
        attr = loops[0].target.id
        for n in ast.walk(loops[0]):
            if isinstance(n, ast.Call) and is_name(n.func, 'setattr') and len(n.args) == 3 and not n.keywords \
                    and is_name(n.args[0], cls) and is_name(n.args[1], attr) and isinstance(n.args[2], ast.Call) \
                    and is_name(n.args[2].func, 'decorator') and len(n.args[2].args) == 1 and not n.args[2].keywords:
                wraps = True
    return routes, wraps, provenance(CLS, src, fam)


# ------------------------------------------------------------------------------------------------------
# env_var_logic.py
# ------------------------------------------------------------------------------------------------------
def bexp(e, var):
    if isinstance(e, ast.Constant) and type(e.value) is bool:
        return f'BConst {coq_bool(e.value)}'
    if isinstance(e, ast.UnaryOp) and isinstance(e.op, ast.Not):
        return f'BNot ({bexp(e.operand, var)})'
    if isinstance(e, ast.BoolOp):
        parts = [bexp(v, var) for v in e.values]
        op = 'BAnd' if isinstance(e.op, ast.And) else 'BOr'
        out = parts[-1]
        for p_ in reversed(parts[:-1]):
            out = f'{op} ({p_}) ({out})'
        return out
    if isinstance(e, ast.Compare) and len(e.ops) == 1:
        l, r, op = e.left, e.comparators[0], e.ops[0]
        if isinstance(op, (ast.In, ast.NotIn)) and is_name(l, var) and same(r, 'os.environ'):
            return 'BIsSet' if isinstance(op, ast.In) else 'BNot (BIsSet)'
        if isinstance(op, (ast.Eq, ast.NotEq)) and isinstance(r, ast.Constant) and isinstance(r.value, str):
            neg = isinstance(op, ast.NotEq)
            if same(l, f'os.environ[{var}]'):
                t = f'BValEq {coq_string(r.value)}'
            elif isinstance(l, ast.Call) and (same(l.func, 'os.environ.get') or same(l.func, 'os.getenv')) and not l.keywords \
                    and len(l.args) in (1, 2) and is_name(l.args[0], var) \
                    and (len(l.args) == 1 or (isinstance(l.args[1], ast.Constant) and isinstance(l.args[1].value, (str, type(None))))):
                d = l.args[1].value if len(l.args) == 2 else None
                t = f'BGetEq {"None" if d is None else "(Some " + coq_string(d) + ")"} {coq_string(r.value)}'
            else:
                bad(f'is_enabled: unrecognised comparison {ast.unparse(e)}')
            return f'BNot ({t})' if neg else t
    bad(f'is_enabled: expression outside the whitelist: {ast.unparse(e)}')


def translate_env_logic():
    src, tree = load(ENVREL)
    var, lit = None, None
    for st in tree.body:
        if isinstance(st, ast.Import):
            if [a.name for a in st.names] != ['os'] or st.names[0].asname:
                bad('env_var_logic.py: unexpected import')
        elif isinstance(st, ast.Assign):
            if len(st.targets) == 1 and is_name(st.targets[0]) and isinstance(st.value, ast.Constant) \
                    and isinstance(st.value.value, str) and var is None:
                var, lit = st.targets[0].id, st.value.value
            else:
                bad('env_var_logic.py: unexpected module-level assignment')
        elif isinstance(st, ast.FunctionDef) and st.name in SWITCH_NAMES:
            a = st.args
            if st.decorator_list or a.args or a.vararg or a.kwarg or a.kwonlyargs or a.posonlyargs:
                bad(f'{st.name}: signature or decorators changed')
        elif isinstance(st, ast.Expr) and isinstance(st.value, ast.Constant):
            pass
        else:
            bad(f'env_var_logic.py: unexpected module-level statement at line {st.lineno}')
    if var is None:
        bad('env_var_logic.py: variable name constant not found')
    out = f'Definition src_env_var_logic : string := {coq_string(provenance(ENVREL, src, tree.body[-1]))}.\n'
    out += f'Definition env_var_name : string := {coq_string(lit)}.\n'
    for fn in ('enable_pedantic', 'disable_pedantic'):
        f = find_in(tree, fn, U)
        b = strip_doc(f.body)
        if len(b) == 1 and isinstance(b[0], ast.Assign) and len(b[0].targets) == 1 and same(b[0].targets[0], f'os.environ[{var}]') \
                and isinstance(b[0].value, ast.Constant) and isinstance(b[0].value.value, str):
            out += f'Definition {fn}_prog : env_assign := SetVal {coq_string(b[0].value.value)}.\n'
        elif len(b) == 1 and (same_stmt(b[0], f'del os.environ[{var}]') or same_stmt(b[0], f'os.environ.pop({var}, None)')):
            out += f'Definition {fn}_prog : env_assign := DelVar.\n'
        else:
            bad(f'{fn}: body is not `os.environ[{var}] = <string literal>`')
    f = find_in(tree, 'is_enabled', U)
    stmts = []
    b = strip_doc(f.body)
    for k, st in enumerate(b):
        if isinstance(st, ast.If) and not st.orelse and len(st.body) == 1 and isinstance(st.body[0], ast.Return) \
                and st.body[0].value is not None:
            stmts.append(f'IeIfRet ({bexp(st.test, var)}) ({bexp(st.body[0].value, var)})')
        elif isinstance(st, ast.Return) and st.value is not None and k == len(b) - 1:
            stmts.append(f'IeRet ({bexp(st.value, var)})')
        else:
            bad(f'is_enabled: unrecognised statement at line {st.lineno}')
    out += f'Definition is_enabled_prog : list ie_stmt := {coq_list(stmts)}.\n'
    return out, var, lit


# ------------------------------------------------------------------------------------------------------
# cross reference
# ------------------------------------------------------------------------------------------------------
SITES = ((PED, 'pedantic.decorator', 'SitePedantic'), (PED, 'pedantic', 'SitePedantic'),
         (CLS, 'for_all_methods.decorate', 'SiteForAll'), (CLS, 'for_all_methods', 'SiteForAll'))
SHORTCUT_SCOPES = {(CLS, 'pedantic_class'), (CLS, 'pedantic_class_require_docstring'), (CLS, 'trace_class'),
                   (CLS, 'timer_class'), (PED, 'pedantic_require_docstring')}


def package_files():
    base = os.path.join(REPO, 'pedantic')
    if not os.path.isdir(base):
        bad('package directory pedantic/ not found')
    for d, dirs, files in os.walk(base):
        dirs[:] = sorted(x for x in dirs if x not in ('tests', 'examples', '__pycache__'))
        for fn in sorted(files):
            if fn.endswith('.py'):
                yield os.path.relpath(os.path.join(d, fn), REPO)
            elif fn.endswith(('.pyx', '.pyi', '.so', '.pth')):
                bad(f'non-Python module {fn} in the package')


def collect_refs(var, lit):
    refs = []
    watched = set(SWITCH_NAMES) | {var} | set(OS_ENV_NAMES)
    for rel in package_files():
        src, tree = load(rel)
        parents = {}
        for n in ast.walk(tree):
            for c in ast.iter_child_nodes(n):
                parents[c] = n

        def scope(n):
            names = []
            while n in parents:
                n = parents[n]
                if isinstance(n, (ast.FunctionDef, ast.AsyncFunctionDef, ast.ClassDef, ast.Lambda)):
                    names.append(getattr(n, 'name', '<lambda>'))
            return '.'.join(reversed(names))

        def is_first_guard(call):
            """call is the Call is_enabled() of `if not is_enabled(): return <arg>`, first statement of a guard site"""
            p1 = parents.get(call)
            p2 = parents.get(p1)
            fn_ = parents.get(p2)
            if not (isinstance(p1, ast.UnaryOp) and isinstance(p2, ast.If) and isinstance(fn_, ast.FunctionDef)):
                return False
            if (rel, scope(p2)) not in ((PED, 'pedantic.decorator'), (CLS, 'for_all_methods.decorate')):
                return False
            body = strip_doc(fn_.body)
            return bool(body) and body[0] is p2 and len(fn_.args.args) == 1 and is_guard(p2, fn_.args.args[0].arg)

        def add(n, kind, guard=False):
            sc = scope(n)
            if rel == ENVREL:
                phase = 'PhEnvLogic'
            elif kind == 'RImport':
                phase = 'PhModule'
            else:
                site = None
                for (r_, root, s_) in SITES:
                    if rel == r_ and (sc == root or sc.startswith(root + '.')):
                        site = (root, s_)
                        break
                if site and site[0] in ('pedantic', 'for_all_methods'):
                    # body of the factory: runs when the decorator object is created (maybe long before it is applied)
                    phase = f'PhCreate {site[1]}' if sc == site[0] else f'PhCall {site[1]}'
                elif site:
                    # directly in the body of the decorator function = decoration time; in anything nested = a wrapper = call time
                    phase = f'PhDecoration {site[1]}' if sc == site[0] else f'PhCall {site[1]}'
                elif sc == '':
                    phase = 'PhModule'
                else:
                    phase = 'PhElsewhere'
            refs.append((rel, sc, getattr(n, 'lineno', 0), kind, guard, phase))

        keys = set()        # id of key nodes that are part of an environ access already recorded
        for n in ast.walk(tree):
            if isinstance(n, ast.ImportFrom):
                mod = n.module or ''
                if n.level == 0 and (mod.split('.')[-1] in ('tests', 'examples') or '.tests.' in mod or '.examples.' in mod
                                     or mod in ('posix', 'nt')):
                    add(n, 'RUnknown')
                for a in n.names:
                    if a.name == '*':
                        if mod.endswith('env_var_logic') or mod in ('os', 'posix', 'nt'):
                            add(n, 'RUnknown')
                    elif a.name in watched:
                        add(n, 'RUnknown' if (a.asname or a.name in OS_ENV_NAMES) else 'RImport')
                    elif a.name in SEVEN:
                        add(n, 'RUnknown' if a.asname else 'RImport')
                    elif a.name == 'env_var_logic' or (a.name == 'os' and a.asname):
                        add(n, 'RUnknown')
                    if a.asname in watched or a.asname in SEVEN:
                        add(n, 'RUnknown')
            elif isinstance(n, ast.Import):
                for a in n.names:
                    if a.name.endswith('env_var_logic') or (a.name == 'os' and a.asname) or a.name in ('posix', 'nt') \
                            or a.name.split('.')[-1] in ('tests', 'examples') or a.asname in watched or a.asname in SEVEN \
                            or a.asname == 'os':
                        add(n, 'RUnknown')
            elif isinstance(n, (ast.FunctionDef, ast.AsyncFunctionDef, ast.ClassDef)):
                if rel != ENVREL and n.name in watched:
                    add(n, 'RUnknown')
                if n.name in SEVEN and not (rel == HOME[n.name] and scope(n) == ''):
                    add(n, 'RUnknown')
            elif isinstance(n, ast.arg):
                if n.arg in watched or n.arg in SEVEN or n.arg == 'os':
                    add(n, 'RUnknown')
            elif isinstance(n, (ast.Global, ast.Nonlocal)):
                if any(x in watched or x in SEVEN or x == 'os' for x in n.names):
                    add(n, 'RUnknown')
            elif isinstance(n, ast.ExceptHandler):
                if n.name in watched or n.name in SEVEN or n.name == 'os':
                    add(n, 'RUnknown')
            elif isinstance(n, (ast.Name, ast.Attribute)):
                ident = n.id if isinstance(n, ast.Name) else n.attr
                par = parents.get(n)
                if ident == 'is_enabled':
                    if isinstance(n, ast.Name) and isinstance(par, ast.Call) and par.func is n and not par.args and not par.keywords:
                        add(n, 'RIsEnabledCall', is_first_guard(par))
                    else:
                        add(n, 'RUnknown')
                elif ident in ('enable_pedantic', 'disable_pedantic'):
                    add(n, 'RToggle')
                elif ident == var:
                    if id(n) not in keys:
                        if isinstance(n, ast.Name) and isinstance(n.ctx, ast.Store) and rel == ENVREL and scope(n) == '':
                            add(n, 'RVarName')
                        elif isinstance(n, ast.Name) and isinstance(n.ctx, ast.Load):
                            add(n, 'RVarName')
                        else:
                            add(n, 'RUnknown')
                elif ident in OS_ENV_NAMES and ident != 'environ':
                    add(n, 'RUnknown')
                elif ident == 'environ':
                    key, store = None, False
                    if isinstance(par, ast.Subscript) and par.value is n:
                        key, store = par.slice, not isinstance(par.ctx, ast.Load)
                    elif isinstance(par, ast.Compare) and len(par.ops) == 1 and isinstance(par.ops[0], (ast.In, ast.NotIn)) \
                            and par.comparators[0] is n:
                        key = par.left
                    if key is None or not (isinstance(n, ast.Attribute) and is_name(n.value, 'os')):
                        add(n, 'RUnknown')
                    elif is_name(key, var) or (isinstance(key, ast.Constant) and key.value == lit):
                        keys.add(id(key))
                        add(n, 'RSwitchWrite' if store else 'RSwitchRead')
                    elif rel != ENVREL and same(key, 'self._env_var_name') and not store:
                        add(n, 'RForeignRead')
                    else:
                        add(n, 'RUnknown')
                elif ident in SEVEN and isinstance(n.ctx, ast.Load):
                    add(n, 'RDecoUse', guard=(rel, scope(n)) in SHORTCUT_SCOPES and isinstance(n, ast.Name))
                elif ident in SEVEN:
                    add(n, 'RUnknown')
                elif ident == 'os' and isinstance(n, ast.Name) and not (
                        isinstance(par, ast.Attribute) and par.value is n and isinstance(par.ctx, ast.Load)):
                    add(n, 'RUnknown')          # os passed around / rebound: getattr(os, ...), vars(os), x = os
                elif ident in ('__dict__',) and isinstance(n, ast.Attribute) and is_name(n.value, 'os'):
                    add(n, 'RUnknown')
            elif isinstance(n, ast.Constant) and isinstance(n.value, str):
                if n.value == lit and id(n) not in keys:
                    add(n, 'RVarLiteral')
                elif n.value in watched or (lit and lit in n.value and n.value != lit):
                    add(n, 'RUnknown')
    # ast.walk is breadth first: a key Name can be visited before its environ access; drop those duplicates now
    keyed = {(r[0], r[2]) for r in refs if r[3] in ('RSwitchRead', 'RSwitchWrite')}
    refs = [r for r in refs if not (r[3] in ('RVarName', 'RVarLiteral') and (r[0], r[2]) in keyed and r[1] != '')]
    return sorted(set(refs), key=lambda r: (r[0], r[2], r[3], r[1]))


def translate():
    text, var, lit = translate_env_logic()
    r1, w1, prov1 = translate_pedantic()
    r2, w2, prov2 = translate_for_all()
    refs = collect_refs(var, lit)
    items = []
    for (rel, sc, line, kind, guard, phase) in refs:
        items.append(f'{{| er_file := {coq_string(rel)}; er_scope := {coq_string(sc)}; er_line := {line}%nat; '
                     f'er_kind := {kind}; er_guard := {coq_bool(guard)}; er_phase := {phase} |}}')
    out = header('t_env.py', ['From PV Require Import Base.Exn Model.EnvSwitch.'])
    out += text
    out += f'Definition src_pedantic : string := {coq_string(prov1)}.\n'
    out += f'Definition src_for_all_methods : string := {coq_string(prov2)}.\n'
    out += 'Definition env_refs : list env_ref := [\n  ' + ';\n  '.join(items) + '\n].\n'
    out += 'Definition switch_routes : list (string * route) := ' + \
           coq_list([f'({coq_string(n)}, {r})' for n, r in r1 + r2]) + '.\n'
    out += f'Definition enabled_paths : list (site * bool) := [(SitePedantic, {coq_bool(w1)}); (SiteForAll, {coq_bool(w2)})].\n'
    return {U: out}
