"""pedantic/decorators/cls_deco_frozen_dataclass.py -> Gen/Dataclass.v

Family: `frozen_dataclass(cls=None, <bool params>)` whose inner `decorator(cls_)`
  * builds `args = {<str>: <bool literal | own parameter>, ...}` and applies `dataclass(**args)(cls_)`,
  * optionally (`if type_safe:`) wraps `__post_init__` (old fetched with getattr and a no-op default; new_post_init =
    a sequence of {old_post_init(self), context = get_context(...), self.validate_types(_context=context)}; installed
    with setattr before or after dataclass() is applied),
  * defines copy_with (= replace(self, **kwargs)), deep_copy_with (dict comprehension over fields(self), optional
    deepcopy, optional `if field.init`, constructor type(self) | new_class, merge order of kwargs),
    validate_types (loop over fields(new_class) | fields(self), optional slice, optional field guard; per field the test
    `if not hasattr(self, field.name): raise PedanticTypeCheckException(...)` and one
    assert_value_matches_type(value=getattr(self, field.name), type_=field.type, type_vars={}, ...)),
  * attaches a list of these methods with setattr(new_class, method.__name__, method).
Everything that is not a parameter of the family must match exactly; otherwise Untranslatable (fail closed)."""
import ast
from common import *

REL = 'pedantic/decorators/cls_deco_frozen_dataclass.py'
UNIT = 'Dataclass'
UNITS = [UNIT]
PARAMS = {'type_safe': 'PTypeSafe', 'order': 'POrder', 'kw_only': 'PKwOnly', 'slots': 'PSlots'}
METHS = {'copy_with': 'MCopyWith', 'deep_copy_with': 'MDeepCopyWith', 'validate_types': 'MValidateTypes'}


def bad(reason):
    raise Untranslatable(UNIT, reason)


def expr(text):
    return ast.parse(text).body[0].value


def stmt(text):
    return ast.parse(text).body[0]


def same(node, text_or_node):
    other = expr(text_or_node) if isinstance(text_or_node, str) else text_or_node
    return dump(node) == dump(other)


def same_stmt(node, text):
    return dump(node) == dump(stmt(text))


def is_bool_const(n):
    return isinstance(n, ast.Constant) and type(n.value) is bool


def int_const(n):
    if n is None:
        return None
    if isinstance(n, ast.Constant) and type(n.value) is int:
        return n.value
    if isinstance(n, ast.UnaryOp) and isinstance(n.op, ast.USub) and isinstance(n.operand, ast.Constant) \
            and type(n.operand.value) is int:
        return -n.operand.value
    bad('slice bound is not an integer literal')


def opt_Z(v):
    return 'None' if v is None else f'(Some {coq_Z(v)})'


def field_pred(test):
    """-> (fpred, truth value of the test) for whitelisted tests on `field`"""
    neg = False
    if isinstance(test, ast.UnaryOp) and isinstance(test.op, ast.Not):
        neg, test = True, test.operand
    if same(test, 'field.init'):
        return 'FPInit', not neg
    if same(test, 'field.compare'):
        return 'FPCompare', not neg
    if same(test, 'field.default is MISSING'):
        return 'FPHasDefault', neg          # test true <=> has no default
    if same(test, 'field.default is not MISSING'):
        return 'FPHasDefault', not neg
    bad(f'unrecognised field guard at line {test.lineno}')


def tr_type_safe_block(node):
    """-> list of steps"""
    b = node.body
    if len(b) != 3 or node.orelse:
        bad('`if type_safe:` block does not consist of old_post_init / new_post_init / setattr')
    if not same_stmt(b[0], "old_post_init = getattr(cls_, '__post_init__', lambda _: None)"):
        bad('old_post_init is not fetched with getattr(cls_, "__post_init__", <no-op>)')
    f = b[1]
    if not (isinstance(f, ast.FunctionDef) and f.name == 'new_post_init' and [a.arg for a in f.args.args] == ['self']
            and not f.args.vararg and not f.args.kwarg and not f.args.kwonlyargs and not f.decorator_list):
        bad('new_post_init(self) not found')
    steps = []
    for s in strip_doc(f.body):
        if same_stmt(s, 'old_post_init(self)'):
            steps.append('SCallOld')
        elif same_stmt(s, 'context = get_context(depth=3, increase_depth_if_name_matches=[copy_with.__name__, '
                          'deep_copy_with.__name__])'):
            steps.append('SGetContext')
        elif same_stmt(s, 'self.validate_types(_context=context)'):
            steps.append('SValidate')
        else:
            bad(f'unrecognised statement in new_post_init at line {s.lineno}')
    return steps, b[2]


def tr_deep(f):
    if [a.arg for a in f.args.args] == ['self'] and not f.args.posonlyargs:
        bad('deep_copy_with(self, **kwargs): self can be passed by keyword (pre-fix shape of C11-field-named-self: a field named self '
            'cannot be replaced, TypeError multiple values for argument self)')
    if not ([a.arg for a in f.args.posonlyargs] == ['self'] and not f.args.args and f.args.kwarg is not None and f.args.kwarg.arg == 'kwargs'
            and not f.args.vararg and not f.args.kwonlyargs and not f.decorator_list):
        bad('signature of deep_copy_with changed')
    b = strip_doc(f.body)
    if len(b) != 2:
        bad('deep_copy_with is not `current_values = {...}; return <ctor>(**...)`')
    a = b[0]
    if not (isinstance(a, ast.Assign) and len(a.targets) == 1 and is_name(a.targets[0], 'current_values')
            and isinstance(a.value, ast.DictComp)):
        bad('current_values is not a dict comprehension')
    dc = a.value
    if not same(dc.key, 'field.name'):
        bad('key of the comprehension is not field.name')
    if same(dc.value, 'deepcopy(getattr(self, field.name))'):
        deep = True
    elif same(dc.value, 'getattr(self, field.name)'):
        deep = False
    else:
        bad('value of the comprehension is neither deepcopy(getattr(self, field.name)) nor getattr(self, field.name)')
    if len(dc.generators) != 1:
        bad('more than one generator')
    g = dc.generators[0]
    if g.is_async or not is_name(g.target, 'field') or not same(g.iter, 'fields(self)'):
        bad('comprehension does not iterate `for field in fields(self)`')
    if len(g.ifs) == 0:
        filt = False
    elif len(g.ifs) == 1 and same(g.ifs[0], 'field.init'):
        filt = True
    else:
        bad('unrecognised filter of the comprehension')
    r = b[1]
    if not (isinstance(r, ast.Return) and isinstance(r.value, ast.Call)):
        bad('deep_copy_with does not return a constructor call')
    c = r.value
    if same(c.func, 'type(self)') or same(c.func, 'self.__class__'):
        ctor = 'CtorTypeSelf'
    elif is_name(c.func, 'new_class'):
        ctor = 'CtorNewClass'
    else:
        bad('unrecognised constructor in deep_copy_with')
    if c.args or len(c.keywords) != 1 or c.keywords[0].arg is not None:
        bad('constructor is not called with a single ** argument')
    x = c.keywords[0].value
    if same(x, '{**current_values, **kwargs}'):
        merge = 'MergeKwLast'
    elif same(x, '{**kwargs, **current_values}'):
        merge = 'MergeKwFirst'
    elif is_name(x, 'current_values'):
        merge = 'MergeNoKw'
    else:
        bad('unrecognised merge of current_values and kwargs')
    return f'{{| d_deepcopy := {coq_bool(deep)}; d_filter_init := {coq_bool(filt)}; d_ctor := {ctor}; d_merge := {merge} |}}'


def tr_validate(f):
    a = f.args
    if not ([x.arg for x in a.args] == ['self'] and [x.arg for x in a.kwonlyargs] == ['_context'] and not a.vararg
            and not a.kwarg and not f.decorator_list):
        bad('signature of validate_types changed')
    b = strip_doc(f.body)
    if len(b) != 4:
        bad('validate_types does not consist of props / context default / context merge / loop')
    if same_stmt(b[0], 'props = fields(new_class)'):
        src = 'FieldsNewClass'
    elif same_stmt(b[0], 'props = fields(self)'):
        src = 'FieldsSelf'
    else:
        bad('props is neither fields(new_class) nor fields(self)')
    if not same_stmt(b[1], 'if _context is None:\n    _context = get_context(depth=2)'):
        bad('context default changed')
    if not same_stmt(b[2], '_context = {**_context, **self.__init__.__globals__, self.__class__.__name__: self.__class__}'):
        bad('context merge changed')
    lp = b[3]
    if not (isinstance(lp, ast.For) and is_name(lp.target, 'field') and not lp.orelse):
        bad('no `for field in ...` loop')
    lo = hi = None
    it = lp.iter
    if is_name(it, 'props'):
        pass
    elif isinstance(it, ast.Subscript) and is_name(it.value, 'props') and isinstance(it.slice, ast.Slice) \
            and it.slice.step is None:
        lo, hi = int_const(it.slice.lower), int_const(it.slice.upper)
    else:
        bad('loop does not iterate props or a literal slice of props')
    body = lp.body
    guard = 'None'
    if len(body) >= 2 and isinstance(body[0], ast.If) and not body[0].orelse and len(body[0].body) == 1 \
            and isinstance(body[0].body[0], ast.Continue):
        p, truth = field_pred(body[0].test)
        guard = f'(Some ({p}, {coq_bool(not truth)}))'      # checked when the test is false
        body = body[1:]
    elif len(body) == 1 and isinstance(body[0], ast.If) and not body[0].orelse:
        p, truth = field_pred(body[0].test)
        guard = f'(Some ({p}, {coq_bool(truth)}))'
        body = body[0].body
    # a field without value is rejected with PedanticTypeCheckException before its value is read (repair of finding
    # C10-initfalse-nodefault; Model.check_loop has this test built in)
    if len(body) == 1:
        bad('the loop reads getattr(self, field.name) without the test `if not hasattr(self, field.name): raise '
            'PedanticTypeCheckException(...)` (pre-fix shape of finding C10-initfalse-nodefault: a field without value leaks AttributeError)')
    g = body[0]
    if not (len(body) == 2 and isinstance(g, ast.If) and not g.orelse and same(g.test, 'not hasattr(self, field.name)')
            and len(g.body) == 1 and isinstance(g.body[0], ast.Raise) and g.body[0].cause is None
            and isinstance(g.body[0].exc, ast.Call) and is_name(g.body[0].exc.func, 'PedanticTypeCheckException')
            and len(g.body[0].exc.args) == 1 and not g.body[0].exc.keywords
            and isinstance(g.body[0].exc.args[0], (ast.JoinedStr, ast.Constant))):
        bad('loop body does not start with `if not hasattr(self, field.name): raise PedanticTypeCheckException(<text>)`')
    body = body[1:]
    if len(body) != 1 or not isinstance(body[0], ast.Expr) or not isinstance(body[0].value, ast.Call):
        bad('loop body is not a single assert_value_matches_type call')
    c = body[0].value
    if not is_name(c.func, 'assert_value_matches_type') or c.args:
        bad('loop body does not call assert_value_matches_type with keywords only')
    kws = {k.arg: k.value for k in c.keywords}
    if sorted(kws) != ['context', 'err', 'type_', 'type_vars', 'value'] or len(c.keywords) != 5:
        bad('keyword set of assert_value_matches_type changed')
    if not same(kws['value'], 'getattr(self, field.name)'):
        bad('value is not getattr(self, field.name)')
    if not same(kws['type_'], 'field.type'):
        bad('type_ is not field.type')
    if not same(kws['type_vars'], '{}'):
        bad('type_vars is not a fresh {}')
    if not is_name(kws['context'], '_context'):
        bad('context is not _context')
    if not isinstance(kws['err'], (ast.JoinedStr, ast.Constant)):
        bad('err is not a string')
    return f'{{| v_fields := {src}; v_lo := {opt_Z(lo)}; v_hi := {opt_Z(hi)}; v_guard := {guard} |}}'


def translate():
    src, tree = load(REL)
    outer = find_def(tree, 'frozen_dataclass', UNIT)
    short = find_def(tree, 'frozen_type_safe_dataclass', UNIT)

    # ---- parameters of frozen_dataclass and their defaults
    a = outer.args
    names = [x.arg for x in a.args]
    if names[:1] != ['cls'] or a.vararg or a.kwarg or a.kwonlyargs or a.posonlyargs or len(a.defaults) != len(names):
        bad('signature of frozen_dataclass changed')
    if not (isinstance(a.defaults[0], ast.Constant) and a.defaults[0].value is None):
        bad('default of cls is not None')
    defaults = []
    for n, d in zip(names[1:], a.defaults[1:]):
        if n not in PARAMS or not is_bool_const(d):
            bad(f'unknown parameter {n} or non-literal default')
        defaults.append(f'({PARAMS[n]}, {coq_bool(d.value)})')
    if 'type_safe' not in names:
        bad('no type_safe parameter')

    # ---- the shortcut
    sb = strip_doc(short.body)
    if [x.arg for x in short.args.args] != ['cls'] or len(sb) != 1 or not isinstance(sb[0], ast.Return):
        bad('frozen_type_safe_dataclass changed')
    c = sb[0].value
    if not (isinstance(c, ast.Call) and len(c.args) == 1 and is_name(c.args[0], 'cls') and not c.keywords
            and isinstance(c.func, ast.Call) and is_name(c.func.func, 'frozen_dataclass') and not c.func.args):
        bad('frozen_type_safe_dataclass is not frozen_dataclass(<keywords>)(cls)')
    shortcut = []
    for k in c.func.keywords:
        if k.arg not in PARAMS or not is_bool_const(k.value):
            bad('shortcut passes something that is not a boolean literal parameter')
        shortcut.append(f'({PARAMS[k.arg]}, {coq_bool(k.value.value)})')

    # ---- outer body: def decorator; if cls is None: return decorator; return decorator(cls_=cls)
    ob = strip_doc(outer.body)
    if len(ob) != 3 or not (isinstance(ob[0], ast.FunctionDef) and ob[0].name == 'decorator'):
        bad('outer body is not decorator / dispatch on cls')
    if not same_stmt(ob[1], 'if cls is None:\n    return decorator') or not same_stmt(ob[2], 'return decorator(cls_=cls)'):
        bad('dispatch on cls changed')
    deco = ob[0]
    if [x.arg for x in deco.args.args] != ['cls_'] or deco.decorator_list:
        bad('signature of decorator changed')
    body = strip_doc(deco.body)

    # ---- statement 0: args dict
    st = body[0]
    if not (isinstance(st, ast.Assign) and len(st.targets) == 1 and is_name(st.targets[0], 'args')
            and isinstance(st.value, ast.Dict)):
        bad('first statement of decorator is not `args = {...}`')
    argmap = {}
    for k, v in zip(st.value.keys, st.value.values):
        if not (isinstance(k, ast.Constant) and k.value in ('frozen', 'order', 'kw_only', 'slots')) or k.value in argmap:
            bad('unexpected key in the args dict')
        if is_bool_const(v):
            argmap[k.value] = f'ALit {coq_bool(v.value)}'
        elif isinstance(v, ast.Name) and v.id in PARAMS and v.id in names:
            argmap[k.value] = f'AParam {PARAMS[v.id]}'
        else:
            bad(f'value of args[{k.value!r}] is neither a boolean literal nor a decorator parameter')
    args = '{| ' + '; '.join(f'a_{k} := {argmap.get(k, "AAbsent")}' for k in ('frozen', 'order', 'kw_only', 'slots')) + ' |}'

    # ---- the remaining statements, in order
    rest = body[1:]
    kinds = []
    ts = None
    ts_pos = None
    found = {}
    methods = None
    for i, s in enumerate(rest):
        if isinstance(s, ast.If) and is_name(s.test, 'type_safe'):
            if ts is not None:
                bad('two `if type_safe:` blocks')
            steps, inst = tr_type_safe_block(s)
            ts, ts_pos, ts_install = steps, i, inst
            kinds.append('ts')
        elif same_stmt(s, 'new_class = dataclass(**args)(cls_)'):
            kinds.append('dataclass')
        elif isinstance(s, ast.FunctionDef) and s.name in METHS and s.name not in found:
            found[s.name] = s
            kinds.append('def')
        elif isinstance(s, ast.Assign) and len(s.targets) == 1 and is_name(s.targets[0], 'methods_to_add') \
                and isinstance(s.value, ast.List) and all(isinstance(e, ast.Name) and e.id in METHS for e in s.value.elts):
            methods = [METHS[e.id] for e in s.value.elts]
            kinds.append('methods')
        elif same_stmt(s, 'for method in methods_to_add:\n    setattr(new_class, method.__name__, method)'):
            kinds.append('attach')
        elif same_stmt(s, 'return new_class'):
            kinds.append('return')
        else:
            bad(f'unrecognised statement in decorator at line {s.lineno}')
    core = [k for k in kinds if k != 'ts']
    if core != ['dataclass', 'def', 'def', 'def', 'methods', 'attach', 'return'] or set(found) != set(METHS):
        bad('decorator is not dataclass() / three method definitions / methods_to_add / attach loop / return')
    if ts is None:
        ts_txt = 'None'
    else:
        before = ts_pos < kinds.index('dataclass')
        target = 'cls_' if before else 'new_class'
        if not (same_stmt(ts_install, f"setattr(cls_, '__post_init__', new_post_init)") if before else
                (same_stmt(ts_install, "setattr(new_class, '__post_init__', new_post_init)")
                 or same_stmt(ts_install, "setattr(cls_, '__post_init__', new_post_init)"))):
            bad('new_post_init is not installed with setattr(<class>, "__post_init__", new_post_init)')
        ts_txt = f'(Some {{| ts_steps := {coq_list(ts)}; ts_install_before := {coq_bool(before)} |}})'

    # ---- copy_with
    cw = found['copy_with']
    if [x.arg for x in cw.args.args] == ['self'] and not cw.args.posonlyargs:
        bad('copy_with(self, **kwargs): self can be passed by keyword (pre-fix shape of C11-field-named-self: a field named self '
            'cannot be replaced, TypeError multiple values for argument self)')
    if not ([x.arg for x in cw.args.posonlyargs] == ['self'] and not cw.args.args and cw.args.kwarg is not None and cw.args.kwarg.arg == 'kwargs'
            and not cw.args.vararg and not cw.args.kwonlyargs and not cw.decorator_list):
        bad('signature of copy_with changed')
    cb = strip_doc(cw.body)
    if len(cb) != 1 or not same_stmt(cb[0], 'return replace(self, **kwargs)'):
        bad('copy_with is not `return replace(self, **kwargs)`')
    val_txt = tr_validate(found['validate_types'])
    # `replace`, `dataclass`, `fields`, `deepcopy` must be the library functions
    imports = [dump(n) for n in tree.body if isinstance(n, ast.ImportFrom)]
    for need in ('from copy import deepcopy', 'from dataclasses import dataclass, fields, replace',
                 'from pedantic.exceptions import PedanticTypeCheckException'):
        if dump(stmt(need)) not in imports:
            bad(f'import changed: {need}')
    rebound = [n for n in ast.walk(tree) if isinstance(n, (ast.FunctionDef, ast.ClassDef)) and
               n.name in ('replace', 'dataclass', 'fields', 'deepcopy', 'assert_value_matches_type', 'get_context',
                          'PedanticTypeCheckException', 'hasattr')]
    rebound += [n for n in ast.walk(tree) if isinstance(n, ast.Name) and isinstance(n.ctx, ast.Store) and
                n.id in ('replace', 'dataclass', 'fields', 'deepcopy', 'assert_value_matches_type', 'get_context', 'setattr',
                         'getattr', 'type', 'hasattr', 'PedanticTypeCheckException')]
    if rebound:
        bad('a library name is rebound in the module')

    out = header('t_dataclass.py', ['From PV Require Import Base.Exn Model.Dataclass.'])
    out += f'Definition src_frozen_dataclass : string := {coq_string(provenance(REL, src, deco))}.\n'
    out += f'Definition src_frozen_type_safe_dataclass : string := {coq_string(provenance(REL, src, short))}.\n'
    out += 'Definition dc_prog : prog := {|\n'
    out += f'  p_defaults := {coq_list(defaults)};\n'
    out += f'  p_shortcut := {coq_list(shortcut)};\n'
    out += f'  p_args := {args};\n'
    out += f'  p_ts := {ts_txt};\n'
    out += '  p_copy := CopyReplace;\n'
    out += f'  p_deep := {tr_deep(found["deep_copy_with"])};\n'
    out += f'  p_validate := {val_txt};\n'
    out += f'  p_methods := {coq_list(methods)} |}}.\n'
    return {UNIT: out}
