"""T1/T2/T3 for the type checker: pedantic/type_checking_logic/check_types.py -> Gen/CheckerTables.v

Emits one record `checker_cfg : checker_cfg` (coq/Model/CheckerCfg.v): dispatch registries, arity
tables, bare-builtin sets, conversion chain, the except-handler table of _check_type, the class raised
by assert_value_matches_type and the shape parameters (quantifier, index, conjunction, presence of the
length test) of the element-wise checkers.  Everything else in those functions must match exactly."""
import ast
from common import *

REL = 'pedantic/type_checking_logic/check_types.py'
UNIT = 'CheckerTables'
UNITS = [UNIT]

TNAMES = ['List', 'Set', 'FrozenSet', 'Dict', 'Tuple', 'Type', 'Deque', 'DefaultDict', 'OrderedDict', 'Counter', 'ChainMap',
          'Iterable', 'Collection', 'Container', 'Sequence', 'MutableSequence', 'AbstractSet', 'MutableSet', 'Mapping',
          'MutableMapping', 'MappingView', 'KeysView', 'ValuesView', 'ItemsView', 'ByteString', 'AsyncIterable', 'Generator',
          'Iterator', 'Awaitable', 'Coroutine', 'Callable', 'Union', 'Optional', 'Literal', 'Any']
CKIND = {'_instancecheck_iterable': 'CkIterable', '_instancecheck_mapping': 'CkMapping',
         '_instancecheck_items_view': 'CkItemsView', '_instancecheck_tuple': 'CkTuple', '_instancecheck_type': 'CkType',
         '_instancecheck_generator': 'CkGenerator'}
SKIND = {'_instancecheck_union': 'SkUnion', '_instancecheck_literal': 'SkLiteral', '_instancecheck_callable': 'SkCallable'}
CLS = {'list': 'CList', 'set': 'CSet', 'dict': 'CDict', 'frozenset': 'CFrozenSet', 'tuple': 'CTuple', 'type': 'CType',
       'int': 'CInt', 'str': 'CStr', 'bool': 'CBool', 'float': 'CFloat', 'bytes': 'CBytes', 'object': 'CObject'}
CONV = {'list': 'List', 'set': 'Set', 'dict': 'Dict', 'tuple': 'Tuple', 'frozenset': 'FrozenSet', 'type': 'Type'}
EXN = {'PedanticTypeCheckException': 'PTypeCheckC', 'PedanticTypeVarMismatchException': 'PTypeVarMismatchC',
       'PedanticException': 'PedanticExceptionC', 'AttributeError': 'AttributeErrorC', 'Exception': 'ExceptionC',
       'BaseException': 'BaseExceptionC', 'TypeError': 'TypeErrorC', 'ValueError': 'ValueErrorC', 'KeyError': 'KeyErrorC',
       'IndexError': 'IndexErrorC', 'AssertionError': 'AssertionErrorC', 'RuntimeError': 'RuntimeErrorC',
       'NameError': 'NameErrorC', 'LookupError': 'LookupErrorC', 'RecursionError': 'RecursionErrorC'}


# Finding K-C02-class-name (a plain class that is CALLED like a key of the arity tables - List, Dict, Tuple, Union ... - or
# `name` is rejected for every instance).  While the repair is pending both shapes of the two functions involved are
# accepted and the shape found is emitted (plain_class_complete, newtype_test_by_class); the harness generates such class
# names only for the repaired shape.  After the `fix:` commit set this to False: the pre-fix shapes are then refused by name.
ACCEPT_PRE_FIX_CLASS_NAME_SHAPES = False


def bad(reason):
    raise Untranslatable(UNIT, reason)


def parse_stmts(text):
    return ast.parse(text).body


def same(a, b):
    if isinstance(a, list):
        return len(a) == len(b) and all(same(x, y) for x, y in zip(a, b))
    return dump(a) == dump(b)


def fun_table(name, mapping, default='None'):
    """Coq function tname -> option X from a python dict {typing name: coq value}"""
    rows = ''.join(f'    | T{k} => Some {v}\n' for k, v in mapping.items())
    return f'  {name} := fun t => match t with\n{rows}    | _ => {default}\n    end;\n' if mapping else f'  {name} := fun _ => {default};\n'


def str_dict(node, what):
    if not isinstance(node, ast.Dict):
        bad(f'{what} is not a dict literal')
    out = {}
    for k, v in zip(node.keys, node.values):
        if not (isinstance(k, ast.Constant) and isinstance(k.value, str)):
            bad(f'{what}: non-string key')
        if k.value in out:
            bad(f'{what}: duplicate key {k.value}')
        out[k.value] = v
    return out


def module_assign(tree, name):
    hits = [n for n in tree.body if isinstance(n, ast.Assign) and len(n.targets) == 1 and is_name(n.targets[0], name)]
    if len(hits) != 1:
        bad(f'expected exactly one module-level assignment of {name}, found {len(hits)}')
    return hits[0].value


def cls_set(node, what):
    if not isinstance(node, ast.Set) or not all(is_name(e) and e.id in CLS for e in node.elts):
        bad(f'{what}: not a set literal of known builtin classes')
    return [CLS[e.id] for e in node.elts]


def quant_of(call, what):
    """all(<genexp>) / any(<genexp>) / all([...]) -> ('QAll'|'QAny', comprehension node)"""
    if not (isinstance(call, ast.Call) and is_name(call.func) and call.func.id in ('all', 'any') and len(call.args) == 1
            and not call.keywords and isinstance(call.args[0], (ast.GeneratorExp, ast.ListComp))
            and len(call.args[0].generators) == 1 and not call.args[0].generators[0].ifs):
        bad(f'{what}: not all/any over one comprehension')
    return ('QAll' if call.func.id == 'all' else 'QAny'), call.args[0]


def is_inst_call(node, obj, typ):
    """_is_instance(obj=<obj>, type_=<typ>, type_vars=type_vars, context=context) in keyword or positional form"""
    if not (isinstance(node, ast.Call) and is_name(node.func, '_is_instance')):
        return False
    kw = {k.arg: k.value for k in node.keywords}
    pos = list(node.args)
    o = kw.get('obj', pos[0] if pos else None)
    t = kw.get('type_', pos[1] if len(pos) > 1 else None)
    tvs, cx = kw.get('type_vars'), kw.get('context')
    return (o is not None and t is not None and dump(o) == dump(obj) and dump(t) == dump(typ)
            and is_name(tvs, 'type_vars') and is_name(cx, 'context') and len(pos) <= 2 and set(kw) <= {'obj', 'type_', 'type_vars', 'context'})


def N(name):
    return ast.Name(id=name, ctx=ast.Load())


def index_const(node, base):
    if isinstance(node, ast.Subscript) and is_name(node.value, base) and isinstance(node.slice, ast.Constant) \
            and type(node.slice.value) is int and node.slice.value >= 0:
        return node.slice.value
    return None


def translate():
    src, tree = load(REL)
    f = {}
    # ---- registries ---------------------------------------------------------------------------------------
    loops = [n for n in tree.body if isinstance(n, ast.For)]
    if len(loops) != 1:
        bad('expected exactly one module-level for loop (registry construction)')
    lp = loops[0]
    ok_loop = (isinstance(lp.target, ast.Tuple) and [e.id for e in lp.target.elts if is_name(e)] == ['class_path', '_check_func']
               and isinstance(lp.iter, ast.Call) and isinstance(lp.iter.func, ast.Attribute) and lp.iter.func.attr == 'items'
               and same(lp.body, parse_stmts('class_ = eval(class_path)\n_ORIGIN_TYPE_CHECKERS[class_] = _check_func')) and not lp.orelse)
    if not ok_loop:
        bad('registry loop has an unrecognised shape')
    origin = {}
    for k, v in str_dict(lp.iter.func.value, '_ORIGIN_TYPE_CHECKERS source dict').items():
        if not k.startswith('typing.') or k[7:] not in TNAMES:
            bad(f'_ORIGIN_TYPE_CHECKERS: unknown class path {k}')
        if not (is_name(v) and v.id in CKIND):
            bad(f'_ORIGIN_TYPE_CHECKERS[{k}]: unknown checker')
        origin[k[7:]] = CKIND[v.id]
    special = {}
    for k, v in str_dict(module_assign(tree, '_SPECIAL_INSTANCE_CHECKERS'), '_SPECIAL_INSTANCE_CHECKERS').items():
        if k not in TNAMES:
            bad(f'_SPECIAL_INSTANCE_CHECKERS: unknown name {k}')
        if is_name(v) and v.id in SKIND:
            special[k] = SKIND[v.id]
        elif isinstance(v, ast.Lambda) and isinstance(v.body, ast.Constant) and v.body.value is True and len(v.args.args) == 4:
            special[k] = 'SkAnyTrue'
        else:
            bad(f'_SPECIAL_INSTANCE_CHECKERS[{k}]: unknown checker')
    req = {}
    for nm in ('NUM_OF_REQUIRED_TYPE_ARGS_EXACT', 'NUM_OF_REQUIRED_TYPE_ARGS_MIN'):
        d = {}
        for k, v in str_dict(module_assign(tree, nm), nm).items():
            if k not in TNAMES:
                bad(f'{nm}: unknown name {k}')
            if not (isinstance(v, ast.Constant) and type(v.value) is int and 0 <= v.value < 50):
                bad(f'{nm}[{k}]: not a small int literal')
            d[k] = f'{v.value}%nat'
        req[nm] = d
    hr = find_def(tree, '_has_required_type_arguments', UNIT)
    hb = strip_doc(hr.body)
    plain_first = parse_stmts('if isinstance(cls, type) and not isinstance(cls, types.GenericAlias):\n    return True')
    plain_class_complete = len(hb) > 0 and same([hb[0]], plain_first)
    if plain_class_complete:
        hb = hb[1:]
    elif not ACCEPT_PRE_FIX_CLASS_NAME_SHAPES:
        bad('_has_required_type_arguments looks a plain class up in the arity tables by its __name__ (pre-fix shape, finding '
            'K-C02-class-name: an instance of a user class called List / Dict / Tuple / Union ... is rejected)')
    te = parse_stmts("if base == 'Tuple' and getattr(cls, '__args__', None) == ():\n    return True")
    tuple_empty_ok = len(hb) > 2 and same([hb[2]], te)
    if tuple_empty_ok:
        hb = hb[:2] + hb[3:]
    if not same(hb, parse_stmts(
            'base: str = _get_name(cls=cls)\nnum_type_args = len(get_type_arguments(cls=cls))\n'
            'if base in NUM_OF_REQUIRED_TYPE_ARGS_EXACT:\n    return NUM_OF_REQUIRED_TYPE_ARGS_EXACT[base] == num_type_args\n'
            'elif base in NUM_OF_REQUIRED_TYPE_ARGS_MIN:\n    return NUM_OF_REQUIRED_TYPE_ARGS_MIN[base] <= num_type_args\nreturn True')):
        bad('_has_required_type_arguments changed')

    nt_test = strip_doc(find_def(tree, '_is_type_new_type', UNIT).body)
    nt_head = 'if type(type_) == typing.NewType:\n    return True\n'
    if same(nt_test, parse_stmts(nt_head + 'return False')):
        newtype_test_by_class = True
    elif same(nt_test, parse_stmts(nt_head + "return type_.__qualname__ == NewType('name', int).__qualname__")):
        if not ACCEPT_PRE_FIX_CLASS_NAME_SHAPES:
            bad('_is_type_new_type falls back to comparing __qualname__ with that of NewType("name", int) (pre-fix shape, finding '
                'K-C02-class-name: a class called `name` is taken for a NewType)')
        newtype_test_by_class = False
    else:
        bad('_is_type_new_type changed')

    # ---- _is_instance: bare builtin set, missing-arguments raise ---------------------------------------------
    isi = find_def(tree, '_is_instance', UNIT)
    body = strip_doc(isi.body)
    first_if = [s for s in body if isinstance(s, ast.If) and isinstance(s.test, ast.UnaryOp) and isinstance(s.test.op, ast.Not)
                and isinstance(s.test.operand, ast.Call) and is_name(s.test.operand.func, '_has_required_type_arguments')]
    if len(first_if) != 1 or body.index(first_if[0]) > 1 or not (len(first_if[0].body) == 1 and isinstance(first_if[0].body[0], ast.Raise)
            and isinstance(first_if[0].body[0].exc, ast.Call) and is_name(first_if[0].body[0].exc.func, 'PedanticTypeCheckException')):
        bad('_is_instance does not start with the required-type-arguments test raising PedanticTypeCheckException')
    bare = [s for s in body if isinstance(s, ast.If) and isinstance(s.test, ast.Compare) and len(s.test.ops) == 1
            and isinstance(s.test.ops[0], ast.In) and is_name(s.test.left, 'type_') and isinstance(s.test.comparators[0], ast.Set)]
    if len(bare) != 1:
        bad('_is_instance: bare-builtin membership test not found exactly once')
    if not (len(bare[0].body) == 1 and isinstance(bare[0].body[0], ast.Raise) and isinstance(bare[0].body[0].exc, ast.Call)
            and is_name(bare[0].body[0].exc.func, 'PedanticTypeCheckException') and not bare[0].orelse):
        bad('_is_instance: bare-builtin test does not raise PedanticTypeCheckException')
    bare_set = cls_set(bare[0].test.comparators[0], '_is_instance bare set')
    bi = body.index(bare[0])
    nt_new = parse_stmts(
        'if _is_type_new_type(type_):\n'
        '    if isinstance(type_.__supertype__, type) and type_.__supertype__ is not Any:\n        return isinstance(obj, type_.__supertype__)\n'
        '    return _is_instance(obj=obj, type_=type_.__supertype__, type_vars=type_vars, context=context)')
    nt_old = parse_stmts('if _is_type_new_type(type_):\n    return isinstance(obj, type_.__supertype__)')
    named = parse_stmts(
        "field_types = getattr(type_, '_field_types', None) or getattr(type_, '__annotations__', None)\n"
        "if hasattr(obj, '_asdict') and isinstance(type_, type) and field_types:\n"
        "    if not isinstance(obj, type_) or not obj._asdict().keys() == field_types.keys():\n        return False\n"
        "    return all([_is_instance(obj=obj._asdict()[k], type_=v, type_vars=type_vars, context=context) for k, v in field_types.items()])")
    if bi < 3 or not same(body[bi - 2:bi], named):
        bad('_is_instance: the named-tuple branch before the bare-builtin test changed (values with _asdict are outside the model: exact shape required)')
    if same([body[bi - 3]], nt_new):
        newtype_recurses = True
    elif same([body[bi - 3]], nt_old):
        newtype_recurses = False
    else:
        bad('_is_instance: NewType branch changed')
    # the bare test must come before the GenericAlias conversion and the final isinstance
    tail = body[body.index(bare[0]) + 1:]
    if not same(tail, parse_stmts(
            'if isinstance(type_, types.GenericAlias):\n'
            '    return _is_instance(obj=obj, type_=convert_to_typing_types(type_), type_vars=type_vars, context=context)\n'
            'try:\n    return isinstance(obj, type_)\nexcept TypeError:\n    if type(type_) == _ProtocolMeta:\n        return True\n    raise')):
        bad('_is_instance: statements after the bare-builtin test changed')

    # ---- convert_to_typing_types -------------------------------------------------------------------------------
    cv = find_def(tree, 'convert_to_typing_types', UNIT)
    cb = strip_doc(cv.body)
    if len(cb) < 6:
        bad('convert_to_typing_types too short')
    c0 = cb[0]
    if not (isinstance(c0, ast.If) and isinstance(c0.test, ast.Compare) and isinstance(c0.test.ops[0], ast.In) and is_name(c0.test.left, 'x')
            and same(c0.body, parse_stmts("raise ValueError('Missing type arguments')")) and not c0.orelse):
        bad('convert_to_typing_types: first statement is not the bare test raising ValueError')
    conv_bare = cls_set(c0.test.comparators[0], 'convert_to_typing_types bare set')
    if not same(cb[1:3], parse_stmts('if not isinstance(x, types.GenericAlias):\n    return x\norigin = x.__origin__')):
        bad('convert_to_typing_types: prologue changed')
    plain_args = parse_stmts('args = [convert_to_typing_types(a) for a in x.__args__]')
    if same([cb[3]], plain_args):
        keeps = False
    elif (isinstance(cb[3], ast.If) and same([cb[3].test], [ast.parse('origin is type').body[0].value])
          and same(cb[3].body, parse_stmts('args = [a if isinstance(a, type) else convert_to_typing_types(a) for a in x.__args__]'))
          and same(cb[3].orelse, plain_args)):
        keeps = True
    else:
        bad('convert_to_typing_types: computation of args changed')
    chain = cb[4]
    conv = []
    node = chain
    while True:
        if not (isinstance(node, ast.If) and isinstance(node.test, ast.Compare) and isinstance(node.test.ops[0], ast.Is)
                and is_name(node.test.left, 'origin') and is_name(node.test.comparators[0]) and node.test.comparators[0].id in CONV):
            bad('convert_to_typing_types: origin chain has an unrecognised link')
        b = node.test.comparators[0].id
        if not same(node.body, parse_stmts(f'return typing.{CONV[b]}[tuple(args)]')):
            bad(f'convert_to_typing_types: origin {b} is not translated to typing.{CONV[b]}[tuple(args)]')
        conv.append(CONV[b])
        if len(node.orelse) == 1 and isinstance(node.orelse[0], ast.If):
            node = node.orelse[0]
        elif not node.orelse:
            break
        else:
            bad('convert_to_typing_types: else branch in origin chain')
    if not same(cb[5:], parse_stmts('raise RuntimeError(x)')):
        bad('convert_to_typing_types: does not end with raise RuntimeError(x)')

    # ---- _check_type: outside-try branches and handler table -----------------------------------------------------
    ct = find_def(tree, '_check_type', UNIT)
    tb = strip_doc(ct.body)
    if len(tb) != 2 or not isinstance(tb[0], ast.If) or not isinstance(tb[1], ast.Try):
        bad('_check_type is not `if type_ is None .. elif str ..` followed by one try statement')
    i0 = tb[0]
    if not (same([i0.test], [ast.parse('type_ is None').body[0].value]) and len(i0.orelse) == 1 and isinstance(i0.orelse[0], ast.If)
            and same([i0.orelse[0].test], [ast.parse('isinstance(type_, str)').body[0].value]) and not i0.orelse[0].orelse):
        bad('_check_type: None/str branch tests changed')
    if same(i0.body, parse_stmts('return value is None')) or same(i0.body, parse_stmts('return value is type_')):
        none_by_eq = True       # on the model's value universe (builtin __eq__) `is None` and `== None` coincide
    elif same(i0.body, parse_stmts('return value == type_')):
        bad('_check_type: None branch compares with == (pre-fix shape: an object whose __eq__ answers True, e.g. unittest.mock.ANY, '
            'is accepted as None)')
    else:
        bad('_check_type: None branch is not `return value is None`')
    sb = i0.orelse[0].body
    if same(sb, parse_stmts('return any(class_.__name__ == type_ for class_ in type(value).__mro__)')):
        walks = True
    elif same(sb, parse_stmts('class_name = value.__class__.__name__\nbase_class_name = value.__class__.__base__.__name__\n'
                              'return class_name == type_ or base_class_name == type_')):
        bad('_check_type: string branch only looks at the class and its first base (pre-fix shape, raises AttributeError for object())')
    else:
        bad('_check_type: string branch changed')
    tr = tb[1]
    if tr.orelse or tr.finalbody or not same(tr.body, parse_stmts(
            'return _is_instance(obj=value, type_=type_, type_vars=type_vars, context=context)')):
        bad('_check_type: try body changed')
    handlers = []
    for h in tr.handlers:
        if h.type is None:
            cs = ['BaseExceptionC']
        elif is_name(h.type) and h.type.id in EXN:
            cs = [EXN[h.type.id]]
        elif isinstance(h.type, ast.Tuple) and all(is_name(e) and e.id in EXN for e in h.type.elts):
            cs = [EXN[e.id] for e in h.type.elts]
        else:
            bad('_check_type: unrecognised except clause')
        hb = h.body
        if len(hb) == 1 and isinstance(hb[0], ast.Raise) and isinstance(hb[0].exc, ast.Call) and is_name(hb[0].exc.func) \
                and hb[0].exc.func.id in EXN:
            act = f'HRaise {EXN[hb[0].exc.func.id]}'
        elif len(hb) == 1 and isinstance(hb[0], ast.Raise) and hb[0].exc is None:
            act = 'HReraiseSame'
        elif len(hb) == 1 and isinstance(hb[0], ast.Return) and isinstance(hb[0].value, ast.Constant) and type(hb[0].value.value) is bool:
            act = f'HReturn {coq_bool(hb[0].value.value)}'
        else:
            bad('_check_type: unrecognised handler body')
        handlers.append(f'({coq_list(cs)}, {act})')
    av = find_def(tree, 'assert_value_matches_type', UNIT)
    ab = strip_doc(av.body)
    if not (len(ab) == 1 and isinstance(ab[0], ast.If) and not ab[0].orelse and isinstance(ab[0].test, ast.UnaryOp)
            and isinstance(ab[0].test.op, ast.Not) and same([ab[0].test.operand], [ast.parse(
                '_check_type(value=value, type_=type_, err=err, type_vars=type_vars, context=context)').body[0].value])):
        bad('assert_value_matches_type: not `if not _check_type(<same arguments>):`')
    last = ab[0].body[-1]
    if not (isinstance(last, ast.Raise) and isinstance(last.exc, ast.Call) and is_name(last.exc.func) and last.exc.func.id in EXN):
        bad('assert_value_matches_type: does not end by raising a known exception class')
    for s in ab[0].body[:-1]:
        if not isinstance(s, (ast.Assign, ast.If)) or any(isinstance(n, (ast.Return, ast.Raise)) for n in ast.walk(s)):
            bad('assert_value_matches_type: unexpected statement before the raise')
    mismatch = EXN[last.exc.func.id]

    # ---- element-wise checkers -----------------------------------------------------------------------------------
    it = strip_doc(find_def(tree, '_instancecheck_iterable', UNIT).body)
    if not (len(it) == 2 and isinstance(it[0], ast.Assign) and is_name(it[0].targets[0], 'type_')
            and index_const(it[0].value, 'type_args') is not None and isinstance(it[1], ast.Return)):
        bad('_instancecheck_iterable: shape changed')
    it_index = index_const(it[0].value, 'type_args')
    it_q, comp = quant_of(it[1].value, '_instancecheck_iterable')
    if isinstance(comp, ast.ListComp) or not (is_name(comp.generators[0].target, 'val') and is_name(comp.generators[0].iter, 'iterable')
                                              and is_inst_call(comp.elt, N('val'), N('type_'))):
        bad('_instancecheck_iterable: comprehension changed')

    mp = strip_doc(find_def(tree, '_instancecheck_mapping', UNIT).body)
    if not same(mp, parse_stmts('return _instancecheck_items_view(mapping.items(), type_args, type_vars=type_vars, context=context)')):
        bad('_instancecheck_mapping: does not delegate to _instancecheck_items_view(mapping.items(), ...)')

    iv = strip_doc(find_def(tree, '_instancecheck_items_view', UNIT).body)
    if not (len(iv) == 2 and same([iv[0]], parse_stmts('key_type, value_type = type_args')) and isinstance(iv[1], ast.Return)):
        bad('_instancecheck_items_view: shape changed')
    iv_q, comp = quant_of(iv[1].value, '_instancecheck_items_view')
    g = comp.generators[0]
    if isinstance(comp, ast.ListComp) or not (isinstance(g.target, ast.Tuple) and [e.id for e in g.target.elts if is_name(e)] == ['key', 'val']
                                              and is_name(g.iter, 'items_view')):
        bad('_instancecheck_items_view: comprehension changed')
    kc = lambda n: is_inst_call(n, N('key'), N('key_type'))
    vc = lambda n: is_inst_call(n, N('val'), N('value_type'))
    e = comp.elt
    if isinstance(e, ast.BoolOp) and len(e.values) == 2 and kc(e.values[0]) and vc(e.values[1]):
        iv_conj = 'JAnd' if isinstance(e.op, ast.And) else 'JOr'
    elif kc(e):
        iv_conj = 'JKeyOnly'
    elif vc(e):
        iv_conj = 'JValOnly'
    else:
        bad('_instancecheck_items_view: element test changed')

    tu = strip_doc(find_def(tree, '_instancecheck_tuple', UNIT).body)
    if not tu or not (isinstance(tu[0], ast.If) and same([tu[0].test], [ast.parse('Ellipsis in type_args').body[0].value])
                      and len(tu[0].body) == 1 and isinstance(tu[0].body[0], ast.Return) and not tu[0].orelse):
        bad('_instancecheck_tuple: Ellipsis branch changed')
    ell_q, comp = quant_of(tu[0].body[0].value, '_instancecheck_tuple/Ellipsis')
    g = comp.generators[0]
    if isinstance(comp, ast.ListComp) or not (is_name(g.target, 'val') and is_name(g.iter, 'tup') and isinstance(comp.elt, ast.Call)):
        bad('_instancecheck_tuple: Ellipsis comprehension changed')
    kw = {k.arg: k.value for k in comp.elt.keywords}
    ell_index = index_const(kw.get('type_'), 'type_args')
    if ell_index is None or not is_inst_call(comp.elt, N('val'), kw['type_']):
        bad('_instancecheck_tuple: Ellipsis element test changed')
    rest = tu[1:]
    empty_branch = parse_stmts('if tup == () and type_args == ((),):\n    return True')
    if rest and same([rest[0]], empty_branch):
        rest = rest[1:]
    len_check = False
    if rest and same([rest[0]], parse_stmts('if len(tup) != len(type_args):\n    return False')):
        len_check = True
        rest = rest[1:]
    if not (len(rest) == 1 and isinstance(rest[0], ast.Return)):
        bad('_instancecheck_tuple: unrecognised statements before the final return')
    zip_q, comp = quant_of(rest[0].value, '_instancecheck_tuple/zip')
    g = comp.generators[0]
    if isinstance(comp, ast.ListComp) or not (isinstance(g.target, ast.Tuple) and [e.id for e in g.target.elts if is_name(e)] == ['val', 'type_']
                                              and same([g.iter], [ast.parse('zip(tup, type_args)').body[0].value])
                                              and is_inst_call(comp.elt, N('val'), N('type_'))):
        bad('_instancecheck_tuple: zip comprehension changed')

    un = strip_doc(find_def(tree, '_instancecheck_union', UNIT).body)
    if not same(un, parse_stmts('type_args = get_type_arguments(cls=type_)\n'
                                'return _check_union(value=value, type_args=type_args, type_vars=type_vars, context=context)')):
        bad('_instancecheck_union changed')
    cu = strip_doc(find_def(tree, '_check_union', UNIT).body)
    pre = parse_stmts(
        'args_non_type_vars = [type_arg for type_arg in type_args if not isinstance(type_arg, TypeVar)]\n'
        'args_type_vars = [type_arg for type_arg in type_args if isinstance(type_arg, TypeVar)]\n'
        'args_type_vars_bounded = [type_var for type_var in args_type_vars if type_var in type_vars]\n'
        'args_type_vars_unbounded = [type_var for type_var in args_type_vars if type_var not in args_type_vars_bounded]')
    def post_shape(loop_body):
        return parse_stmts(
            'if matches_non_type_var:\n    return True\n'
            'for bounded_type_var in args_type_vars_bounded:\n    try:\n' + loop_body +
            '    except PedanticException:\n        pass\n'
            'if not args_type_vars_unbounded:\n    return False\n'
            'if len(args_type_vars_unbounded) == 1:\n'
            '    return _is_instance(obj=value, type_=args_type_vars_unbounded[0], type_vars=type_vars, context=context)\n'
            'return True')
    call = '_is_instance(obj=value, type_=bounded_type_var, type_vars=type_vars, context=context)'
    if len(cu) != len(pre) + 1 + 5 or not same(cu[:4], pre):
        bad('_check_union: statements around the non-TypeVar match changed')
    if same(cu[5:], post_shape(f'        if {call}:\n            return True\n')):
        un_uses_result = True
    elif same(cu[5:], post_shape(f'        {call}\n        return True\n')):
        un_uses_result = False     # pre-fix shape: the verdict of the bound TypeVar is ignored
    else:
        bad('_check_union: statements after the non-TypeVar match changed')
    m = cu[4]
    if not (isinstance(m, ast.Assign) and is_name(m.targets[0], 'matches_non_type_var')):
        bad('_check_union: matches_non_type_var assignment changed')
    un_q, comp = quant_of(m.value, '_check_union')
    g = comp.generators[0]
    if not (isinstance(comp, ast.ListComp) and is_name(g.target, 'typ') and is_name(g.iter, 'args_non_type_vars')
            and is_inst_call(comp.elt, N('value'), N('typ'))):
        bad('_check_union: member comprehension changed')

    cl = strip_doc(find_def(tree, '_instancecheck_callable', UNIT).body)
    pre_c = parse_stmts('if value is None:\n    return False\nif _is_lambda(obj=value):\n    return True\n'
                        'param_types, ret_type = get_type_arguments(cls=type_)')
    if not (len(cl) > 4 and same(cl[:3], pre_c) and isinstance(cl[3], ast.Try) and not cl[3].orelse and not cl[3].finalbody
            and same(cl[3].body, parse_stmts('sig = inspect.signature(obj=value)')) and len(cl[3].handlers) == 1
            and same(cl[3].handlers[0].body, parse_stmts('return False'))):
        bad('_instancecheck_callable: prologue up to inspect.signature changed')
    ht = cl[3].handlers[0].type
    if is_name(ht) and ht.id in EXN:
        sig_catches = [EXN[ht.id]]
    elif isinstance(ht, ast.Tuple) and all(is_name(e) and e.id in EXN for e in ht.elts):
        sig_catches = [EXN[e.id] for e in ht.elts]
    else:
        bad('_instancecheck_callable: unrecognised except clause around inspect.signature')

    li = strip_doc(find_def(tree, '_instancecheck_literal', UNIT).body)
    if same(li, parse_stmts('type_args = get_type_arguments(cls=type_)\nreturn value in type_args')):
        lit_in = True
    elif same(li, parse_stmts('type_args = get_type_arguments(cls=type_)\nreturn value not in type_args')):
        lit_in = False
    else:
        bad('_instancecheck_literal changed')

    ty = strip_doc(find_def(tree, '_instancecheck_type', UNIT).body)
    if not (len(ty) == 3 and isinstance(ty[0], ast.Assign) and is_name(ty[0].targets[0], 'type_')
            and index_const(ty[0].value, 'type_') is not None
            and same(ty[1:], parse_stmts('if type_ == Any or isinstance(type_, typing.TypeVar):\n    return True\n'
                                         'return _is_subtype(sub_type=value, super_type=type_, context=context)'))):
        bad('_instancecheck_type changed')
    ty_index = index_const(ty[0].value, 'type_')

    out = header('t_checker.py', ['From PV Require Import Base.Exn Base.Values Base.Ann Model.CheckerCfg.'])
    out += f'Definition src_check_types : string := {coq_string(REL + " sha256=" + __import__("hashlib").sha256(src.encode()).hexdigest()[:16])}.\n'
    out += 'Definition checker_cfg : checker_cfg := {|\n'
    out += fun_table('origin_checker', origin)
    out += fun_table('special_checker', special)
    out += fun_table('req_exact', req['NUM_OF_REQUIRED_TYPE_ARGS_EXACT'])
    out += fun_table('req_min', req['NUM_OF_REQUIRED_TYPE_ARGS_MIN'])
    out += f'  bare_builtins := {coq_list(bare_set)};\n  conv_bare := {coq_list(conv_bare)};\n'
    out += f'  conv_origins := {coq_list(["T" + c for c in conv])};\n'
    out += f'  newtype_recurses := {coq_bool(newtype_recurses)};\n  tuple_empty_ok := {coq_bool(tuple_empty_ok)};\n  conv_type_keeps_classes := {coq_bool(keeps)};\n  sig_catches := {coq_list(sig_catches)};\n'
    out += f'  handlers := {coq_list(handlers)};\n  mismatch_raises := {mismatch};\n'
    out += f'  it_quant := {it_q};\n  it_index := {it_index}%nat;\n  iv_quant := {iv_q};\n  iv_conj := {iv_conj};\n  mp_via_items := true;\n'
    out += f'  tu_ell_quant := {ell_q};\n  tu_ell_index := {ell_index}%nat;\n  tu_len_check := {coq_bool(len_check)};\n  tu_zip_quant := {zip_q};\n'
    out += f'  un_quant := {un_q};\n  un_bound_uses_result := {coq_bool(un_uses_result)};\n  lit_in := {coq_bool(lit_in)};\n  ty_index := {ty_index}%nat;\n'
    out += f'  str_walks_mro := {coq_bool(walks)};\n  none_by_eq := {coq_bool(none_by_eq)};\n  plain_class_complete := {coq_bool(plain_class_complete)} |}}.\n'
    # not consulted by the model (it has no class names): read by the harness, which calls a user class `name` only for the shape
    # that recognises a NewType by its class alone
    out += f'Definition newtype_test_by_class : bool := {coq_bool(newtype_test_by_class)}.\n'
    return {UNIT: out}
