"""TypeVarShape: the code that decides how a TypeVar is matched and where its binding table lives
   pedantic/type_checking_logic/check_types.py      TypeVar branch of _is_instance, _matches_bound_type
   pedantic/models/function_call.py                 FunctionCall.__init__ (table of a call), property type_vars
   pedantic/decorators/class_decorators.py          _add_type_var_attr_and_method_to_class.type_vars
   pedantic/type_checking_logic/check_generic_classes.py   check_instance_of_generic_class_and_get_type_vars,
                                                           is_instance_of_generic_class
-> Gen/TypeVarShape.v (a `tv_shape` record, Model/TypeVarShapeCfg.v).

Statement by statement against a whitelist of variants; the variant decides a field of the record (it is
Props/C07.v that says which record the models were written for).  Anything else fails closed."""
import ast
from common import *

UNIT = 'TypeVarShape'
UNITS = [UNIT]
CT = 'pedantic/type_checking_logic/check_types.py'
FC = 'pedantic/models/function_call.py'
CD = 'pedantic/decorators/class_decorators.py'
CG = 'pedantic/type_checking_logic/check_generic_classes.py'


def bad(reason):
    raise Untranslatable(UNIT, reason)


def stmt(src):
    return ast.parse(src).body[0]


def expr(src):
    return ast.parse(src, mode='eval').body


def same(node, src, what):
    ref = stmt(src) if isinstance(node, ast.stmt) else expr(src)
    if dump(node) != dump(ref):
        bad(f'{what}: unrecognised shape at line {getattr(node, "lineno", "?")} (expected `{src.strip()}`)')


def variant(node, table, what):
    d = dump(node)
    for src, val in table:
        ref = stmt(src) if isinstance(node, ast.stmt) else expr(src)
        if d == dump(ref):
            return val
    bad(f'{what}: unrecognised shape at line {getattr(node, "lineno", "?")}')


def raises_mismatch(node):
    """`raise PedanticTypeVarMismatchException(<message>)`"""
    return (isinstance(node, ast.Raise) and node.cause is None and isinstance(node.exc, ast.Call)
            and is_name(node.exc.func, 'PedanticTypeVarMismatchException') and len(node.exc.args) == 1 and not node.exc.keywords)


def typevar_branch():
    src, tree = load(CT)
    f = find_def(tree, '_is_instance', UNIT)
    hits = [s for s in f.body if isinstance(s, ast.If) and dump(s.test) == dump(expr('isinstance(type_, TypeVar)'))]
    if len(hits) != 1 or hits[0].orelse:
        bad('_is_instance: expected exactly one `if isinstance(type_, TypeVar):` without else')
    b = hits[0].body
    if len(b) != 7:
        bad(f'_is_instance/TypeVar branch: {len(b)} statements, 7 expected')
    same(b[0], 'constraints = type_.__constraints__', 'TypeVar branch, constraints')
    out = {}
    out['constraints'] = variant(b[1], [
        ('if len(constraints) > 0 and type(obj) not in constraints:\n    return False', 'ByExactClass'),
        ('if len(constraints) > 0 and not isinstance(obj, constraints):\n    return False', 'ByIsInstance')], 'constraints test')
    same(b[2], 'if _is_forward_ref(type_=type_.__bound__):\n'
               '    resolved = resolve_forward_ref(type_.__bound__.__forward_arg__, context=context)\n'
               '    return _is_instance(obj=obj, type_=resolved, type_vars=type_vars, context=context)', 'forward-ref bound')
    out['bound'] = variant(b[3], [
        ('if type_.__bound__ is not None and not isinstance(obj, type_.__bound__):\n    return False', 'ByIsInstance'),
        ('if type_.__bound__ is not None and type(obj) is not type_.__bound__:\n    return False', 'ByExactClass'),
        ('if type_.__bound__ is not None and type(obj) != type_.__bound__:\n    return False', 'ByExactClass')], 'bound test')
    c = b[4]
    if not (isinstance(c, ast.If) and dump(c.test) == dump(expr('type_ in type_vars')) and not c.orelse and len(c.body) == 2):
        bad('TypeVar branch: `if type_ in type_vars:` block not recognised')
    same(c.body[0], 'other = type_vars[type_]', 'binding lookup')
    v = c.body[1]
    if not (isinstance(v, ast.If) and dump(v.test) == dump(expr('type_.__contravariant__')) and len(v.body) == 1 and len(v.orelse) == 1):
        bad('TypeVar branch: variance dispatch not recognised')
    contra, cov = v.body[0], v.orelse[0]
    for n in (contra, cov):
        if not (isinstance(n, ast.If) and not n.orelse and len(n.body) == 1):
            bad('TypeVar branch: conflict test not recognised')
    out['contra'] = variant(contra.test, [
        ('not _is_subtype(sub_type=other, super_type=obj.__class__)', 'ByIsSubclass'),
        ('not _is_subtype(sub_type=obj.__class__, super_type=other)', 'ByIsInstance')], 'contravariant test')
    same(cov.test, 'not _matches_bound_type(obj=obj, bound_type=other, type_vars=type_vars, context=context)', 'covariant test')
    out['mismatch'] = raises_mismatch(contra.body[0]) and raises_mismatch(cov.body[0])
    if not out['mismatch'] and not all(isinstance(n.body[0], (ast.Raise, ast.Return)) for n in (contra, cov)):
        bad('TypeVar branch: conflict action not recognised')
    out['rebinds'] = variant(b[5], [
        ('type_vars[type_] = type(obj)', True),
        ('if type_ not in type_vars:\n    type_vars[type_] = type(obj)', False),
        ('type_vars.setdefault(type_, type(obj))', False)], 'rebinding')
    same(b[6], 'return True', 'TypeVar branch result')
    # _matches_bound_type
    m = find_def(tree, '_matches_bound_type', UNIT)
    mb = strip_doc(m.body)
    if len(mb) != 2 or not (isinstance(mb[0], ast.If) and not mb[0].orelse and len(mb[0].body) == 1 and isinstance(mb[0].body[0], ast.Return)):
        bad('_matches_bound_type: shape not recognised')
    out['any_excluded'] = variant(mb[0].test, [
        ('isinstance(bound_type, type) and type(bound_type) != _ProtocolMeta and bound_type is not Any', True),
        ('isinstance(bound_type, type) and type(bound_type) != _ProtocolMeta', False)], '_matches_bound_type guard')
    out['bound_class'] = variant(mb[0].body[0].value, [
        ('isinstance(obj, bound_type)', 'ByIsInstance'), ('type(obj) is bound_type', 'ByExactClass'),
        ('type(obj) == bound_type', 'ByExactClass')], '_matches_bound_type class test')
    same(mb[1], 'return _is_instance(obj=obj, type_=bound_type, type_vars=type_vars, context=context)', '_matches_bound_type fallback')
    return out, provenance(CT, src, hits[0]) + ' ; ' + provenance(CT, src, m)


def function_call():
    src, tree = load(FC)
    cls = find_class(tree, 'FunctionCall', UNIT)
    init = find_in(cls, '__init__', UNIT)
    def self_attr(t):
        return t.attr if isinstance(t, ast.Attribute) and is_name(t.value, 'self') else None
    wanted = ('_type_vars', '_get_type_vars', '_instance')
    assigns = [s for s in init.body if isinstance(s, ast.Assign) and len(s.targets) == 1 and self_attr(s.targets[0]) in wanted]
    got = {self_attr(s.targets[0]): s for s in assigns}
    if len(assigns) != 3 or len(got) != 3:
        bad('FunctionCall.__init__: assignments to _type_vars / _get_type_vars / _instance not recognised')
    fresh = variant(got['_type_vars'], [('self._type_vars = dict()', True), ('self._type_vars = {}', True)],
                    'FunctionCall._type_vars')
    same(got['_get_type_vars'], 'self._get_type_vars = lambda: self._type_vars', 'FunctionCall._get_type_vars')
    same(got['_instance'], 'self._instance = self.args[0] if self.func.is_instance_method else None',
         'FunctionCall._instance')
    # nothing else may write the table of the call
    tvp = find_in(cls, 'type_vars', UNIT)
    inside = set(id(x) for x in ast.walk(tvp)) | set(id(x) for s_ in assigns for x in ast.walk(s_))
    for n in ast.walk(cls):
        if isinstance(n, ast.Attribute) and isinstance(n.ctx, ast.Store) and n.attr in ('_type_vars', '_get_type_vars') \
                and id(n) not in inside:
            bad(f'FunctionCall: unexpected write to {n.attr} at line {n.lineno}')
    tv = find_in(cls, 'type_vars', UNIT)
    body = strip_doc(tv.body)
    ref = ast.parse(
        'if hasattr(self._instance, TYPE_VAR_METHOD_NAME):\n'
        '    self._get_type_vars = getattr(self._instance, TYPE_VAR_METHOD_NAME)\n'
        'res = self._get_type_vars()\n'
        'if TYPE_VAR_SELF not in res:\n'
        '    res[TYPE_VAR_SELF] = self.clazz\n'
        'return res\n').body
    if [dump(s) for s in body] != [dump(s) for s in ref]:
        bad('FunctionCall.type_vars: shape not recognised')
    # every check of a value - named parameters, the values collected by *args / **kwargs, the result - obtains the table
    # through the PROPERTY at the call (inside the loops), never through a hoisted local or the backing field
    checks = []
    for name in ('_check_type_param', '_check_types_args', '_check_types_kwargs', '_check_types_return'):
        fn = find_in(cls, name, UNIT)
        calls = [n for n in ast.walk(fn) if isinstance(n, ast.Call) and is_name(n.func, 'assert_value_matches_type')]
        if len(calls) != 1:
            bad(f'FunctionCall.{name}: expected exactly one assert_value_matches_type call, found {len(calls)}')
        kws = [k for k in calls[0].keywords if k.arg == 'type_vars']
        if len(kws) != 1 or calls[0].args:
            bad(f'FunctionCall.{name}: the check is not called with a type_vars keyword')
        checks.append(variant(kws[0].value, [('self.type_vars', True), ('self._type_vars', False), ('type_vars', False),
                                             ('cached_type_vars', False)], f'FunctionCall.{name}: table argument'))
        if name in ('_check_types_args', '_check_types_kwargs'):
            loops = [n for n in fn.body if isinstance(n, ast.For)]
            if len(loops) != 1 or not any(c is calls[0] for c in ast.walk(loops[0])):
                bad(f'FunctionCall.{name}: the check is not inside the single loop over the collected values')
    gen = [n for n in ast.walk(find_in(cls, '_check_types_return', UNIT)) if isinstance(n, ast.Call) and is_name(n.func, 'GeneratorWrapper')]
    if len(gen) != 1 or [dump(k.value) for k in gen[0].keywords if k.arg == 'type_vars'] != [dump(expr('self.type_vars'))]:
        bad('FunctionCall._check_types_return: GeneratorWrapper is not given self.type_vars')
    return {'fresh': fresh, 'uses_method': True, 'per_check': all(checks)}, provenance(FC, src, init) + ' ; ' + provenance(FC, src, tv)


def class_table():
    src, tree = load(CD)
    outer = find_def(tree, '_add_type_var_attr_and_method_to_class', UNIT)
    body = strip_doc(outer.body)
    if len(body) != 2 or not isinstance(body[0], ast.FunctionDef) or body[0].name != 'type_vars':
        bad('_add_type_var_attr_and_method_to_class: shape not recognised')
    same(body[1], 'setattr(cls, TYPE_VAR_METHOD_NAME, type_vars)', 'installation of the method')
    f = body[0]
    if [a.arg for a in f.args.args] != ['self']:
        bad('type_vars: parameters changed')
    fb = strip_doc(f.body)
    if len(fb) != 3:
        bad('type_vars: 3 statements expected')
    same(fb[0], 't_vars = {TYPE_VAR_SELF: cls}', 'type_vars: Self entry')
    c = fb[1]
    if not (isinstance(c, ast.If) and dump(c.test) == dump(expr('is_instance_of_generic_class(instance=self)'))
            and len(c.body) == 3 and len(c.orelse) == 1):
        bad('type_vars: generic / non-generic dispatch not recognised')
    on_instance = variant(c.body[0], [
        ('type_vars_fifo = getattr(self, TYPE_VAR_ATTR_NAME, dict())', True),
        ('type_vars_fifo = getattr(cls, TYPE_VAR_ATTR_NAME, dict())', False),
        ('type_vars_fifo = getattr(type(self), TYPE_VAR_ATTR_NAME, dict())', False)], 'type_vars: stored table')
    same(c.body[1], 'type_vars_generics = check_instance_of_generic_class_and_get_type_vars(instance=self)', 'type_vars: generics')
    st = c.body[2]
    if isinstance(st, ast.Expr) and isinstance(st.value, ast.Call) and is_name(st.value.func, 'setattr'):
        bad('type_vars: the table is stored with setattr(), which goes through a __setattr__ the class defines itself (pre-fix shape of '
            'K-C08-table-stored-through-user-setattr: frozen dataclass above @pedantic_class -> FrozenInstanceError, own __setattr__ -> RecursionError)')
    if not (isinstance(st, ast.Expr) and isinstance(st.value, ast.Call) and dump(st.value.func) == dump(expr('object.__setattr__'))
            and len(st.value.args) == 3 and not st.value.keywords
            and dump(st.value.args[1]) == dump(expr('TYPE_VAR_ATTR_NAME')) and isinstance(st.value.args[2], ast.Dict)
            and all(k is None for k in st.value.args[2].keys)):
        bad('type_vars: merge statement not recognised')
    on_instance2 = variant(st.value.args[0], [('self', True), ('cls', False), ('type(self)', False)], 'type_vars: where the table is stored')
    names = {'type_vars_fifo': 'PartStored', 'type_vars_generics': 'PartGenerics', 't_vars': 'PartSelf'}
    order = []
    for v in st.value.args[2].values:
        if not (is_name(v) and v.id in names):
            bad('type_vars: unknown part in the merged table')
        order.append(names[v.id])
    fresh = variant(c.orelse[0], [('object.__setattr__(self, TYPE_VAR_ATTR_NAME, t_vars)', True)], 'type_vars: non-generic branch')
    ret = variant(fb[2], [('return getattr(self, TYPE_VAR_ATTR_NAME)', True)], 'type_vars: result')
    return {'on_instance': on_instance and on_instance2 and ret, 'order': order, 'nongeneric_fresh': fresh}, provenance(CD, src, outer)


def generics():
    src, tree = load(CG)
    f = find_def(tree, 'check_instance_of_generic_class_and_get_type_vars', UNIT)
    body = strip_doc(f.body)
    def ref(tvline):
        return ast.parse(
            'type_vars = dict()\n'
            '_assert_constructor_called_with_generics(instance=instance)\n'
            "if not hasattr(instance, '__orig_class__'):\n"
            '    return type_vars\n'
            + tvline +
            'actual_types = get_type_arguments(instance.__orig_class__)\n'
            'for i, type_var in enumerate(type_variables):\n'
            '    type_vars[type_var] = actual_types[i]\n'
            'return type_vars\n').body
    # the class's own parameters, in declaration order (for `class C(Generic[T1..Tn])` both spellings coincide)
    variants = ['type_variables = type(instance).__parameters__\n',
                'type_variables = get_type_arguments(type(instance).__orig_bases__[0])\n']
    if not any([dump(s) for s in body] == [dump(s) for s in ref(v)] for v in variants):
        bad('check_instance_of_generic_class_and_get_type_vars: shape not recognised')
    g = find_def(tree, 'is_instance_of_generic_class', UNIT)
    gb = strip_doc(g.body)
    if len(gb) != 1:
        bad('is_instance_of_generic_class: shape not recognised')
    by_params = variant(gb[0], [
        ("return Generic in instance.__class__.__bases__ or len(getattr(instance.__class__, '__parameters__', ())) > 0", True),
        ('return Generic in instance.__class__.__bases__', False)], 'is_instance_of_generic_class')
    return {'guard': True, 'positional': True, 'by_params': by_params}, provenance(CG, src, f) + ' ; ' + provenance(CG, src, g)


def translate():
    tb, p1 = typevar_branch()
    fc, p2 = function_call()
    ct, p3 = class_table()
    ge, p4 = generics()
    text = header('t_typevar.py', ['From PV Require Import Model.TypeVarShapeCfg.'])
    text += f'Definition src_typevar_shape : string := {coq_string(" ; ".join([p1, p2, p3, p4]))}.\n'
    text += ('Definition tv_shape_gen : tv_shape := {|\n'
             f'  sh_constraints := {tb["constraints"]};\n  sh_bound := {tb["bound"]};\n  sh_bound_class := {tb["bound_class"]};\n'
             f'  sh_bound_any_excluded := {coq_bool(tb["any_excluded"])};\n  sh_contra := {tb["contra"]};\n'
             f'  sh_conflict_raises_mismatch := {coq_bool(tb["mismatch"])};\n  sh_rebinds_latest := {coq_bool(tb["rebinds"])};\n'
             f'  sh_call_table_fresh := {coq_bool(fc["fresh"])};\n  sh_call_uses_instance_method := {coq_bool(fc["uses_method"])};\n'
             f'  sh_table_on_instance := {coq_bool(ct["on_instance"])};\n  sh_merge_order := {coq_list(ct["order"])};\n'
             f'  sh_nongeneric_fresh := {coq_bool(ct["nongeneric_fresh"])};\n  sh_orig_class_guard := {coq_bool(ge["guard"])};\n'
             f'  sh_generics_positional := {coq_bool(ge["positional"])};\n  sh_generic_by_parameters := {coq_bool(ge["by_params"])};\n  sh_every_check_fetches_table := {coq_bool(fc["per_check"])} |}}.\n')
    return {UNIT: text}
