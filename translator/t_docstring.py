"""T/docstring: the docstring check of pedantic -> Gen/Docstring.v  (unit `Docstring`, property C19)

Sources
  pedantic/decorators/fn_deco_pedantic.py        pedantic.decorator: the condition under which _check_docstring
                                                 is called (expression AST), where it is called (decoration time),
                                                 pedantic_require_docstring
  pedantic/decorators/class_decorators.py        pedantic_class_require_docstring
  pedantic/type_checking_logic/check_docstring.py
        _assert_docstring_is_complete            ordered `if <cond>: raise <class>` statements
        _check_docstring                         call of the former, the loop over the annotations, the statements
                                                 before the if/elif, the if/elif chain (return branch / parameter branch)
        _parse_documented_type                   the `type_ is None` guard, the `'typing.' in type_` guard, `eval(type_, globals(), context)`,
                                                 the except clauses (caught class -> raised class)
        _update_context                          pinned by a structural hash (hand-modelled as Model.Docstring.upd)
  pedantic/models/decorated_function.py          the accessors annotations / docstring / raw_doc

Every statement is mapped one to one onto the program syntax of coq/Model/Docstring.v (`dprog`); the
expressions go through a whitelist (`bx`, `vx`).  Anything else raises Untranslatable: fail closed."""
import ast, hashlib
from common import *

UNIT = 'Docstring'
UNITS = [UNIT]
R_PED = 'pedantic/decorators/fn_deco_pedantic.py'
R_CLS = 'pedantic/decorators/class_decorators.py'
R_DOC = 'pedantic/type_checking_logic/check_docstring.py'
R_DF = 'pedantic/models/decorated_function.py'

EXC = {
    'PedanticDocstringException': 'PDocstringC', 'PedanticException': 'PedanticExceptionC',
    'PedanticTypeCheckException': 'PTypeCheckC', 'PedanticOverrideException': 'POverrideC',
    'PedanticCallWithArgsException': 'PCallWithArgsC', 'PedanticTypeVarMismatchException': 'PTypeVarMismatchC',
    'BaseException': 'BaseExceptionC', 'Exception': 'ExceptionC', 'ValueError': 'ValueErrorC', 'TypeError': 'TypeErrorC',
    'LookupError': 'LookupErrorC', 'IndexError': 'IndexErrorC', 'KeyError': 'KeyErrorC', 'AttributeError': 'AttributeErrorC',
    'AssertionError': 'AssertionErrorC', 'RuntimeError': 'RuntimeErrorC', 'NotImplementedError': 'NotImplementedErrorC',
    'NameError': 'NameErrorC', 'SyntaxError': 'SyntaxErrorC', 'UnboundLocalError': 'UnboundLocalErrorC',
}
CMP = {ast.Eq: 'CEq', ast.NotEq: 'CNe', ast.Lt: 'CLt', ast.LtE: 'CLe', ast.Gt: 'CGt', ast.GtE: 'CGe'}


def bad(reason):
    raise Untranslatable(UNIT, reason)


def parse_expr(text):
    return ast.parse(text, mode='eval').body


def same(node, text):
    return dump(node) == dump(parse_expr(text))


class Env:
    """names of one function body: F the DecoratedFunction variable, aliases of F.docstring, value aliases,
    the loop variable, the `expected_type` alias, the register names"""
    def __init__(self, f):
        self.f = f
        self.doc = set()         # names bound to F.docstring
        self.vals = {}           # local name -> vx text
        self.key = None          # loop variable
        self.expected = set()    # names bound to F.annotations[key]
        self.actual = set()      # names bound to the result of _parse_documented_type
        self.filtered = None     # name of the filtered parameter list
        self.picked = None       # name of the picked documented parameter
        self.require = None      # name of the require_docstring parameter
        self.ignored = set()     # err, context

    def is_docstring(self, n):
        return (isinstance(n, ast.Attribute) and n.attr == 'docstring' and is_name(n.value, self.f)) or \
               (isinstance(n, ast.Name) and n.id in self.doc)

    def is_annotations(self, n):
        return isinstance(n, ast.Attribute) and n.attr == 'annotations' and is_name(n.value, self.f)

    def is_expected(self, n):
        if isinstance(n, ast.Name) and n.id in self.expected:
            return True
        return (self.key is not None and isinstance(n, ast.Subscript) and self.is_annotations(n.value)
                and is_name(n.slice, self.key))

    def is_ann_return(self, n):
        return (isinstance(n, ast.Subscript) and self.is_annotations(n.value)
                and isinstance(n.slice, ast.Constant) and n.slice.value == 'return')

    def is_returns(self, n):
        return isinstance(n, ast.Attribute) and n.attr == 'returns' and self.is_docstring(n.value)

    def is_returns_args(self, n):
        return isinstance(n, ast.Attribute) and n.attr == 'args' and self.is_returns(n.value)

    def is_doc_params(self, n):
        return isinstance(n, ast.Attribute) and n.attr == 'params' and self.is_docstring(n.value)


def is_len(n):
    return isinstance(n, ast.Call) and is_name(n.func, 'len') and len(n.args) == 1 and not n.keywords


def vx(env, n):
    """int/bool valued expression -> vx, or None when it is not one"""
    if isinstance(n, ast.Constant) and type(n.value) is int:
        return f'(VInt {coq_Z(n.value)})'
    if isinstance(n, ast.Constant) and type(n.value) is bool:
        return f'(VInt {coq_Z(int(n.value))})'
    if isinstance(n, ast.Name):
        if env.require is not None and n.id == env.require:
            return 'VRequire'
        if n.id in env.vals:
            return env.vals[n.id]
        return None
    if is_len(n):
        a = n.args[0]
        if env.is_doc_params(a):
            return 'VLenDocParams'
        if env.is_returns_args(a):
            return 'VLenReturnsArgs'
        # len([a for a in F.annotations if a != 'return'])
        if isinstance(a, ast.ListComp) and len(a.generators) == 1:
            g = a.generators[0]
            if (isinstance(g.target, ast.Name) and is_name(a.elt, g.target.id) and env.is_annotations(g.iter)
                    and not g.is_async and len(g.ifs) == 1 and same(g.ifs[0], f"{g.target.id} != 'return'")):
                return 'VNumTaken'
        return None
    if isinstance(n, ast.BoolOp) and isinstance(n.op, ast.Or):
        parts = [vx(env, v) for v in n.values]
        if any(p is None for p in parts):
            return None
        out = parts[-1]
        for p in reversed(parts[:-1]):
            out = f'(VOrV {p} {out})'
        return out
    return None


def treg(env, n):
    if env.is_expected(n):
        return 'RExpected'
    if isinstance(n, ast.Name) and n.id in env.actual:
        return 'RActual'
    return None


def bx(env, n):
    """condition -> bx (fail closed)"""
    if isinstance(n, ast.BoolOp):
        parts = [bx(env, v) for v in n.values]
        op = 'BAnd' if isinstance(n.op, ast.And) else 'BOr'
        out = parts[-1]
        for p in reversed(parts[:-1]):
            out = f'({op} {p} {out})'
        return out
    if isinstance(n, ast.UnaryOp) and isinstance(n.op, ast.Not):
        return f'(BNot {bx(env, n.operand)})'
    if isinstance(n, ast.Name):
        if env.filtered is not None and n.id == env.filtered:
            return 'BFilteredNonEmpty'
        v = vx(env, n)
        if v is not None:                       # truth value of an int / bool
            return f'(BCmp CNe {v} (VInt 0%Z))'
        bad(f'line {n.lineno}: name {n.id} used as a condition is not recognised')
    if isinstance(n, ast.Compare) and len(n.ops) == 1:
        op, l, r = n.ops[0], n.left, n.comparators[0]
        neg = isinstance(op, (ast.IsNot, ast.NotEq, ast.NotIn))

        def wrap(atom):
            return f'(BNot {atom})' if neg else atom
        if isinstance(op, (ast.Is, ast.IsNot)) and isinstance(r, ast.Constant) and r.value is None:
            if env.is_ann_return(l):
                return wrap('BAnnReturnIsNone')
            if env.is_expected(l):
                return wrap('BExpectedIsNone')
            if env.is_returns(l):
                return wrap('BReturnsIsNone')
            if env.is_docstring(l):
                return wrap('BDocstringIsNone')
            if isinstance(l, ast.Attribute) and l.attr == 'raw_doc' and is_name(l.value, env.f):
                return wrap('BRawDocIsNone')
            bad(f'line {n.lineno}: `is None` test on an unrecognised operand')
        if isinstance(op, (ast.In, ast.NotIn)):
            if isinstance(l, ast.Constant) and l.value == 'return' and env.is_annotations(r):
                return wrap('BReturnInAnn')
            bad(f'line {n.lineno}: unrecognised membership test')
        if isinstance(op, (ast.Eq, ast.NotEq)):
            if isinstance(l, ast.Attribute) and l.attr == 'raw_doc' and is_name(l.value, env.f) \
                    and isinstance(r, ast.Constant) and r.value == '':
                return wrap('BRawDocIsEmpty')
            if env.key is not None and is_name(l, env.key) and isinstance(r, ast.Constant) and r.value == 'return':
                return wrap('BKeyIsReturn')
            a, b = treg(env, l), treg(env, r)
            if a is not None and b is not None:
                return wrap(f'(BTyEq {a} {b})')
        if type(op) in CMP:
            a, b = vx(env, l), vx(env, r)
            if a is not None and b is not None:
                return f'(BCmp {CMP[type(op)]} {a} {b})'
        bad(f'line {n.lineno}: unrecognised comparison {ast.unparse(n)!r}')
    bad(f'line {getattr(n, "lineno", "?")}: unrecognised condition {ast.unparse(n)!r}')


def raised_class(st):
    """`raise X(...)` / `raise X` -> Coq name of the class"""
    if not isinstance(st, ast.Raise) or st.exc is None or st.cause is not None:
        bad(f'line {st.lineno}: expected `raise <class>(...)`')
    e = st.exc
    name = e.func.id if isinstance(e, ast.Call) and isinstance(e.func, ast.Name) else e.id if isinstance(e, ast.Name) else None
    if name not in EXC:
        bad(f'line {st.lineno}: raise of an unknown exception class {name}')
    return EXC[name]


def if_raise(env, st):
    """`if c: raise X(...)` without else -> SIfRaise, else None"""
    if isinstance(st, ast.If) and not st.orelse and len(st.body) == 1 and isinstance(st.body[0], ast.Raise):
        return f'SIfRaise {bx(env, st.test)} {raised_class(st.body[0])}'
    return None


def kwargs_of(call, names):
    """keyword-only call with exactly these keyword names -> dict, else None"""
    if call.args or sorted(k.arg or '' for k in call.keywords) != sorted(names):
        return None
    return {k.arg: k.value for k in call.keywords}


# ------------------------------------------------------------------------------------------------
def tr_complete(src, tree):
    f = find_def(tree, '_assert_docstring_is_complete', UNIT)
    if [a.arg for a in f.args.args] != ['func'] or f.args.vararg or f.args.kwarg or f.args.kwonlyargs:
        bad('signature of _assert_docstring_is_complete changed')
    env = Env('func')
    out = []
    for st in strip_doc(f.body):
        s = if_raise(env, st)
        if s is not None:
            out.append(s)
            continue
        if isinstance(st, ast.Assign) and len(st.targets) == 1 and is_name(st.targets[0]):
            v = vx(env, st.value)
            if v is None:
                bad(f'_assert_docstring_is_complete line {st.lineno}: unrecognised assignment')
            env.vals[st.targets[0].id] = v
            continue
        bad(f'_assert_docstring_is_complete line {st.lineno}: unrecognised statement {type(st).__name__}')
    return out, f


def tr_branch_body(env, body, where):
    out = []
    for st in body:
        s = if_raise(env, st)
        if s is not None:
            out.append(s)
            continue
        if isinstance(st, ast.Assign) and len(st.targets) == 1 and is_name(st.targets[0]):
            tgt, v = st.targets[0].id, st.value
            # X = _parse_documented_type(type_=SRC, context=context, err=err)
            if isinstance(v, ast.Call) and is_name(v.func, '_parse_documented_type'):
                kw = kwargs_of(v, ['type_', 'context', 'err'])
                if kw is None or not is_name(kw['context'], 'context') or not is_name(kw['err'], 'err'):
                    bad(f'{where} line {st.lineno}: unexpected arguments of _parse_documented_type')
                s_ = kw['type_']
                if isinstance(s_, ast.Subscript) and env.is_returns_args(s_.value) and isinstance(s_.slice, ast.Constant) \
                        and type(s_.slice.value) is int and s_.slice.value >= 0:
                    out.append(f'SParse (PReturnsArg {s_.slice.value})')
                elif isinstance(s_, ast.Attribute) and s_.attr == 'type_name' and env.picked and is_name(s_.value, env.picked):
                    out.append('SParse PPickedType')
                else:
                    bad(f'{where} line {st.lineno}: unrecognised source of the documented type')
                env.actual.add(tgt)
                continue
            # documented_params = list(filter(lambda p, a=annotation: p.arg_name == a, doc.params))
            if isinstance(v, ast.Call) and is_name(v.func, 'list') and len(v.args) == 1 and not v.keywords:
                c = v.args[0]
                ok = (isinstance(c, ast.Call) and is_name(c.func, 'filter') and len(c.args) == 2 and not c.keywords
                      and env.is_doc_params(c.args[1]) and isinstance(c.args[0], ast.Lambda))
                if ok:
                    lam = c.args[0]
                    a = lam.args
                    ok = (len(a.args) == 2 and len(a.defaults) == 1 and is_name(a.defaults[0], env.key)
                          and not a.vararg and not a.kwarg and not a.kwonlyargs
                          and same(lam.body, f'{a.args[0].arg}.arg_name == {a.args[1].arg}'))
                if not ok:
                    bad(f'{where} line {st.lineno}: the selection of the documented parameters is not '
                        f'`list(filter(lambda p, a=<loop variable>: p.arg_name == a, <docstring>.params))`')
                env.filtered = tgt
                out.append('SFilterByName')
                continue
            # docstring_param = documented_params[i]
            if isinstance(v, ast.Subscript) and env.filtered and is_name(v.value, env.filtered) \
                    and isinstance(v.slice, ast.Constant) and type(v.slice.value) is int and v.slice.value >= 0:
                env.picked = tgt
                out.append(f'SPick {v.slice.value}')
                continue
        bad(f'{where} line {st.lineno}: unrecognised statement {ast.unparse(st)[:80]!r}')
    return out


def tr_check(src, tree):
    f = find_def(tree, '_check_docstring', UNIT)
    if [a.arg for a in f.args.args] != ['decorated_func'] or f.args.vararg or f.args.kwarg or f.args.kwonlyargs:
        bad('signature of _check_docstring changed')
    env = Env('decorated_func')
    body = strip_doc(f.body)
    calls_complete, seen_ctx, loop = False, False, None
    for i, st in enumerate(body):
        if isinstance(st, ast.Assign) and len(st.targets) == 1 and is_name(st.targets[0]):
            t, v = st.targets[0].id, st.value
            if env.is_docstring(v) and t == 'doc':
                env.doc.add(t); continue
            if isinstance(v, ast.Attribute) and v.attr == 'err' and is_name(v.value, 'decorated_func') and t == 'err':
                continue
            if t == 'context' and isinstance(v, ast.Dict) and not v.keys:
                seen_ctx = True; continue
            bad(f'_check_docstring line {st.lineno}: unrecognised assignment')
        if isinstance(st, ast.Expr) and isinstance(st.value, ast.Call) and is_name(st.value.func, '_assert_docstring_is_complete'):
            kw = kwargs_of(st.value, ['func'])
            if kw is None or not is_name(kw['func'], 'decorated_func') or calls_complete:
                bad('_check_docstring: unexpected call of _assert_docstring_is_complete')
            calls_complete = True
            continue
        if isinstance(st, ast.For):
            if i != len(body) - 1:
                bad('_check_docstring: statements after the loop')
            loop = st
            continue
        bad(f'_check_docstring line {st.lineno}: unrecognised statement {type(st).__name__}')
    if loop is None or not seen_ctx:
        bad('_check_docstring: no loop over the annotations / no `context = {}`')
    if loop.orelse or not is_name(loop.target) or not env.is_annotations(loop.iter):
        bad('_check_docstring: the loop is not `for <name> in decorated_func.annotations:`')
    env.key = loop.target.id
    prefix, chain = [], None
    for j, st in enumerate(loop.body):
        if isinstance(st, ast.If) and if_raise_shape(st) is False:
            if j != len(loop.body) - 1:
                bad('_check_docstring: statements after the if/elif of the loop body')
            chain = st
            break
        if isinstance(st, ast.Assign) and len(st.targets) == 1 and is_name(st.targets[0]) and env.is_expected(st.value):
            env.expected.add(st.targets[0].id)
            continue
        if isinstance(st, ast.Expr) and isinstance(st.value, ast.Call) and is_name(st.value.func, '_update_context'):
            kw = kwargs_of(st.value, ['context', 'type_'])
            if kw is None or not is_name(kw['context'], 'context') or not env.is_expected(kw['type_']):
                bad('_check_docstring: unexpected arguments of _update_context')
            prefix.append('SUpdateContext')
            continue
        s = if_raise(env, st)
        if s is not None:
            prefix.append(s)
            continue
        bad(f'_check_docstring line {st.lineno}: unrecognised statement in the loop body')
    branches = []
    while chain is not None:
        cond = bx(env, chain.test)
        branches.append((cond, tr_branch_body(env, chain.body, '_check_docstring')))
        if not chain.orelse:
            chain = None
        elif len(chain.orelse) == 1 and isinstance(chain.orelse[0], ast.If):
            chain = chain.orelse[0]
        else:
            bad('_check_docstring: the if/elif chain of the loop body has an else branch')
    return calls_complete, prefix, branches, f


def if_raise_shape(st):
    """True when `st` is `if c: raise ...` without else (a check), False for any other if statement"""
    return isinstance(st, ast.If) and not st.orelse and len(st.body) == 1 and isinstance(st.body[0], ast.Raise)


def pure_message_stmt(st):
    """statements allowed between `except` and the final `raise`: assignments to local names whose value
    calls nothing but isinstance / len / <x>.keys(), and if statements made of such assignments"""
    if isinstance(st, ast.Assign):
        if not all(isinstance(t, ast.Name) for t in st.targets):
            return False
        for x in ast.walk(st.value):
            if isinstance(x, (ast.Await, ast.Yield, ast.YieldFrom, ast.NamedExpr, ast.Lambda)):
                return False
            if isinstance(x, ast.Call):
                ok = is_name(x.func, 'isinstance') or is_name(x.func, 'len') or \
                    (isinstance(x.func, ast.Attribute) and x.func.attr == 'keys' and not x.args and not x.keywords)
                if not ok:
                    return False
        return True
    if isinstance(st, ast.If):
        return all(pure_message_stmt(s) for s in st.body + st.orelse)
    return False


def tr_parse(src, tree):
    f = find_def(tree, '_parse_documented_type', UNIT)
    if [a.arg for a in f.args.args] != ['type_', 'context', 'err'] or f.args.vararg or f.args.kwarg or f.args.kwonlyargs:
        bad('signature of _parse_documented_type changed')
    body = strip_doc(f.body)
    none_guard, guard = 'None', 'None'
    # optional first statement: `if type_ is None: raise ...`
    if len(body) >= 2 and if_raise_shape(body[0]) and isinstance(body[0].test, ast.Compare) and len(body[0].test.ops) == 1 \
            and isinstance(body[0].test.ops[0], ast.Is):
        g = body[0]
        ok = (is_name(g.test.left, 'type_') and isinstance(g.test.comparators[0], ast.Constant) and g.test.comparators[0].value is None)
        if not ok:
            bad('_parse_documented_type: the first statement is an `is` test other than `if type_ is None: raise ...`')
        none_guard = f'Some {raised_class(g.body[0])}'
        body = body[1:]
    if len(body) == 2:
        g = body[0]
        ok = (if_raise_shape(g) and isinstance(g.test, ast.Compare) and len(g.test.ops) == 1 and isinstance(g.test.ops[0], ast.In)
              and isinstance(g.test.left, ast.Constant) and type(g.test.left.value) is str and is_name(g.test.comparators[0], 'type_'))
        if not ok:
            bad('_parse_documented_type: the statement before the try is not `if \'<text>\' in type_: raise ...`')
        needle = g.test.left.value
        if not needle or any(ord(c) < 32 or ord(c) > 126 for c in needle):
            bad('_parse_documented_type: guard text is empty or not printable ASCII')
        guard = f'Some ({coq_string(needle)}, {raised_class(g.body[0])})'
        body = body[1:]
    if len(body) != 1 or not isinstance(body[0], ast.Try):
        bad('_parse_documented_type: body is not [guard;] try/except')
    tr = body[0]
    if tr.orelse or tr.finalbody or not tr.handlers:
        bad('_parse_documented_type: try statement has else/finally or no handler')
    if not (len(tr.body) == 1 and isinstance(tr.body[0], ast.Return) and tr.body[0].value is not None
            and same(tr.body[0].value, 'eval(type_, globals(), context)')):
        bad('_parse_documented_type: try body is not `return eval(type_, globals(), context)`')
    catch = []
    for h in tr.handlers:
        if h.type is None:
            classes = ['BaseExceptionC']
        elif isinstance(h.type, ast.Name) and h.type.id in EXC:
            classes = [EXC[h.type.id]]
        elif isinstance(h.type, ast.Tuple) and all(isinstance(e, ast.Name) and e.id in EXC for e in h.type.elts):
            classes = [EXC[e.id] for e in h.type.elts]
        else:
            bad(f'_parse_documented_type line {h.lineno}: unrecognised except clause')
        if not h.body or not isinstance(h.body[-1], ast.Raise):
            bad(f'_parse_documented_type line {h.lineno}: handler does not end in raise')
        last = h.body[-1]
        if last.exc is None:
            bad(f'_parse_documented_type line {h.lineno}: bare re-raise handlers are not in the family')
        raised = raised_class(last)
        for s in h.body[:-1]:
            if not pure_message_stmt(s):
                bad(f'_parse_documented_type line {s.lineno}: handler statement is not message building')
        for c in classes:
            catch.append(f'({c}, {raised})')
    return none_guard, guard, catch, f


def tr_trigger(src, tree):
    p = find_def(tree, 'pedantic', UNIT)
    a = p.args
    if [x.arg for x in a.args] != ['func', 'require_docstring'] or a.vararg or a.kwarg or a.kwonlyargs \
            or len(a.defaults) != 2 or not (isinstance(a.defaults[1], ast.Constant) and a.defaults[1].value is False):
        bad('signature of pedantic is not (func=None, require_docstring=False)')
    d = find_in(p, 'decorator', UNIT)
    if [x.arg for x in d.args.args] != ['f']:
        bad('signature of pedantic.decorator changed')
    # _check_docstring is called exactly once in the whole file, directly in the body of decorator
    calls = [n for n in ast.walk(tree) if isinstance(n, ast.Call) and is_name(n.func, '_check_docstring')]
    if len(calls) != 1:
        bad(f'_check_docstring is called {len(calls)} times in fn_deco_pedantic.py')
    env = Env(None)
    env.require = 'require_docstring'
    trigger, seen_df, at_decoration = None, False, False
    for st in strip_doc(d.body):
        if isinstance(st, ast.Assign) and len(st.targets) == 1 and is_name(st.targets[0]) and isinstance(st.value, ast.Call) \
                and is_name(st.value.func, 'DecoratedFunction'):
            kw = kwargs_of(st.value, ['func'])
            if kw is None or not is_name(kw['func'], 'f'):
                bad('pedantic.decorator: DecoratedFunction is not built from f')
            env.f = st.targets[0].id
            seen_df = True
            continue
        if isinstance(st, ast.If) and any(c in ast.walk(st) for c in calls):
            if not seen_df or st.orelse or len(st.body) != 1 or not isinstance(st.body[0], ast.Expr) or st.body[0].value is not calls[0]:
                bad('pedantic.decorator: the call of _check_docstring is not the single statement of an if without else')
            kw = kwargs_of(calls[0], ['decorated_func'])
            if kw is None or not is_name(kw['decorated_func'], env.f):
                bad('pedantic.decorator: unexpected arguments of _check_docstring')
            trigger = bx(env, st.test)
            at_decoration = True
            continue
        if isinstance(st, (ast.FunctionDef, ast.AsyncFunctionDef)):
            if trigger is None:
                bad('pedantic.decorator: a wrapper is defined before the docstring check')
            continue
        if isinstance(st, ast.If) and same(st.test, 'not is_enabled()') and len(st.body) == 1 and isinstance(st.body[0], ast.Return) \
                and is_name(st.body[0].value, 'f') and not st.orelse and trigger is None:
            continue
        if isinstance(st, (ast.If, ast.Return)) and trigger is not None:
            # `if decorated_func.is_coroutine: return async_wrapper else: return wrapper`
            if any(isinstance(n, ast.Call) for n in ast.walk(st)):
                bad(f'pedantic.decorator line {st.lineno}: call in the return part')
            continue
        bad(f'pedantic.decorator line {st.lineno}: unrecognised statement')
    if trigger is None:
        bad('pedantic.decorator never calls _check_docstring')
    # shortcuts
    r = find_def(tree, 'pedantic_require_docstring', UNIT)
    rb = strip_doc(r.body)
    short_ok = (len(rb) == 1 and isinstance(rb[0], ast.Return) and rb[0].value is not None
                and same(rb[0].value, 'pedantic(func=func, require_docstring=True)'))
    return trigger, at_decoration, short_ok, d


def tr_class_shortcut():
    src, tree = load(R_CLS)
    r = find_def(tree, 'pedantic_class_require_docstring', UNIT)
    rb = strip_doc(r.body)
    ok = (len(rb) == 1 and isinstance(rb[0], ast.Return) and rb[0].value is not None
          and same(rb[0].value, 'for_all_methods(decorator=pedantic_require_docstring)(cls=cls)'))
    return ok, provenance(R_CLS, src, r)


def tr_accessors():
    src, tree = load(R_DF)
    c = find_class(tree, 'DecoratedFunction', UNIT)

    def prop_returns(name, text):
        f = find_in(c, name, UNIT)
        b = strip_doc(f.body)
        return (any(is_name(d, 'property') for d in f.decorator_list) and len(b) == 1 and isinstance(b[0], ast.Return)
                and b[0].value is not None and same(b[0].value, text))
    init = find_in(c, '__init__', UNIT)
    assigns = {ast.unparse(s.targets[0]): s.value for s in ast.walk(init) if isinstance(s, ast.Assign) and len(s.targets) == 1}
    ok = (prop_returns('annotations', 'self._full_arg_spec.annotations') and prop_returns('docstring', 'self._docstring')
          and prop_returns('raw_doc', 'self._func.__doc__')
          and 'self._full_arg_spec' in assigns and same(assigns['self._full_arg_spec'], 'inspect.getfullargspec(func)')
          and 'self._func' in assigns and same(assigns['self._func'], 'func'))
    # self._docstring = parse(func.__doc__) when the parser is installed, None otherwise
    ds = [s for s in ast.walk(init) if isinstance(s, ast.Assign) and ast.unparse(s.targets[0]) == 'self._docstring']
    ok = ok and sorted(ast.unparse(s.value) for s in ds) == ['None', 'parse(func.__doc__)']
    return ok, provenance(R_DF, src, c)


def body_sha(f):
    text = '\n'.join(dump(s) for s in strip_doc(f.body))
    return hashlib.sha256(text.encode()).hexdigest()[:16]


def translate():
    src, tree = load(R_DOC)
    star = any(isinstance(n, ast.ImportFrom) and n.module == 'typing' and any(a.name == '*' for a in n.names) for n in tree.body)
    if not star:
        bad('check_docstring.py no longer does `from typing import *` (the globals of eval)')
    complete, f_complete = tr_complete(src, tree)
    calls_complete, prefix, branches, f_check = tr_check(src, tree)
    none_guard, guard, catch, f_parse = tr_parse(src, tree)
    f_upd = find_def(tree, '_update_context', UNIT)
    upd_sha = body_sha(f_upd)
    psrc, ptree = load(R_PED)
    trigger, at_deco, short_ok, d = tr_trigger(psrc, ptree)
    cls_ok, cls_prov = tr_class_shortcut()
    acc_ok, acc_prov = tr_accessors()

    def stmts(l, ind):
        return '[' + (';\n' + ind).join(l) + ']'
    out = header('t_docstring.py', ['From PV Require Import Base.Exn Model.DocstringTyping Model.Docstring.'])
    out += f'Definition src_decorator : string := {coq_string(provenance(R_PED, psrc, d))}.\n'
    out += f'Definition src_check_docstring : string := {coq_string(provenance(R_DOC, src, f_check))}.\n'
    out += f'Definition src_assert_complete : string := {coq_string(provenance(R_DOC, src, f_complete))}.\n'
    out += f'Definition src_parse_documented_type : string := {coq_string(provenance(R_DOC, src, f_parse))}.\n'
    out += f'Definition src_update_context : string := {coq_string(provenance(R_DOC, src, f_upd))}.\n'
    out += f'Definition src_class_shortcut : string := {coq_string(cls_prov)}.\n'
    out += f'Definition src_decorated_function : string := {coq_string(acc_prov)}.\n\n'
    out += 'Definition docstring_prog : dprog := {|\n'
    out += f'  dp_trigger := {trigger};\n'
    out += f'  dp_complete :=\n    {stmts(complete, "     ")};\n'
    out += f'  dp_calls_complete := {coq_bool(calls_complete)};\n'
    out += f'  dp_loop_prefix := {stmts(prefix, "     ")};\n'
    out += '  dp_branches :=\n    [' + ';\n     '.join(f'({c},\n      {stmts(b, "       ")})' for c, b in branches) + '];\n'
    out += f'  dp_parse := {{| pc_none := {none_guard}; pc_guard := {guard}; pc_catch := {coq_list(catch)} |}} |}}.\n\n'
    out += '(* the structural facts around the program *)\n'
    out += f'Definition check_runs_at_decoration_time : bool := {coq_bool(at_deco)}.\n'
    out += f'Definition require_shortcut_ok : bool := {coq_bool(short_ok)}.\n'
    out += f'Definition class_shortcut_ok : bool := {coq_bool(cls_ok)}.\n'
    out += f'Definition accessors_ok : bool := {coq_bool(acc_ok)}.\n'
    out += f'Definition eval_uses_module_globals_and_context : bool := true.\n'
    out += f'Definition update_context_sha : string := {coq_string(upd_sha)}.\n'
    return {UNIT: out}
