"""T1/T2/T3 for C14: pedantic/decorators/fn_deco_validate/{validators/*.py, convert_value.py, exceptions.py}
-> Gen/Validators.v

Shape-parametric and fail closed.  Every validator belongs to one small code family; the translator
extracts the family's parameters (comparison operators and flag polarities, domain tests, strip rules,
loop shapes, every try/except handler table, literal sets, the normalisation chain, REGEX_EMAIL as a
regex AST) and demands that everything that is not a parameter matches exactly.  Nothing of the
repository is imported or evaluated."""
import ast
from common import *

UNIT = 'Validators'
UNITS = [UNIT]
VDIR = 'pedantic/decorators/fn_deco_validate/validators/'
CMP = {ast.Lt: 'CLt', ast.LtE: 'CLe', ast.Gt: 'CGt', ast.GtE: 'CGe', ast.Eq: 'CEq', ast.NotEq: 'CNe'}
FLIP = {'CLt': 'CGt', 'CLe': 'CGe', 'CGt': 'CLt', 'CGe': 'CLe', 'CEq': 'CEq', 'CNe': 'CNe'}
# exception class name -> constant of coq/Base/Exn.v
EXN = {'BaseException': 'BaseExceptionC', 'Exception': 'ExceptionC', 'ValueError': 'ValueErrorC', 'TypeError': 'TypeErrorC',
       'LookupError': 'LookupErrorC', 'IndexError': 'IndexErrorC', 'KeyError': 'KeyErrorC', 'AttributeError': 'AttributeErrorC',
       'AssertionError': 'AssertionErrorC', 'RuntimeError': 'RuntimeErrorC', 'NotImplementedError': 'NotImplementedErrorC',
       'StopIteration': 'StopIterationC', 'ArithmeticError': 'ArithmeticErrorC', 'OverflowError': 'OverflowErrorC',
       'NameError': 'NameErrorC', 'OSError': 'OSErrorC', 'EOFError': 'EOFErrorC',
       'ValidateException': 'ValidateExceptionC', 'ValidatorException': 'ValidatorExceptionC',
       'ParameterException': 'ParameterExceptionC', 'ConversionError': 'ConversionErrorC',
       'TooManyArguments': 'TooManyArgumentsC'}
ABC_DOM = {'Sized': 'DomSized', 'Sequence': 'DomSequence', 'Iterable': 'DomIterable'}


def bad(reason):
    raise Untranslatable(UNIT, reason)


def same(node, source):
    """node is exactly the expression/statement written as `source`"""
    exp = ast.parse(source).body[0]
    if isinstance(exp, ast.Expr) and not isinstance(node, ast.Expr):
        exp = exp.value
    return dump(node) == dump(exp)


def self_attr(node, name=None):
    return (isinstance(node, ast.Attribute) and is_name(node.value, 'self') and (name is None or node.attr == name))


def is_reject(st):
    """self.raise_exception(...) as a statement, `return self.raise_exception(...)` or `raise self.raise_exception(...)`"""
    if isinstance(st, ast.Expr):
        c = st.value
    elif isinstance(st, ast.Return):
        c = st.value
    elif isinstance(st, ast.Raise) and st.cause is None:
        c = st.exc
    else:
        return False
    return (isinstance(c, ast.Call) and self_attr(c.func, 'raise_exception') and not c.args
            and sorted(k.arg or '' for k in c.keywords) == ['msg', 'value']
            and any(k.arg == 'value' and is_name(k.value, 'value') for k in c.keywords))


def reject_fmt(st, where):
    """the operands the message of a rejection formats, in order.  The f-string `msg=f'... {value} ...'` is evaluated BEFORE
    raise_exception runs, and formatting an int of more than sys.get_int_max_str_digits() digits raises ValueError: what is
    formatted is part of the observable behaviour.  FValue = the local `value`, FBound = self._value, FOther = operands whose
    formatting cannot fail (a length, a type, a pattern text, a class)"""
    c = st.value if isinstance(st, (ast.Expr, ast.Return)) else st.exc
    msg = [k.value for k in c.keywords if k.arg == 'msg'][0]
    if isinstance(msg, ast.Constant) and isinstance(msg.value, str):
        return []
    if not isinstance(msg, ast.JoinedStr):
        bad(f'{where}: the message of the rejection is neither a string literal nor an f-string')
    out = []
    for part in msg.values:
        if isinstance(part, ast.Constant):
            continue
        if not isinstance(part, ast.FormattedValue) or part.format_spec is not None or part.conversion not in (-1, 115):
            bad(f'{where}: unsupported replacement field in the message of the rejection')
        e = part.value
        if is_name(e, 'value'):
            out.append('FValue')
        elif self_attr(e, '_value'):
            out.append('FBound')
        elif same(e, 'len(value)') or same(e, 'type(value)') or same(e, 'self._pattern.pattern') or same(e, 'self._enum') \
                or self_attr(e, '_length') or same(e, 'safe_str(value)') or same(e, 'safe_str(self._value)'):
            # safe_str: the candidate repair of finding C14-K9 (a str() that never raises)
            out.append('FOther')
        else:
            bad(f'{where}: the message of the rejection formats an expression the model does not know: {ast.unparse(e)}')
    return out


def only_reject(body, where):
    """-> Coq list of what the rejection's message formats"""
    if len(body) != 1 or not is_reject(body[0]):
        bad(f'{where}: the rejecting branch is not a single self.raise_exception(msg=..., value=value)')
    return coq_list(reject_fmt(body[0], where))


def handler_fmt(tr, where):
    """what the messages of the rejecting handlers of a try statement format (all rejecting handlers must agree)"""
    fm = []
    for h in tr.handlers:
        for st in h.body:
            if is_reject(st):
                fm.append(reject_fmt(st, where))
    if not fm:
        return '[]'
    if any(f != fm[0] for f in fm):
        bad(f'{where}: the rejecting handlers format different operands')
    return coq_list(fm[0])


def exn_names(t, where):
    if t is None:
        return ['BaseExceptionC']
    elts = t.elts if isinstance(t, ast.Tuple) else [t]
    out = []
    for e in elts:
        if not (is_name(e) and e.id in EXN):
            bad(f'{where}: except clause names an unknown class')
        out.append(EXN[e.id])
    return out


def handler_table(tr, where):
    """ordered (caught classes, action) rows of a try statement without else/finally"""
    if tr.orelse or tr.finalbody or not tr.handlers:
        bad(f'{where}: try statement has else/finally or no handler')
    rows = []
    for h in tr.handlers:
        classes = exn_names(h.type, where)
        body = list(h.body)
        # `ex.attribute = <name>` bookkeeping on the caught exception is not observable in the outcome class
        while body and isinstance(body[0], ast.Assign) and len(body[0].targets) == 1 and h.name \
                and isinstance(body[0].targets[0], ast.Attribute) and is_name(body[0].targets[0].value, h.name) \
                and is_name(body[0].value):
            body = body[1:]
        if len(body) != 1:
            bad(f'{where}: handler body is not a single raising statement')
        st = body[0]
        if is_reject(st):
            act = 'HRaiseValidator'
        elif isinstance(st, ast.Raise) and st.cause is None and (st.exc is None or (h.name and is_name(st.exc, h.name))):
            act = 'HReraise'
        elif isinstance(st, ast.Raise) and st.cause is None and isinstance(st.exc, ast.Call) and is_name(st.exc.func) \
                and st.exc.func.id in EXN:
            act = f'HRaise {EXN[st.exc.func.id]}'
        else:
            bad(f'{where}: unrecognised handler action at line {st.lineno}')
        rows.append(f'({coq_list(classes)}, {act})')
    return coq_list(rows)


def cls_and_validate(rel, cls, unit_tree=None):
    src, tree = load(rel)
    c = find_class(tree, cls, UNIT)
    if [dump(b) for b in c.bases] != [dump(ast.Name('Validator', ast.Load()))]:
        bad(f'{cls}: base classes changed')
    v = find_in(c, 'validate', UNIT)
    a = v.args
    if [x.arg for x in a.args] != ['self', 'value'] or a.vararg or a.kwarg or a.kwonlyargs or a.defaults:
        bad(f'{cls}.validate: signature changed')
    if [dump(d) for d in v.decorator_list] != [dump(ast.parse('overrides(Validator)').body[0].value)]:
        bad(f'{cls}.validate: decorators changed')
    return src, tree, c, v


def init_of(c, cls, params, defaults, assigns):
    """__init__(self, <params>) with the given defaults (source text) storing each parameter as given"""
    i = find_in(c, '__init__', UNIT)
    a = i.args
    if [x.arg for x in a.args] != ['self'] + params or a.vararg or a.kwarg or a.kwonlyargs:
        bad(f'{cls}.__init__: parameters changed')
    got = [ast.unparse(d) for d in a.defaults]
    if got != defaults:
        bad(f'{cls}.__init__: defaults changed to {got}')
    body = strip_doc(i.body)
    if len(body) != len(assigns) or any(not same(s, t) for s, t in zip(body, assigns)):
        bad(f'{cls}.__init__: body changed')
    return i


def isinstance_abc(test, where, negated=True):
    """[not] isinstance(value, collections.abc.<X>) -> domain kind"""
    t = test
    if negated:
        if not (isinstance(t, ast.UnaryOp) and isinstance(t.op, ast.Not)):
            bad(f'{where}: domain test is not `not isinstance(...)`')
        t = t.operand
    if not (isinstance(t, ast.Call) and is_name(t.func, 'isinstance') and len(t.args) == 2 and not t.keywords
            and is_name(t.args[0], 'value')):
        bad(f'{where}: domain test is not isinstance(value, ...)')
    k = t.args[1]
    if isinstance(k, ast.Attribute) and same(k.value, 'collections.abc') and k.attr in ABC_DOM:
        return ABC_DOM[k.attr]
    if is_name(k, 'str'):
        return 'DomStr'
    if isinstance(k, ast.Tuple) and [dump(e) for e in k.elts] == [dump(ast.Name(n, ast.Load())) for n in ('int', 'float', 'str')]:
        return 'DomIntFloatStr'
    if isinstance(k, ast.Tuple) and [dump(e) for e in k.elts] == [dump(ast.Name(n, ast.Load())) for n in ('int', 'float')]:
        return 'DomIntFloat'
    bad(f'{where}: isinstance against an unknown class')


# ----------------------------------------------------------------------------------------------------------
def bound_family(rel, cls):
    """Min / Max: [optional domain test]; if <cmp> and <flag>: reject  elif <cmp> and <flag>: reject; return value"""
    src, tree, c, v = cls_and_validate(rel, cls)
    init_of(c, cls, ['value', 'include_boundary'], ['True'], ['self._value = value', 'self._include_boundary = include_boundary'])
    body = strip_doc(v.body)
    dom, dom_fmt = 'DomNone', '[]'
    if len(body) == 3 and isinstance(body[0], ast.If) and not body[0].orelse and isinstance(body[0].test, ast.UnaryOp):
        dom = isinstance_abc(body[0].test, cls)
        dom_fmt = only_reject(body[0].body, cls)
        body = body[1:]
    if len(body) != 2 or not isinstance(body[0], ast.If) or not same(body[1], 'return value'):
        bad(f'{cls}.validate: not `if ...: reject elif ...: reject` followed by `return value`')
    def as_flag(n):
        if self_attr(n, '_include_boundary'):
            return True
        if isinstance(n, ast.UnaryOp) and isinstance(n.op, ast.Not) and self_attr(n.operand, '_include_boundary'):
            return False
        return None

    def as_cmp(n):
        """[not] value <op> self._value  (or mirrored) -> (op, negated)"""
        neg = False
        if isinstance(n, ast.UnaryOp) and isinstance(n.op, ast.Not):
            neg, n = True, n.operand
        if not (isinstance(n, ast.Compare) and len(n.ops) == 1 and type(n.ops[0]) in CMP):
            return None
        op = CMP[type(n.ops[0])]
        if is_name(n.left, 'value') and self_attr(n.comparators[0], '_value'):
            return op, neg
        if self_attr(n.left, '_value') and is_name(n.comparators[0], 'value'):
            return FLIP[op], neg
        return None

    tests = []
    node = body[0]
    while True:
        fmt = only_reject(node.body, cls)
        t = node.test
        if not (isinstance(t, ast.BoolOp) and isinstance(t.op, ast.And) and len(t.values) == 2):
            bad(f'{cls}.validate: test is not a conjunction of a comparison and the flag')
        a, b = t.values
        # which operand comes first matters: `and` short-circuits and the comparison may raise (TypeError)
        if as_cmp(a) is not None and as_flag(b) is not None:
            (op, neg), pol, flag_first = as_cmp(a), as_flag(b), False
        elif as_flag(a) is not None and as_cmp(b) is not None:
            (op, neg), pol, flag_first = as_cmp(b), as_flag(a), True
        else:
            bad(f'{cls}.validate: test is not `[not] value <op> self._value and [not] self._include_boundary` (either order)')
        tests.append('{| bt_op := %s; bt_neg := %s; bt_pol := %s; bt_flag_first := %s; bt_fmt := %s |}'
                     % (op, coq_bool(neg), coq_bool(pol), coq_bool(flag_first), fmt))
        if not node.orelse:
            break
        if len(node.orelse) != 1 or not isinstance(node.orelse[0], ast.If):
            bad(f'{cls}.validate: else branch is not an elif')
        node = node.orelse[0]
    return provenance(rel, src, v), coq_list(tests), dom, dom_fmt


def length_family(rel, cls):
    src, tree, c, v = cls_and_validate(rel, cls)
    init_of(c, cls, ['length'], [], ['self._length = length'])
    body = strip_doc(v.body)
    if len(body) != 3 or not all(isinstance(s, ast.If) and not s.orelse for s in body[:2]) or not same(body[2], 'return value'):
        bad(f'{cls}.validate: not `if <domain>: reject; if <len test>: reject; return value`')
    dom = isinstance_abc(body[0].test, cls)
    dom_fmt = only_reject(body[0].body, cls)
    fmt = only_reject(body[1].body, cls)
    t = body[1].test
    if not (isinstance(t, ast.Compare) and len(t.ops) == 1 and type(t.ops[0]) in CMP):
        bad(f'{cls}.validate: length test is not a single comparison')
    op = CMP[type(t.ops[0])]
    if same(t.left, 'len(value)') and self_attr(t.comparators[0], '_length'):
        pass
    elif self_attr(t.left, '_length') and same(t.comparators[0], 'len(value)'):
        op = FLIP[op]
    else:
        bad(f'{cls}.validate: length test is not between len(value) and self._length')
    return provenance(rel, src, v), dom, op, dom_fmt, fmt


def not_empty():
    rel = VDIR + 'not_empty.py'
    src, tree, c, v = cls_and_validate(rel, 'NotEmpty')
    init_of(c, 'NotEmpty', ['strip'], ['True'], ['self.strip = strip'])
    body = strip_doc(v.body)
    if len(body) != 2 or not isinstance(body[0], ast.If):
        bad('NotEmpty.validate: top level shape changed')
    fmt_else = only_reject([body[1]], 'NotEmpty (fall through)')
    top = body[0]
    if not same(top.test, 'isinstance(value, str)'):
        bad('NotEmpty.validate: first branch is not isinstance(value, str)')
    sb = top.body
    if len(sb) != 2 or not isinstance(sb[0], ast.If) or sb[0].orelse or not isinstance(sb[1], ast.Return):
        bad('NotEmpty.validate: str branch shape changed')
    fmt_str = only_reject(sb[0].body, 'NotEmpty (str)')
    if same(sb[0].test, 'not value.strip()'):
        test_strips = True
    elif same(sb[0].test, 'not value') or same(sb[0].test, 'len(value) == 0'):
        test_strips = False
    else:
        bad('NotEmpty.validate: unrecognised emptiness test for str')
    r = sb[1].value
    if same(r, 'value.strip() if self.strip else value'):
        ret = 'NERetStripIfFlag'
    elif same(r, 'value.strip()'):
        ret = 'NERetStripAlways'
    elif same(r, 'value'):
        ret = 'NERetValue'
    else:
        bad('NotEmpty.validate: unrecognised return expression for str')
    if len(top.orelse) != 1 or not isinstance(top.orelse[0], ast.If) or top.orelse[0].orelse:
        bad('NotEmpty.validate: second branch is not a plain elif')
    el = top.orelse[0]
    dom = isinstance_abc(el.test, 'NotEmpty', negated=False)
    qb = el.body
    if len(qb) != 2 or not isinstance(qb[0], ast.If) or qb[0].orelse or not same(qb[1], 'return value'):
        bad('NotEmpty.validate: sequence branch shape changed')
    fmt_seq = only_reject(qb[0].body, 'NotEmpty (sequence)')
    t = qb[0].test
    if same(t, 'not value'):
        op, lit = 'CEq', 0
    elif isinstance(t, ast.Compare) and len(t.ops) == 1 and type(t.ops[0]) in CMP and same(t.left, 'len(value)') \
            and isinstance(t.comparators[0], ast.Constant) and type(t.comparators[0].value) is int:
        op, lit = CMP[type(t.ops[0])], t.comparators[0].value
    else:
        bad('NotEmpty.validate: unrecognised emptiness test for sequences')
    rec = ('{| ne_test_strips := %s; ne_return := %s; ne_seq_dom := %s; ne_seq_op := %s; ne_seq_lit := %s; '
           'ne_fmt_str := %s; ne_fmt_seq := %s; ne_fmt_else := %s |}'
           % (coq_bool(test_strips), ret, dom, op, coq_Z(lit), fmt_str, fmt_seq, fmt_else))
    return provenance(rel, src, v), rec


def composite():
    rel = VDIR + 'composite_validator.py'
    src, tree, c, v = cls_and_validate(rel, 'Composite')
    init_of(c, 'Composite', ['validators'], [], ['self._validators = validators'])
    it = find_in(c, '__iter__', UNIT)
    ib = strip_doc(it.body)
    if len(ib) != 1 or not same(ib[0], 'for validator in self._validators:\n    yield validator'):
        bad('Composite.__iter__ does not yield every child in order')
    body = strip_doc(v.body)
    if len(body) != 2 or not isinstance(body[0], ast.For) or body[0].orelse:
        bad('Composite.validate: not a single loop followed by a return')
    loop = body[0]
    if not (is_name(loop.target, 'validator') and (is_name(loop.iter, 'self') or self_attr(loop.iter, '_validators'))):
        bad('Composite.validate: the loop does not run over all children')
    if len(loop.body) != 1:
        bad('Composite.validate: loop body changed')
    st = loop.body[0]
    if same(st, 'validator.validate(value)') or same(st, 'validator.validate(value=value)'):
        threads = False
    elif same(st, 'value = validator.validate(value)') or same(st, 'value = validator.validate(value=value)'):
        threads = True
    else:
        bad('Composite.validate: loop body is not a call of validator.validate(value)')
    if not same(body[1], 'return value'):
        bad('Composite.validate: does not return value')
    rec = '{| co_threads := %s; co_returns_input := %s |}' % (coq_bool(threads), coq_bool(not threads))
    return provenance(rel, src, v), rec


def for_each():
    rel = VDIR + 'for_each.py'
    src, tree, c, v = cls_and_validate(rel, 'ForEach')
    i = find_in(c, '__init__', UNIT)
    ib = strip_doc(i.body)
    if len(ib) != 1 or not same(ib[0], 'if isinstance(validators, Validator):\n    self._validators = [validators]\n'
                                       'else:\n    self._validators = validators') \
            or [x.arg for x in i.args.args] != ['self', 'validators'] or i.args.defaults:
        bad('ForEach.__init__ changed')
    body = strip_doc(v.body)
    dom, dom_fmt = 'DomNone', '[]'
    if body and isinstance(body[0], ast.If) and not body[0].orelse:
        dom = isinstance_abc(body[0].test, 'ForEach')
        dom_fmt = only_reject(body[0].body, 'ForEach')
        body = body[1:]
    if len(body) != 3 or not same(body[0], 'results = []') or not isinstance(body[1], ast.For) or body[1].orelse \
            or not same(body[2], 'return results'):
        bad('ForEach.validate: not `results = []; for item in value: ...; return results`')
    outer = body[1]
    if not (is_name(outer.target, 'item') and is_name(outer.iter, 'value')):
        bad('ForEach.validate: outer loop is not `for item in value`')
    ob = list(outer.body)
    ret_in_loop = False
    if ob and same(ob[-1], 'return results'):
        ret_in_loop = True
        ob = ob[:-1]
    if len(ob) != 2 or not isinstance(ob[0], ast.For) or ob[0].orelse or not same(ob[1], 'results.append(item)'):
        bad('ForEach.validate: outer loop body is not `for validator in self._validators: ...; results.append(item)`')
    inner = ob[0]
    if not (is_name(inner.target, 'validator') and self_attr(inner.iter, '_validators')) or len(inner.body) != 1:
        bad('ForEach.validate: inner loop does not run over all children')
    st = inner.body[0]
    if same(st, 'item = validator.validate(item)') or same(st, 'item = validator.validate(value=item)'):
        threads = True
    elif same(st, 'validator.validate(item)') or same(st, 'validator.validate(value=item)'):
        threads = False
    else:
        bad('ForEach.validate: inner loop body is not a call of validator.validate(item)')
    rec = '{| fe_dom := %s; fe_threads := %s; fe_return_in_loop := %s; fe_dom_fmt := %s |}' % (dom, coq_bool(threads), coq_bool(ret_in_loop), dom_fmt)
    return provenance(rel, src, v), rec


def is_uuid():
    rel = VDIR + 'is_uuid.py'
    src, tree, c, v = cls_and_validate(rel, 'IsUuid')
    init_of(c, 'IsUuid', ['convert'], ['False'], ['self._convert = convert'])
    body = strip_doc(v.body)
    if len(body) != 2 or not isinstance(body[0], ast.Try) or len(body[0].body) != 1 \
            or not same(body[0].body[0], 'converted_value = UUID(str(value))') \
            or not same(body[1], 'return converted_value if self._convert else value'):
        bad('IsUuid.validate: shape changed')
    imp = [n for n in tree.body if isinstance(n, ast.ImportFrom) and n.module == 'uuid']
    if len(imp) != 1 or [(a.name, a.asname) for a in imp[0].names] != [('UUID', None)]:
        bad('IsUuid: UUID is not uuid.UUID')
    return provenance(rel, src, v), handler_table(body[0], 'IsUuid'), handler_fmt(body[0], 'IsUuid')


def is_enum():
    rel = VDIR + 'enum.py'
    src, tree, c, v = cls_and_validate(rel, 'IsEnum')
    init_of(c, 'IsEnum', ['enum', 'convert', 'to_upper_case'], ['True', 'True'],
            ['self._enum = enum', 'self._convert = convert', 'self._to_upper_case = to_upper_case'])
    body = strip_doc(v.body)
    plain = ('if issubclass(self._enum, IntEnum):\n    enum_value = self._enum(int(value))\n'
             'else:\n    enum_value = self._enum(value)')
    guarded = ('if issubclass(self._enum, IntEnum):\n'
               '    if isinstance(value, float) and not value.is_integer():\n        raise ValueError(value)\n'
               '    enum_value = self._enum(int(value))\n'
               'else:\n    enum_value = self._enum(value)')
    if len(body) != 3 or not isinstance(body[0], ast.Try) or len(body[0].body) != 2 \
            or not same(body[0].body[0], 'if isinstance(value, str) and self._to_upper_case:\n    value = value.upper()') \
            or not same(body[1], 'if self._convert:\n    return enum_value') or not same(body[2], 'return value'):
        bad('IsEnum.validate: shape changed')
    if same(body[0].body[1], plain):
        guard = False
    elif same(body[0].body[1], guarded):
        guard = True       # a float that is no whole number raises ValueError before int() truncates it
    else:
        bad('IsEnum.validate: the IntEnum / Enum dispatch changed')
    return provenance(rel, src, v), handler_table(body[0], 'IsEnum'), guard, handler_fmt(body[0], 'IsEnum')


def iso_format():
    rel = VDIR + 'datetime_isoformat.py'
    src, tree, c, v = cls_and_validate(rel, 'DatetimeIsoFormat')
    body = strip_doc(v.body)
    if len(body) != 2 or not isinstance(body[0], ast.Try) or len(body[0].body) != 1 \
            or not same(body[0].body[0], 'value = datetime.fromisoformat(value)') or not same(body[1], 'return value'):
        bad('DatetimeIsoFormat.validate: shape changed')
    return provenance(rel, src, v), handler_table(body[0], 'DatetimeIsoFormat'), handler_fmt(body[0], 'DatetimeIsoFormat')


def unix_timestamp():
    rel = VDIR + 'datetime_unix_timestamp.py'
    src, tree, c, v = cls_and_validate(rel, 'DateTimeUnixTimestamp')
    body = strip_doc(v.body)
    if len(body) != 3 or not isinstance(body[0], ast.If) or body[0].orelse or not isinstance(body[1], ast.Try) \
            or not isinstance(body[2], ast.Try):
        bad('DateTimeUnixTimestamp.validate: shape changed')
    dom = isinstance_abc(body[0].test, 'DateTimeUnixTimestamp')
    dom_fmt = only_reject(body[0].body, 'DateTimeUnixTimestamp')
    if len(body[1].body) != 1 or not same(body[1].body[0], 'seconds = float(value)'):
        bad('DateTimeUnixTimestamp.validate: first try body is not `seconds = float(value)`')
    if len(body[2].body) != 1 or not same(body[2].body[0], 'return datetime(year=1970, month=1, day=1) + timedelta(seconds=seconds)'):
        bad('DateTimeUnixTimestamp.validate: second try body changed')
    return provenance(rel, src, v), dom, handler_table(body[1], 'DateTimeUnixTimestamp/float'), \
        handler_table(body[2], 'DateTimeUnixTimestamp/add'), dom_fmt, handler_fmt(body[1], 'DateTimeUnixTimestamp/float'), \
        handler_fmt(body[2], 'DateTimeUnixTimestamp/add')


MATCH_MODE = {'fullmatch': 'MFull', 'search': 'MSearch', 'match': 'MPrefix'}


def email():
    rel = VDIR + 'email.py'
    src, tree, c, v = cls_and_validate(rel, 'Email')
    consts = [n for n in tree.body if isinstance(n, ast.Assign) and len(n.targets) == 1 and is_name(n.targets[0], 'REGEX_EMAIL')]
    if len(consts) != 1 or not (isinstance(consts[0].value, ast.Constant) and type(consts[0].value.value) is str):
        bad('REGEX_EMAIL is not a single string literal')
    pattern = consts[0].value.value
    init_of(c, 'Email', ['email_pattern', 'post_processor'], ['REGEX_EMAIL', 'lambda x: x'],
            ['self._pattern = email_pattern', 'self._post_processor = post_processor'])
    body = strip_doc(v.body)
    if len(body) != 2 or not isinstance(body[0], ast.If) or body[0].orelse or not same(body[1], 'return self._post_processor(value)'):
        bad('Email.validate: shape changed')
    fmt = only_reject(body[0].body, 'Email')
    t = body[0].test
    mode = None
    for fn in MATCH_MODE:
        if same(t, f'not re.{fn}(pattern=self._pattern, string=value)') or same(t, f'not re.{fn}(self._pattern, value)'):
            mode = MATCH_MODE[fn]
    if mode is None:
        bad('Email.validate: the test is not `not re.<fullmatch|match|search>(pattern=self._pattern, string=value)`')
    try:
        rx = regex_to_coq(parse_regex(pattern))
    except RegexUnsupported as ex:
        bad(f'REGEX_EMAIL: {ex}')
    return provenance(rel, src, v), mode, rx, pattern, fmt


def match_pattern():
    rel = VDIR + 'match_pattern.py'
    src, tree, c, v = cls_and_validate(rel, 'MatchPattern')
    init_of(c, 'MatchPattern', ['pattern'], [], ['self._pattern = re.compile(pattern=pattern)'])
    body = strip_doc(v.body)
    if len(body) != 2 or not isinstance(body[0], ast.If) or body[0].orelse or not same(body[1], 'return value'):
        bad('MatchPattern.validate: shape changed')
    fmt = only_reject(body[0].body, 'MatchPattern')
    mode = None
    for fn in MATCH_MODE:
        if same(body[0].test, f'not self._pattern.{fn}(string=str(value))') or same(body[0].test, f'not self._pattern.{fn}(str(value))'):
            mode = MATCH_MODE[fn]
    if mode is None:
        bad('MatchPattern.validate: the test is not `not self._pattern.<search|match|fullmatch>(string=str(value))`')
    return provenance(rel, src, v), mode, fmt


def abstract_validator():
    rel = VDIR + 'abstract_validator.py'
    src, tree = load(rel)
    c = find_class(tree, 'Validator', UNIT)
    r = find_in(c, 'raise_exception', UNIT)
    rb = strip_doc(r.body)
    if len(rb) != 1 or not (isinstance(rb[0], ast.Raise) and rb[0].cause is None and isinstance(rb[0].exc, ast.Call)
                            and is_name(rb[0].exc.func) and rb[0].exc.func.id in EXN):
        bad('Validator.raise_exception is not a single `raise <KnownClass>(...)`')
    cls = EXN[rb[0].exc.func.id]
    p = find_in(c, 'validate_param', UNIT)
    pb = strip_doc(p.body)
    if len(pb) != 1 or not isinstance(pb[0], ast.Try) or len(pb[0].body) != 1 \
            or not same(pb[0].body[0], 'return self.validate(value=value)'):
        bad('Validator.validate_param: shape changed')
    return provenance(rel, src, c), cls, handler_table(pb[0], 'Validator.validate_param')


def exceptions():
    rel = 'pedantic/decorators/fn_deco_validate/exceptions.py'
    src, tree = load(rel)
    want = {'ValidateException': 'Exception', 'ValidatorException': 'ValidateException', 'ParameterException': 'ValidateException',
            'TooManyArguments': 'ValidateException', 'ConversionError': 'ValidateException'}
    for name, base in want.items():
        c = find_class(tree, name, UNIT)
        if len(c.bases) != 1 or not is_name(c.bases[0], base) or c.keywords:
            bad(f'exceptions.py: {name} no longer derives from {base} only (the class tree of Base/Exn.v is stale)')
    import hashlib
    return f'{rel} sha256={hashlib.sha256(src.encode()).hexdigest()[:16]}'


def str_lits(node, where):
    if not (isinstance(node, ast.List) and all(isinstance(e, ast.Constant) and type(e.value) is str for e in node.elts)):
        bad(f'{where}: not a list of string literals')
    return coq_list([coq_list([coq_Z(ord(ch)) for ch in e.value]) for e in node.elts])


def convert_value():
    rel = 'pedantic/decorators/fn_deco_validate/convert_value.py'
    src, tree = load(rel)
    f = find_def(tree, 'convert_value', UNIT)
    if [x.arg for x in f.args.args] != ['value', 'target_type'] or f.args.vararg or f.args.kwarg or f.args.kwonlyargs or f.args.defaults:
        bad('convert_value: signature changed')
    body = strip_doc(f.body)
    if len(body) != 4:
        bad('convert_value: top level shape changed')
    if not same(body[0], 'if isinstance(value, target_type):\n    return value'):
        bad('convert_value: the isinstance shortcut changed')
    # normalisation chain: value = str(value).m1().m2()...   either bare or as the only statement of a try
    st = body[1]
    h_norm = '[]'
    if isinstance(st, ast.Try):
        if len(st.body) != 1:
            bad('convert_value: the try around the normalisation holds more than one statement')
        h_norm = handler_table(st, 'convert_value/normalise')
        st = st.body[0]
    if not (isinstance(st, ast.Assign) and len(st.targets) == 1 and is_name(st.targets[0], 'value')):
        bad('convert_value: second statement is not `value = ...`')
    ops = []
    e = st.value
    while isinstance(e, ast.Call) and isinstance(e.func, ast.Attribute) and not e.args and not e.keywords \
            and e.func.attr in ('strip', 'lower', 'upper'):
        ops.append({'strip': 'NStrip', 'lower': 'NLower', 'upper': 'NUpper'}[e.func.attr])
        e = e.func.value
    if not same(e, 'str(value)'):
        bad('convert_value: normalisation does not start from str(value)')
    ops = ['NStr'] + list(reversed(ops))
    # bool branch
    b = body[2]
    if not (isinstance(b, ast.If) and not b.orelse and same(b.test, 'target_type == bool') and len(b.body) == 2
            and isinstance(b.body[0], ast.If) and isinstance(b.body[1], ast.Raise)):
        bad('convert_value: bool branch shape changed')
    i1 = b.body[0]
    if not (isinstance(i1.test, ast.Compare) and len(i1.test.ops) == 1 and isinstance(i1.test.ops[0], ast.In)
            and is_name(i1.test.left, 'value') and len(i1.body) == 1 and same(i1.body[0], 'return True')
            and len(i1.orelse) == 1 and isinstance(i1.orelse[0], ast.If)):
        bad('convert_value: `if value in [...]: return True` changed')
    i2 = i1.orelse[0]
    if not (isinstance(i2.test, ast.Compare) and len(i2.test.ops) == 1 and isinstance(i2.test.ops[0], ast.In)
            and is_name(i2.test.left, 'value') and len(i2.body) == 1 and same(i2.body[0], 'return False') and not i2.orelse):
        bad('convert_value: `elif value in [...]: return False` changed')
    trues = str_lits(i1.test.comparators[0], 'convert_value true literals')
    falses = str_lits(i2.test.comparators[0], 'convert_value false literals')
    r = b.body[1]
    if not (r.cause is None and isinstance(r.exc, ast.Call) and is_name(r.exc.func) and r.exc.func.id in EXN):
        bad('convert_value: bool fall-through is not `raise <KnownClass>(...)`')
    bool_else = EXN[r.exc.func.id]
    # dispatch
    t = body[3]
    if not isinstance(t, ast.Try) or len(t.body) != 2:
        bad('convert_value: dispatch is not a try statement with two statements')
    expect = ("if target_type == list:\n    return [item.strip() for item in value.split(',')]\n"
              "elif target_type == dict:\n    value = {item.split(':')[0].strip(): item.partition(':')[-1].strip() "
              "for item in value.split(',')}")
    if not same(t.body[0], expect) or not same(t.body[1], 'return target_type(value)'):
        bad('convert_value: list/dict/constructor dispatch changed')
    return provenance(rel, src, f), coq_list(ops), trues, falses, bool_else, handler_table(t, 'convert_value'), h_norm


# ---------------------------------------------------------------------------------------------------------
# regular expressions: the subset of Python `re` syntax with a Coq counterpart (Model/ValidatorsRegex.v)
class RegexUnsupported(Exception):
    pass


SPECIAL = set('.^$*+?{}[]\\|()')
CTRL = {'n': 10, 't': 9, 'r': 13, 'f': 12, 'v': 11}


def parse_regex(p):
    """-> nested tuples: ('none',) ('eps',) ('set', neg, [items]) ('cat', a, b) ('alt', a, b) ('star', a) ('plus', a) ('opt', a) ('end',)
    items: ('range', lo, hi) | ('space',)"""
    pos = 0

    def peek():
        return p[pos] if pos < len(p) else None

    def esc_class_or_char(in_set):
        nonlocal pos
        pos += 1
        ch = peek()
        if ch is None:
            raise RegexUnsupported('dangling backslash')
        pos += 1
        if ch == 's':
            return ('space',)
        if ch in CTRL:
            return ('range', CTRL[ch], CTRL[ch])
        if ch.isalnum():
            raise RegexUnsupported(f'escape \\{ch} is not supported')
        return ('range', ord(ch), ord(ch))

    def parse_set():
        nonlocal pos
        pos += 1
        neg = False
        if peek() == '^':
            neg = True
            pos += 1
        items = []
        first = True
        while True:
            ch = peek()
            if ch is None:
                raise RegexUnsupported('unterminated character set')
            if ch == ']' and not first:
                pos += 1
                break
            first = False
            if ch == '[':
                raise RegexUnsupported('`[` inside a character set')
            if ch == '\\':
                it = esc_class_or_char(True)
            else:
                pos += 1
                it = ('range', ord(ch), ord(ch))
            if it[0] == 'range' and peek() == '-' and pos + 1 < len(p) and p[pos + 1] != ']':
                pos += 1
                hi_ch = peek()
                if hi_ch == '\\':
                    hi = esc_class_or_char(True)
                    if hi[0] != 'range':
                        raise RegexUnsupported('class as range end')
                    hi = hi[1]
                else:
                    pos += 1
                    hi = ord(hi_ch)
                if hi < it[1]:
                    raise RegexUnsupported('bad character range')
                it = ('range', it[1], hi)
            items.append(it)
        return ('set', neg, items)

    def atom():
        nonlocal pos
        ch = peek()
        if ch == '(':
            pos += 1
            if p.startswith('?:', pos):
                pos += 2
            elif peek() == '?':
                raise RegexUnsupported('group extension')
            r = alt()
            if peek() != ')':
                raise RegexUnsupported('unbalanced parenthesis')
            pos += 1
            return r
        if ch == '[':
            return parse_set()
        if ch == '.':
            pos += 1
            return ('set', True, [('range', 10, 10)])
        if ch == '$':
            pos += 1
            return ('end',)
        if ch == '\\':
            it = esc_class_or_char(False)
            return ('set', False, [it])
        if ch in SPECIAL:
            raise RegexUnsupported(f'`{ch}` is not supported here')
        pos += 1
        return ('set', False, [('range', ord(ch), ord(ch))])

    def rep():
        nonlocal pos
        r = atom()
        while peek() in ('*', '+', '?'):
            q = peek()
            pos += 1
            if peek() in ('?', '+'):
                raise RegexUnsupported('lazy / possessive quantifier')
            if r[0] in ('star', 'plus', 'opt'):
                raise RegexUnsupported('multiple repeat')
            r = ({'*': 'star', '+': 'plus', '?': 'opt'}[q], r)
        if peek() == '{':
            raise RegexUnsupported('counted repetition')
        return r

    def cat():
        parts = []
        while peek() is not None and peek() not in ('|', ')'):
            parts.append(rep())
        if not parts:
            return ('eps',)
        r = parts[-1]
        for x in reversed(parts[:-1]):
            r = ('cat', x, r)
        return r

    def alt():
        nonlocal pos
        r = cat()
        while peek() == '|':
            pos += 1
            r2 = cat()
            r = ('alt', r, r2)
        return r

    out = alt()
    if pos != len(p):
        raise RegexUnsupported(f'unexpected `{p[pos]}` at {pos}')
    return out


def regex_to_coq(r):
    k = r[0]
    if k == 'none':
        return 'RNone'
    if k == 'eps':
        return 'REps'
    if k == 'end':
        return 'REnd'
    if k == 'set':
        items = ['CSpace' if it[0] == 'space' else f'CRange {coq_Z(it[1])} {coq_Z(it[2])}' for it in r[2]]
        return f'(RSet {coq_bool(r[1])} {coq_list(items)})'
    if k in ('cat', 'alt'):
        return f'({"RCat" if k == "cat" else "RAlt"} {regex_to_coq(r[1])} {regex_to_coq(r[2])})'
    return f'({ {"star": "RStar", "plus": "RPlus", "opt": "ROpt"}[k]} {regex_to_coq(r[1])})'


# ---------------------------------------------------------------------------------------------------------
def translate():
    out = header('t_validators.py', ['From PV Require Import Base.Exn Model.ValidatorsBase Model.ValidatorsRegex.'])
    d = []

    def line(s):
        d.append(s)

    def prov(name, p):
        line(f'Definition src_{name} : string := {coq_string(p)}.')

    prov('exceptions', exceptions())
    p, cls, h = abstract_validator()
    prov('abstract_validator', p)
    line(f'Definition raise_exception_cls : exn := {cls}.')
    line(f'Definition h_validate_param : htable := {h}.')
    for cls_, rel in (('Min', 'min.py'), ('Max', 'max.py')):
        p, tests, dom, dom_fmt = bound_family(VDIR + rel, cls_)
        prov(cls_.lower(), p)
        line(f'Definition {cls_.lower()}_tests : list btest := {tests}.')
        line(f'Definition {cls_.lower()}_dom : domkind := {dom}.')
        line(f'Definition {cls_.lower()}_dom_fmt : list fmtarg := {dom_fmt}.')
    for cls_, rel, nm in (('MinLength', 'min_length.py', 'minlen'), ('MaxLength', 'max_length.py', 'maxlen')):
        p, dom, op, dom_fmt, fmt = length_family(VDIR + rel, cls_)
        prov(nm, p)
        line(f'Definition {nm}_dom : domkind := {dom}.')
        line(f'Definition {nm}_op : cmpop := {op}.')
        line(f'Definition {nm}_dom_fmt : list fmtarg := {dom_fmt}.')
        line(f'Definition {nm}_fmt : list fmtarg := {fmt}.')
    p, rec = not_empty()
    prov('notempty', p)
    line(f'Definition notempty_cfg : notempty_shape := {rec}.')
    p, rec = composite()
    prov('composite', p)
    line(f'Definition composite_cfg : composite_shape := {rec}.')
    p, rec = for_each()
    prov('foreach', p)
    line(f'Definition foreach_cfg : foreach_shape := {rec}.')
    p, h, fm = is_uuid()
    prov('is_uuid', p)
    line(f'Definition h_is_uuid : htable := {h}.')
    line(f'Definition h_is_uuid_fmt : list fmtarg := {fm}.')
    p, h, guard, fm = is_enum()
    prov('is_enum', p)
    line(f'Definition h_is_enum : htable := {h}.')
    line(f'Definition h_is_enum_fmt : list fmtarg := {fm}.')
    line(f'Definition enum_float_guard : bool := {coq_bool(guard)}.')
    p, h, fm = iso_format()
    prov('iso', p)
    line(f'Definition h_iso : htable := {h}.')
    line(f'Definition h_iso_fmt : list fmtarg := {fm}.')
    p, dom, h1, h2, dfm, fm1, fm2 = unix_timestamp()
    prov('unix', p)
    line(f'Definition unix_dom : domkind := {dom}.')
    line(f'Definition unix_dom_fmt : list fmtarg := {dfm}.')
    line(f'Definition h_unix_float_fmt : list fmtarg := {fm1}.')
    line(f'Definition h_unix_add_fmt : list fmtarg := {fm2}.')
    line(f'Definition h_unix_float : htable := {h1}.')
    line(f'Definition h_unix_add : htable := {h2}.')
    p, mode, rx, pattern, fm = email()
    prov('email', p)
    line(f'Definition email_fmt : list fmtarg := {fm}.')
    line(f'Definition regex_email_text : string := {coq_string(pattern)}.')
    line(f'Definition email_mode : matchmode := {mode}.')
    line(f'Definition regex_email : re := {rx}.')
    p, mode, fm = match_pattern()
    prov('match_pattern', p)
    line(f'Definition matchpattern_fmt : list fmtarg := {fm}.')
    line(f'Definition matchpattern_mode : matchmode := {mode}.')
    p, ops, trues, falses, bool_else, h, h_norm = convert_value()
    prov('convert_value', p)
    line(f'Definition cv_norm : list normop := {ops}.')
    line(f'Definition cv_true : list (list Z) := {trues}.')
    line(f'Definition cv_false : list (list Z) := {falses}.')
    line(f'Definition cv_bool_else : exn := {bool_else}.')
    line(f'Definition h_convert : htable := {h}.')
    line(f'Definition h_convert_norm : htable := {h_norm}.')
    return {UNIT: out + '\n'.join(d) + '\n'}
