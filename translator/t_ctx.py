"""T5/CtxShape: pedantic/decorators/fn_deco_context_manager.py -> Gen/CtxShape.v

For each of `safe_contextmanager` and `safe_async_contextmanager` the translator emits
  * the decoration-time guards as a program of `gstmt` (which inspect predicate is tested, in which
    order, which exception class is raised; also guards written as `assert` statements - which vanish under
    python -O -, guards that consult the global switch `is_enabled()`, and an early `return contextmanager(f)` /
    `return asynccontextmanager(f)` / `return f` before the wrapper is defined: Model/SafeCtx.v gives them their
    meaning under every switch state and interpreter mode and the theorems decide),
  * the body of the nested wrapper generator as a program of the statement language of
    Model/SafeCtx.v (`SAssignCall`, `SYieldNext`, `SNext`, `SPass`, `SReraise`, `STryFinally`,
    `STryExcept` with the caught classes),
  * whether the wrapper is `async def`, carries `@wraps(f)`, and what the decorator returns
    (`contextmanager(wrapper)`, `asynccontextmanager(wrapper)` or the bare wrapper).
It does not decide whether the shape is "right": the theorems of coq/Props/C16.v are checked against
whatever program comes out.  Anything outside the whitelist fails closed."""
import ast
from common import *

REL = 'pedantic/decorators/fn_deco_context_manager.py'
UNIT = 'CtxShape'
UNITS = [UNIT]

EXC = {'BaseException': 'BaseExceptionC', 'Exception': 'ExceptionC', 'KeyboardInterrupt': 'KeyboardInterruptC',
       'SystemExit': 'SystemExitC', 'GeneratorExit': 'GeneratorExitC', 'ValueError': 'ValueErrorC',
       'TypeError': 'TypeErrorC', 'LookupError': 'LookupErrorC', 'IndexError': 'IndexErrorC', 'KeyError': 'KeyErrorC',
       'AttributeError': 'AttributeErrorC', 'AssertionError': 'AssertionErrorC', 'RuntimeError': 'RuntimeErrorC',
       'RecursionError': 'RecursionErrorC', 'NotImplementedError': 'NotImplementedErrorC',
       'StopIteration': 'StopIterationC', 'StopAsyncIteration': 'StopAsyncIterationC',
       'ArithmeticError': 'ArithmeticErrorC', 'OverflowError': 'OverflowErrorC', 'NameError': 'NameErrorC',
       'OSError': 'OSErrorC', 'EOFError': 'EOFErrorC'}
IMPORTS = {'contextmanager': 'contextlib', 'asynccontextmanager': 'contextlib', 'wraps': 'functools',
           'isasyncgenfunction': 'inspect', 'isgeneratorfunction': 'inspect'}
BUILTINS_USED = ('next', 'anext') + tuple(EXC)
# names that may be imported in addition; when a guard uses one it must be bound exactly like this
OPTIONAL_IMPORTS = {'is_enabled': 'pedantic.env_var_logic'}


def bad(reason):
    raise Untranslatable(UNIT, reason)


def check_module_bindings(tree):
    """the names the translation relies on are bound by `from <module> import <name>` and by nothing else"""
    bound = {}
    for n in tree.body:
        if isinstance(n, ast.ImportFrom):
            for al in n.names:
                bound.setdefault(al.asname or al.name, []).append((n.module, al.name, n.level))
        elif isinstance(n, ast.Import):
            for al in n.names:
                bound.setdefault((al.asname or al.name).split('.')[0], []).append(('<import>', al.name, 0))
        elif isinstance(n, (ast.FunctionDef, ast.AsyncFunctionDef, ast.ClassDef)):
            bound.setdefault(n.name, []).append(('<def>', n.name, 0))
        elif isinstance(n, (ast.Assign, ast.AnnAssign, ast.AugAssign)):
            for t in ast.walk(n):
                if isinstance(t, ast.Name) and isinstance(t.ctx, ast.Store):
                    bound.setdefault(t.id, []).append(('<assign>', t.id, 0))
        elif isinstance(n, ast.Expr) and isinstance(n.value, ast.Constant):
            pass
        else:
            bad(f'unrecognised module-level statement at line {n.lineno}')
    for name, mod in IMPORTS.items():
        if bound.get(name) != [(mod, name, 0)]:
            bad(f'{name} is not bound exactly once by `from {mod} import {name}` (found {bound.get(name)})')
    for name, mod in OPTIONAL_IMPORTS.items():
        if name in bound and bound[name] != [(mod, name, 0)]:
            bad(f'{name} is bound at module level otherwise than once by `from {mod} import {name}` (found {bound[name]})')
    for name in BUILTINS_USED:
        if name in bound:
            bad(f'builtin {name} is shadowed at module level')
    return bound
    for name in ('safe_contextmanager', 'safe_async_contextmanager'):
        if bound.get(name) != [('<def>', name, 0)]:
            bad(f'{name} is not bound exactly once, by its def (found {bound.get(name)})')


def gcond(node, p, bound):
    if isinstance(node, ast.UnaryOp) and isinstance(node.op, ast.Not):
        return f'(CNot {gcond(node.operand, p, bound)})'
    if isinstance(node, ast.BoolOp) and len(node.values) >= 2:
        op = 'CAnd' if isinstance(node.op, ast.And) else 'COr'
        out = gcond(node.values[-1], p, bound)
        for v in reversed(node.values[:-1]):
            out = f'({op} {gcond(v, p, bound)} {out})'
        return out
    if isinstance(node, ast.Call) and isinstance(node.func, ast.Name) and len(node.args) == 1 and not node.keywords \
            and is_name(node.args[0], p):
        if node.func.id == 'isgeneratorfunction':
            return 'CIsGenFn'
        if node.func.id == 'isasyncgenfunction':
            return 'CIsAsyncGenFn'
    if isinstance(node, ast.Call) and is_name(node.func, 'is_enabled') and not node.args and not node.keywords:
        if bound.get('is_enabled') != [(OPTIONAL_IMPORTS['is_enabled'], 'is_enabled', 0)]:
            bad(f'is_enabled() at line {node.lineno} is not pedantic.env_var_logic.is_enabled')
        return 'CIsEnabled'
    bad(f'unrecognised guard condition at line {node.lineno}')


def gblock(stmts, p, bound):
    items = []
    for s in stmts:
        if isinstance(s, ast.If):
            if s.orelse:
                bad(f'guard with else/elif at line {s.lineno}')
            items.append(f'GIf {gcond(s.test, p, bound)} ({gblock(s.body, p, bound)})')
        elif isinstance(s, ast.Raise) and s.exc is not None and s.cause is None:
            e = s.exc.func if isinstance(s.exc, ast.Call) else s.exc
            if not (isinstance(e, ast.Name) and e.id in EXC):
                bad(f'guard raises an unrecognised class at line {s.lineno}')
            items.append(f'GRaise {EXC[e.id]}')
        elif isinstance(s, ast.Assert):
            # `assert <cond>, <msg>`: AssertionError when the condition is false - and nothing at all under -O
            items.append(f'GAssert {gcond(s.test, p, bound)}')
        elif isinstance(s, ast.Return) and s.value is not None:
            # leaving before the wrapper is defined: the decorated function without the wrapper
            r = s.value
            if is_name(r, p):
                items.append('GReturn EarlyBareF')
            elif isinstance(r, ast.Call) and isinstance(r.func, ast.Name) and len(r.args) == 1 and not r.keywords \
                    and is_name(r.args[0], p) and r.func.id in ('contextmanager', 'asynccontextmanager'):
                items.append('GReturn ' + ('EarlyContextmanagerF' if r.func.id == 'contextmanager' else 'EarlyAsyncContextmanagerF'))
            else:
                bad(f'unrecognised early return at line {s.lineno}')
        else:
            bad(f'unrecognised guard statement at line {s.lineno}')
    out = 'GNil'
    for it in reversed(items):
        out = f'GCons ({it}) ({out})'
    return out


class Wrapper:
    def __init__(self, wdef, p):
        self.is_async = isinstance(wdef, ast.AsyncFunctionDef)
        self.p = p
        self.vars = {}
        a = wdef.args
        self.params_ok = (not a.posonlyargs and not a.args and not a.kwonlyargs and not a.defaults and not a.kw_defaults
                          and a.vararg is not None and a.kwarg is not None)
        self.va = a.vararg.arg if a.vararg else None
        self.kw = a.kwarg.arg if a.kwarg else None
        for nm in (self.va, self.kw):
            if nm in (p, 'next', 'anext') or nm in EXC:
                bad('wrapper parameter shadows a name the translation relies on')

    def var(self, name, store=False):
        if name in (self.p, self.va, self.kw, 'next', 'anext') or name in EXC or name in IMPORTS:
            bad(f'wrapper rebinds or iterates {name}')
        if name not in self.vars:
            self.vars[name] = len(self.vars)
        return self.vars[name]

    def fwd(self, call):
        same = (self.params_ok and len(call.args) == 1 and isinstance(call.args[0], ast.Starred)
                and is_name(call.args[0].value, self.va) and len(call.keywords) == 1 and call.keywords[0].arg is None
                and is_name(call.keywords[0].value, self.kw))
        return 'FwdSame' if same else 'FwdOther'

    def next_of(self, node):
        """next(<var>) in a def, await anext(<var>) in an async def -> variable index"""
        if self.is_async:
            if not isinstance(node, ast.Await):
                return None
            node = node.value
            fn = 'anext'
        else:
            fn = 'next'
        if isinstance(node, ast.Call) and is_name(node.func, fn) and len(node.args) == 1 and not node.keywords \
                and isinstance(node.args[0], ast.Name):
            return self.var(node.args[0].id)
        return None

    def classes(self, t, lineno):
        if t is None:
            return ['BaseExceptionC']
        elts = t.elts if isinstance(t, ast.Tuple) else [t]
        out = []
        for e in elts:
            if not (isinstance(e, ast.Name) and e.id in EXC):
                bad(f'except clause with an unrecognised class at line {lineno}')
            out.append(EXC[e.id])
        return out

    def block(self, stmts):
        items = [self.stmt(s) for s in stmts]
        out = 'BNil'
        for it in reversed(items):
            out = f'BCons ({it}) ({out})'
        return out

    def stmt(self, s):
        if isinstance(s, ast.Pass):
            return 'SPass'
        if isinstance(s, ast.Raise) and s.exc is None:
            return 'SReraise'
        if isinstance(s, ast.Assign) and len(s.targets) == 1 and isinstance(s.targets[0], ast.Name) \
                and isinstance(s.value, ast.Call) and is_name(s.value.func, self.p):
            return f'SAssignCall {self.var(s.targets[0].id, True)} {self.fwd(s.value)}'
        if isinstance(s, ast.Expr):
            v = s.value
            if isinstance(v, ast.Yield) and v.value is not None:
                i = self.next_of(v.value)
                if i is not None:
                    return f'SYieldNext {i}'
            i = self.next_of(v)
            if i is not None:
                return f'SNext {i}'
        if isinstance(s, ast.Try):
            if s.orelse:
                bad(f'try/else at line {s.lineno}')
            body = self.block(s.body)
            if s.handlers:
                hs = 'HNil'
                for h in reversed(s.handlers):
                    if h.name is not None:
                        bad(f'`except ... as {h.name}` at line {h.lineno}')
                    hs = f'HCons {coq_list(self.classes(h.type, h.lineno))} ({self.block(h.body)}) ({hs})'
                inner = f'STryExcept ({body}) ({hs})'
                if s.finalbody:
                    return f'STryFinally (BCons ({inner}) BNil) ({self.block(s.finalbody)})'
                return inner
            if s.finalbody:
                return f'STryFinally ({body}) ({self.block(s.finalbody)})'
        bad(f'unrecognised statement in the wrapper at line {s.lineno}: {type(s).__name__}')


def one(src, tree, name, bound):
    d = find_def(tree, name, UNIT, kinds=(ast.FunctionDef,))
    if d not in tree.body:
        bad(f'{name} is not a module-level function')
    if d.decorator_list:
        bad(f'{name} is itself decorated')
    a = d.args
    if len(a.args) != 1 or a.posonlyargs or a.kwonlyargs or a.vararg or a.kwarg or a.defaults:
        bad(f'{name} does not take exactly one parameter')
    p = a.args[0].arg
    body = strip_doc(d.body)
    defs = [i for i, s in enumerate(body) if isinstance(s, (ast.FunctionDef, ast.AsyncFunctionDef))]
    if len(defs) != 1:
        bad(f'{name}: expected exactly one nested function, found {len(defs)}')
    i = defs[0]
    guards = gblock(body[:i], p, bound)
    wdef = body[i]
    rest = body[i + 1:]
    if len(rest) != 1 or not isinstance(rest[0], ast.Return) or rest[0].value is None:
        bad(f'{name}: the nested function is not followed by a single return')
    r = rest[0].value
    if is_name(r, wdef.name):
        ret = 'RetBare'
    elif isinstance(r, ast.Call) and isinstance(r.func, ast.Name) and len(r.args) == 1 and not r.keywords \
            and is_name(r.args[0], wdef.name) and r.func.id in ('contextmanager', 'asynccontextmanager'):
        ret = 'RetContextmanager' if r.func.id == 'contextmanager' else 'RetAsyncContextmanager'
    else:
        bad(f'{name}: unrecognised return expression at line {r.lineno}')
    wraps = False
    for dec in wdef.decorator_list:
        if isinstance(dec, ast.Call) and is_name(dec.func, 'wraps') and len(dec.args) == 1 and not dec.keywords \
                and is_name(dec.args[0], p):
            wraps = True
        else:
            bad(f'{name}: unrecognised decorator on the wrapper at line {dec.lineno}')
    # nothing inside the decorator may rebind the names the translation relies on
    for n in ast.walk(d):
        if isinstance(n, ast.Name) and isinstance(n.ctx, (ast.Store, ast.Del)) and \
                (n.id in IMPORTS or n.id in OPTIONAL_IMPORTS or n.id in BUILTINS_USED or n.id == p):
            bad(f'{name}: {n.id} is rebound at line {n.lineno}')
        if isinstance(n, (ast.Global, ast.Nonlocal, ast.Import, ast.ImportFrom, ast.Lambda, ast.ClassDef)):
            bad(f'{name}: unsupported construct {type(n).__name__} at line {n.lineno}')
    if wdef.name in IMPORTS or wdef.name in BUILTINS_USED or wdef.name == p:
        bad(f'{name}: the wrapper shadows {wdef.name}')
    w = Wrapper(wdef, p)
    prog = w.block(strip_doc(wdef.body))
    text = f'Definition src_{name} : string := {coq_string(provenance(REL, src, d))}.\n'
    text += f'Definition {name}_deco : deco := {{|\n'
    text += f'  d_guards := {guards};\n  d_prog := {prog};\n'
    text += f'  d_async_def := {coq_bool(w.is_async)};\n  d_wraps := {coq_bool(wraps)};\n  d_ret := {ret} |}}.\n'
    return text


def translate():
    src, tree = load(REL)
    bound = check_module_bindings(tree)
    out = header('t_ctx.py', ['From PV Require Import Base.Exn Model.Generator Model.SafeCtx.'])
    out += one(src, tree, 'safe_contextmanager', bound)
    out += one(src, tree, 'safe_async_contextmanager', bound)
    return {UNIT: out}
