"""T1/T3 pedantic call protocol -> Gen/Pedantic.v

Sources: pedantic/models/decorated_function.py, pedantic/models/function_call.py,
pedantic/decorators/fn_deco_pedantic.py, pedantic/decorators/fn_deco_require_kwargs.py,
pedantic/models/generator_wrapper.py.

Extracted as data / tiny programs (types in coq/Model/PedanticCfg.v):
  * FUNCTIONS_THAT_REQUIRE_KWARGS (list literal of strings),
  * DecoratedFunction.should_have_kwargs as an if-chain of boolean expressions over five atoms,
  * FunctionCall.args_without_self (the two max_allowed constants, the comparison, the disjuncts, the slice),
  * FunctionCall.assert_uses_kwargs (the conjuncts and the exception class),
  * FunctionCall._check_types_of_arguments (which pass runs on which parameter filter, in order),
  * FunctionCall._get_return_value / _async_get_return_value (when the positional arguments are dropped),
  * FunctionCall.check_types / async_check_types (statement sequence),
  * wrapper / async_wrapper of pedantic and wrapper of require_kwargs (statement sequence),
  * GeneratorWrapper: the list of accepted base generics.
The text predicates of DecoratedFunction and the routing `is_coroutine -> async_wrapper` are matched
exactly (fail closed).  The functions that are modelled by hand in coq/Model/Pedantic.v and
coq/Model/GenWrapper.v are emitted as (name, hash of the normalised AST) pairs: `locks`; the drivers of
C03 / C04 / C05 compare them with the committed coq/Gen.baseline/Pedantic.v (the tree the hand-written model was
validated against) - obligation `locks:hand-modelled-functions`.
Nothing is evaluated; anything outside the whitelist raises Untranslatable."""
import ast, hashlib
from common import *

UNIT = 'Pedantic'
UNITS = [UNIT]
DF = 'pedantic/models/decorated_function.py'
FC = 'pedantic/models/function_call.py'
PD = 'pedantic/decorators/fn_deco_pedantic.py'
RK = 'pedantic/decorators/fn_deco_require_kwargs.py'
GW = 'pedantic/models/generator_wrapper.py'

EXN = {'PedanticCallWithArgsException': 'PCallWithArgsC', 'PedanticTypeCheckException': 'PTypeCheckC',
       'PedanticException': 'PedanticExceptionC', 'PedanticTypeVarMismatchException': 'PTypeVarMismatchC',
       'TypeError': 'TypeErrorC', 'ValueError': 'ValueErrorC', 'AssertionError': 'AssertionErrorC',
       'Exception': 'ExceptionC', 'RuntimeError': 'RuntimeErrorC'}
CMP = {ast.Gt: 'CGt', ast.GtE: 'CGe', ast.Lt: 'CLt', ast.LtE: 'CLe', ast.Eq: 'CEq', ast.NotEq: 'CNe'}


def bad(reason):
    raise Untranslatable(UNIT, reason)


SKIP_FIELDS = {'type_params', 'type_comment', 'kind', 'ctx', 'lineno', 'col_offset', 'end_lineno', 'end_col_offset'}


def ndump(node):
    """dump of an AST that does not depend on the Python version running the translator: node class names and the
    non-empty fields of the grammar the library is written in; positions and docstrings are ignored"""
    def go(n, top_body=False):
        if isinstance(n, ast.AST):
            parts = []
            for f in n._fields:
                if f in SKIP_FIELDS:
                    continue
                v = getattr(n, f, None)
                if f == 'body' and isinstance(n, (ast.FunctionDef, ast.AsyncFunctionDef, ast.ClassDef)):
                    v = strip_doc(v)
                if v is None or v == []:
                    continue
                parts.append(f + '=' + go(v))
            return type(n).__name__ + '(' + ','.join(parts) + ')'
        if isinstance(n, list):
            return '[' + ','.join(go(x) for x in n) + ']'
        return repr(n)
    return go(node)


def same(node, text, mode='expr'):
    exp = ast.parse(text).body[0]
    if mode == 'expr':
        exp = exp.value
    return ast.dump(node, annotate_fields=False) == ast.dump(exp, annotate_fields=False)


def lock(node):
    return hashlib.sha256(ndump(node).encode()).hexdigest()[:16]


def prop_return(cls, name, where):
    """the single `return <expr>` of a property / method (docstring ignored)"""
    f = find_in(cls, name, UNIT)
    body = strip_doc(f.body)
    if len(body) != 1 or not isinstance(body[0], ast.Return) or body[0].value is None:
        bad(f'{where}.{name}: body is not a single return statement')
    return body[0].value


# ------------------------------------------------------------------------------------------ decorated_function.py
def bexp(e, where):
    if isinstance(e, ast.Constant) and isinstance(e.value, bool):
        return f'(BConst {coq_bool(e.value)})'
    if isinstance(e, ast.UnaryOp) and isinstance(e.op, ast.Not):
        return f'(BNot {bexp(e.operand, where)})'
    if isinstance(e, ast.BoolOp):
        c = 'BOr' if isinstance(e.op, ast.Or) else 'BAnd'
        out = bexp(e.values[0], where)
        for v in e.values[1:]:
            out = f'({c} {out} {bexp(v, where)})'
        return out
    for text, atom in (('self.is_property_setter', 'AtSetter'), ('self.wants_args', 'AtWantsArgs'),
                       ("self.name.startswith('__')", 'AtStarts'), ("self.name.endswith('__')", 'AtEnds'),
                       ('self.name in FUNCTIONS_THAT_REQUIRE_KWARGS', 'AtListed')):
        if same(e, text):
            return f'(BAtom {atom})'
    bad(f'{where}: unrecognised condition `{ast.unparse(e)}`')


def chain(stmts, where):
    """[if c: return e (elif ...)]* return e  ->  ([(c, e)...], final)"""
    pairs = []
    stmts = list(stmts)
    while stmts:
        s = stmts.pop(0)
        if isinstance(s, ast.Return) and s.value is not None:
            if stmts:
                bad(f'{where}: statements after return')
            return pairs, bexp(s.value, where)
        if isinstance(s, ast.If) and len(s.body) == 1 and isinstance(s.body[0], ast.Return) and s.body[0].value is not None:
            pairs.append((bexp(s.test, where), bexp(s.body[0].value, where)))
            if s.orelse:
                if stmts:
                    # if/else followed by more statements: the else branch must return, the rest is dead or a fall-through
                    pass
                stmts = list(s.orelse) + stmts
            continue
        bad(f'{where}: unrecognised statement at line {s.lineno}')
    bad(f'{where}: no final return')


def translate_decorated_function():
    src, tree = load(DF)
    # the list literal
    hits = [n for n in tree.body if isinstance(n, ast.Assign) and len(n.targets) == 1
            and is_name(n.targets[0], 'FUNCTIONS_THAT_REQUIRE_KWARGS')]
    if len(hits) != 1 or not isinstance(hits[0].value, (ast.List, ast.Tuple, ast.Set)):
        bad('FUNCTIONS_THAT_REQUIRE_KWARGS is not assigned exactly once to a list literal')
    names = []
    for e in hits[0].value.elts:
        if not (isinstance(e, ast.Constant) and isinstance(e.value, str) and e.value.isascii() and '"' not in e.value):
            bad('FUNCTIONS_THAT_REQUIRE_KWARGS: element is not a plain string literal')
        names.append(e.value)
    others = [n for n in ast.walk(tree) if isinstance(n, (ast.Name, ast.Attribute)) and isinstance(getattr(n, 'ctx', None), ast.Store)
              and (getattr(n, 'id', None) == 'FUNCTIONS_THAT_REQUIRE_KWARGS' or getattr(n, 'attr', None) == 'FUNCTIONS_THAT_REQUIRE_KWARGS')]
    if len(others) != 1:
        bad('FUNCTIONS_THAT_REQUIRE_KWARGS is rebound')
    cls = find_class(tree, 'DecoratedFunction', UNIT)
    # text predicates and inspect predicates: exact
    exact = {
        'is_static_method': "'@staticmethod' in self.source",
        'wants_args': "'*args' in self.source",
        'is_property_setter': "f'@{self.name}.setter' in self.source",
        'is_pedantic': "'@pedantic' in self.source or '@require_kwargs' in self.source",
        'num_of_decorators': "len(re.findall('@', self.source.split('def')[0]))",
        'is_instance_method': "self._full_arg_spec.args != [] and self._full_arg_spec.args[0] == 'self'",
        'is_class_method': 'inspect.ismethod(self._func)',
        'is_coroutine': 'inspect.iscoroutinefunction(self._func)',
        'is_generator': 'inspect.isgeneratorfunction(self._func)',
        'name': 'self._func.__name__',
        'full_name': 'self._func.__qualname__',
        'source': 'self._source',
        'signature': 'self._signature',
        'annotations': 'self._full_arg_spec.annotations',
        'func': 'self._func',
    }
    for name, text in exact.items():
        if not same(prop_return(cls, name, 'DecoratedFunction'), text):
            bad(f'DecoratedFunction.{name} is no longer `return {text}`')
    shk = find_in(cls, 'should_have_kwargs', UNIT)
    pairs, final = chain(strip_doc(shk.body), 'should_have_kwargs')
    init = find_in(cls, '__init__', UNIT)
    return names, pairs, final, {'DecoratedFunction.__init__': lock(init)}, provenance(DF, src, cls)


# ------------------------------------------------------------------------------------------ function_call.py
def translate_args_without_self(cls):
    f = find_in(cls, 'args_without_self', UNIT)
    b = strip_doc(f.body)
    W = 'args_without_self'
    if len(b) != 4:
        bad(f'{W}: expected 4 statements, found {len(b)}')
    s0, s1, s2, s3 = b
    # max_allowed = A if [not] self.func.is_pedantic else B
    if not (isinstance(s0, ast.Assign) and len(s0.targets) == 1 and is_name(s0.targets[0]) and isinstance(s0.value, ast.IfExp)
            and isinstance(s0.value.body, ast.Constant) and type(s0.value.body.value) is int and s0.value.body.value >= 0
            and isinstance(s0.value.orelse, ast.Constant) and type(s0.value.orelse.value) is int and s0.value.orelse.value >= 0):
        bad(f'{W}: first statement is not `<v> = <int> if <test> else <int>`')
    mvar = s0.targets[0].id
    t = s0.value.test
    if same(t, 'not self.func.is_pedantic'):
        max_other, max_ped = s0.value.body.value, s0.value.orelse.value
    elif same(t, 'self.func.is_pedantic'):
        max_ped, max_other = s0.value.body.value, s0.value.orelse.value
    else:
        bad(f'{W}: unrecognised test `{ast.unparse(t)}`')
    # uses_multiple_decorators = self.func.num_of_decorators <cmp> max_allowed
    if not (isinstance(s1, ast.Assign) and len(s1.targets) == 1 and is_name(s1.targets[0]) and isinstance(s1.value, ast.Compare)
            and len(s1.value.ops) == 1 and type(s1.value.ops[0]) in CMP and same(s1.value.left, 'self.func.num_of_decorators')
            and is_name(s1.value.comparators[0], mvar)):
        bad(f'{W}: second statement is not `<u> = self.func.num_of_decorators <cmp> {mvar}`')
    uvar = s1.targets[0].id
    cmp_ = CMP[type(s1.value.ops[0])]
    # if A or B or C: return self.args[n:]
    if not (isinstance(s2, ast.If) and not s2.orelse and len(s2.body) == 1 and isinstance(s2.body[0], ast.Return)):
        bad(f'{W}: third statement is not `if ...: return self.args[n:]`')
    vals = s2.test.values if (isinstance(s2.test, ast.BoolOp) and isinstance(s2.test.op, ast.Or)) else [s2.test]
    atoms = []
    for v in vals:
        if same(v, 'self.func.is_instance_method'):
            atoms.append('SaInstance')
        elif same(v, 'self.func.is_static_method'):
            atoms.append('SaStatic')
        elif is_name(v, uvar):
            atoms.append('SaMulti')
        else:
            bad(f'{W}: unrecognised disjunct `{ast.unparse(v)}`')
    r = s2.body[0].value
    if not (isinstance(r, ast.Subscript) and same(r.value, 'self.args') and isinstance(r.slice, ast.Slice)
            and r.slice.upper is None and r.slice.step is None and isinstance(r.slice.lower, ast.Constant)
            and type(r.slice.lower.value) is int and r.slice.lower.value >= 0):
        bad(f'{W}: the stripped tuple is not `self.args[<n>:]`')
    if not (isinstance(s3, ast.Return) and same(s3.value, 'self.args')):
        bad(f'{W}: last statement is not `return self.args`')
    return max_ped, max_other, cmp_, atoms, r.slice.lower.value


def translate_auk(cls):
    f = find_in(cls, 'assert_uses_kwargs', UNIT)
    b = strip_doc(f.body)
    W = 'assert_uses_kwargs'
    if not (len(b) == 1 and isinstance(b[0], ast.If) and not b[0].orelse and len(b[0].body) == 1 and isinstance(b[0].body[0], ast.Raise)):
        bad(f'{W}: body is not `if ...: raise ...`')
    t = b[0].test
    vals = t.values if (isinstance(t, ast.BoolOp) and isinstance(t.op, ast.And)) else [t]
    atoms = []
    for v in vals:
        if same(v, 'self.func.should_have_kwargs'):
            atoms.append('AkShould')
        elif same(v, 'self.args_without_self'):
            atoms.append('AkArgsLeft')
        else:
            bad(f'{W}: unrecognised conjunct `{ast.unparse(v)}`')
    exc = b[0].body[0].exc
    if not (isinstance(exc, ast.Call) and is_name(exc.func) and exc.func.id in EXN):
        bad(f'{W}: raises something unrecognised')
    return atoms, EXN[exc.func.id]


def translate_passes(cls):
    f = find_in(cls, '_check_types_of_arguments', UNIT)
    b = strip_doc(f.body)
    W = '_check_types_of_arguments'
    if not (b and isinstance(b[0], ast.Assign) and len(b[0].targets) == 1 and is_name(b[0].targets[0])
            and same(b[0].value, 'self.params_without_self.items()')):
        bad(f'{W}: first statement is not `d = self.params_without_self.items()`')
    d = b[0].targets[0].id
    conds = {"not str(v).startswith('*')": ('PNamed', '_check_type_param'),
             "str(v).startswith('*') and not str(v).startswith('**')": ('PVarPos', '_check_types_args'),
             "str(v).startswith('**')": ('PVarKw', '_check_types_kwargs')}
    out = []
    for s in b[1:]:
        ok = False
        if isinstance(s, ast.Expr) and isinstance(s.value, ast.Call):
            for cond, (kind, meth) in conds.items():
                if same(s.value, f'self.{meth}(params={{k: v for k, v in {d} if {cond}}})'):
                    out.append(kind)
                    ok = True
        if not ok:
            bad(f'{W}: unrecognised statement at line {s.lineno}')
    return out


def translate_get_return_value(cls, name, is_async):
    f = find_in(cls, name, UNIT)
    if isinstance(f, ast.AsyncFunctionDef) != is_async:
        bad(f'{name}: async-ness changed')
    b = strip_doc(f.body)
    aw = 'await ' if is_async else ''
    if not (len(b) == 1 and isinstance(b[0], ast.If) and len(b[0].body) == 1 and len(b[0].orelse) == 1):
        bad(f'{name}: body is not a single if/else')
    s = b[0]
    if not (same(s.body[0], f'return {aw}self.func.func(**self.kwargs)', 'stmt')
            and same(s.orelse[0], f'return {aw}self.func.func(*self.args, **self.kwargs)', 'stmt')):
        bad(f'{name}: branches are not `return func(**kwargs)` / `return func(*args, **kwargs)`')
    vals = s.test.values if (isinstance(s.test, ast.BoolOp) and isinstance(s.test.op, ast.Or)) else [s.test]
    atoms = []
    for v in vals:
        if same(v, 'self.func.is_static_method'):
            atoms.append('DaStatic')
        elif same(v, 'self.func.is_class_method'):
            atoms.append('DaClass')
        else:
            bad(f'{name}: unrecognised disjunct `{ast.unparse(v)}`')
    return atoms


def translate_check_types(cls, name, is_async):
    f = find_in(cls, name, UNIT)
    if isinstance(f, ast.AsyncFunctionDef) != is_async:
        bad(f'{name}: async-ness changed')
    getter = ('await self._async_get_return_value()' if is_async else 'self._get_return_value()')
    steps = []
    var = None
    for s in strip_doc(f.body):
        if same(s, 'self._check_types_of_arguments()', 'stmt'):
            steps.append('StArgs')
        elif isinstance(s, ast.Assign) and len(s.targets) == 1 and is_name(s.targets[0]) and same(s.value, getter):
            var = s.targets[0].id
            steps.append('StCall')
        elif same(s, f'return self._check_types_return(result={getter})', 'stmt'):
            steps += ['StCall', 'StRetCheck']
        elif var and same(s, f'return self._check_types_return(result={var})', 'stmt'):
            steps.append('StRetCheck')
        elif var and same(s, f'return {var}', 'stmt'):
            steps.append('StRetPlain')
        elif same(s, f'return {getter}', 'stmt'):
            steps += ['StCall', 'StRetPlain']
        else:
            bad(f'{name}: unrecognised statement at line {s.lineno}: `{ast.unparse(s)[:80]}`')
    return steps


CHECK_CALL = ('assert_value_matches_type(value={v}, type_={t}, err=self.func.err, type_vars=self.type_vars{k}, context=self._context)')


def stmts_are(stmts, texts, where):
    """the statement list is exactly the expected one (positions, comments and docstrings aside)"""
    stmts = strip_doc(list(stmts))
    if len(stmts) != len(texts):
        bad(f'{where}: {len(stmts)} statements where exactly {len(texts)} are modelled')
    for n, t in zip(stmts, texts):
        if t is not None and not same(n, t, 'stmt'):
            bad(f'{where}: line {n.lineno} is no longer `{t}`')


def no_jumps(loop, where):
    for n in ast.walk(loop):
        if isinstance(n, (ast.Continue, ast.Break, ast.Return)):
            bad(f'{where}: `{type(n).__name__.lower()}` inside the loop at line {n.lineno} (a value would leave the loop unchecked)')
    if loop.orelse:
        bad(f'{where}: the loop has an else clause')


def is_ptc_raise(n):
    return (isinstance(n, ast.Raise) and n.cause is None and isinstance(n.exc, ast.Call) and is_name(n.exc.func, 'PedanticTypeCheckException')
            and len(n.exc.args) == 1 and not n.exc.keywords)


def check_type_param_shape(cls):
    """FunctionCall._check_type_param, statement by statement, as Model.Pedantic.pass_named models it by hand: per parameter, the
    value comes from the keyword (never for a positional-only parameter), else from the next positional value (positional
    parameters only, whether or not there is a default), else from the default; then the ONE call of the checker.  The shapes
    before the repairs are refused by name; any other statement, branch body or jump is refused as well."""
    f = find_in(cls, '_check_type_param', UNIT)
    W = '_check_type_param'
    top = strip_doc(f.body)
    loops = [n for n in top if isinstance(n, ast.For)]
    if len(loops) != 1 or not same(loops[0].iter, 'params.items()') or ast.unparse(loops[0].target) not in ('key, param', '(key, param)'):
        bad(f'{W}: not a single loop `for key, param in params.items()`')
    loop = loops[0]
    no_jumps(loop, W)
    body = loop.body
    chains = [n for n in body if isinstance(n, ast.If) and n.orelse]
    if len(chains) != 1:
        bad(f'{W}: expected exactly one if / elif chain choosing the value to check')
    tests, bodies, node = [], [], chains[0]
    while True:
        tests.append(node.test)
        bodies.append(node.body)
        if len(node.orelse) == 1 and isinstance(node.orelse[0], ast.If):
            node = node.orelse[0]
        else:
            last = node.orelse
            break
    if any(same(t, 'param.default is inspect.Signature.empty') for t in tests[:1]):
        bad(f'{W}: the positional value is only looked at for a parameter without default - the shape of the findings '
            'C03-defaulted-positional-unchecked / C04-defaulted-leading-positional (repaired by f0d33a4)')
    if tests and same(tests[0], 'key in self.kwargs'):
        bad(f'{W}: a positional-only parameter is looked up among the keyword arguments - the shape of the findings '
            'C03-posonly-name-as-keyword / C04-posonly-name-as-keyword (repaired by b2616e5)')
    expected = ['takes_keyword and key in self.kwargs',
                'param.kind in takes_positional and (not self.func.should_have_kwargs) and arg_index < len(self.args)',
                'param.default is not inspect.Signature.empty']
    if len(tests) != 3 or not all(same(t, e) for t, e in zip(tests, expected)):
        bad(f'{W}: the if / elif chain is no longer [by keyword | positional | default | unfilled]')
    stmts_are(bodies[0], ['actual_value = self.kwargs[key]'], f'{W}, branch "by keyword"')
    stmts_are(bodies[1], ['actual_value = self.args[arg_index]', 'arg_index += 1'], f'{W}, branch "positional"')
    stmts_are(bodies[2], ['actual_value = param.default'], f'{W}, branch "default"')
    if not (len(last) == 1 and is_ptc_raise(last[0])):
        bad(f'{W}: the last branch is no longer the single `raise PedanticTypeCheckException(...)` (unfilled parameter)')
    # the whole function: statements before the loop, the loop body around the chain, the statement after the loop
    stmts_are(top, ['arg_index = 1 if self.func.is_instance_method else 0',
                    'takes_positional = (inspect.Parameter.POSITIONAL_ONLY, inspect.Parameter.POSITIONAL_OR_KEYWORD)',
                    None,
                    'self._num_of_args_bound_to_named_params = arg_index'], W)
    if top[2] is not loop:
        bad(f'{W}: the loop is not the third statement')
    stmts_are(body, ['takes_keyword = param.kind is not inspect.Parameter.POSITIONAL_ONLY',
                     None,
                     'self._assert_param_has_type_annotation(param=param)',
                     None,
                     CHECK_CALL.format(v='actual_value', t='param.annotation', k=', key=key')], f'{W}, loop body')
    mark = body[1]
    if not (isinstance(mark, ast.If) and not mark.orelse and same(mark.test, 'takes_keyword') and len(mark.body) == 1
            and same(mark.body[0], 'self._already_checked_kwargs.append(key)', 'stmt')):
        bad(f'{W}: the name of a parameter is no longer marked as checked exactly when the parameter takes keywords')
    if body[3] is not chains[0]:
        bad(f'{W}: the if / elif chain is not the fourth statement of the loop')


def check_star_passes_shape(cls):
    """_check_types_args / _check_types_kwargs, statement by statement (Model.Pedantic.pass_varpos / pass_varkw): every element of
    self.args behind the named ones / every keyword not yet checked goes through the ONE call of the checker"""
    HEAD = ['if not params:\n    return', 'param = list(params.values())[0]', 'self._assert_param_has_type_annotation(param=param)']
    f = find_in(cls, '_check_types_args', UNIT)
    W = '_check_types_args'
    top = strip_doc(f.body)
    stmts_are(top, HEAD + ['expected = param.annotation', None], W)
    loop = top[-1]
    if not (isinstance(loop, ast.For) and ast.unparse(loop.target) == 'arg' and same(loop.iter, 'self.args[self._num_of_args_bound_to_named_params:]')):
        bad(f'{W}: the last statement is no longer `for arg in self.args[self._num_of_args_bound_to_named_params:]`')
    no_jumps(loop, W)
    stmts_are(loop.body, [CHECK_CALL.format(v='arg', t='expected', k='')], f'{W}, loop body')
    f = find_in(cls, '_check_types_kwargs', UNIT)
    W = '_check_types_kwargs'
    top = strip_doc(f.body)
    stmts_are(top, HEAD + [None], W)
    loop = top[-1]
    if not (isinstance(loop, ast.For) and ast.unparse(loop.target) == 'kwarg' and same(loop.iter, 'self.not_yet_check_kwargs')):
        bad(f'{W}: the last statement is no longer `for kwarg in self.not_yet_check_kwargs`')
    no_jumps(loop, W)
    stmts_are(loop.body, ['actual_value = self.kwargs[kwarg]',
                          CHECK_CALL.format(v='actual_value', t='param.annotation', k=', key=kwarg')], f'{W}, loop body')


def translate_function_call():
    src, tree = load(FC)
    cls = find_class(tree, 'FunctionCall', UNIT)
    check_type_param_shape(cls)
    check_star_passes_shape(cls)
    for name, text in {'func': 'self._func', 'args': 'self._args', 'kwargs': 'self._kwargs',
                       'params_without_self': 'self._params_without_self',
                       'not_yet_check_kwargs': '{k: v for k, v in self._kwargs.items() if k not in self._already_checked_kwargs}'}.items():
        if not same(prop_return(cls, name, 'FunctionCall'), text):
            bad(f'FunctionCall.{name} is no longer `return {text}`')
    # the checker FunctionCall is linked with: the tables of Gen/CheckerTables.v are regenerated from that very module
    links = [n for n in tree.body if isinstance(n, ast.ImportFrom) and any((a.asname or a.name) == 'assert_value_matches_type' for a in n.names)]
    if len(links) != 1 or links[0].module != 'pedantic.type_checking_logic.check_types' or links[0].level != 0 \
            or any(a.name != 'assert_value_matches_type' for a in links[0].names if (a.asname or a.name) == 'assert_value_matches_type'):
        bad('FunctionCall: assert_value_matches_type is no longer imported from pedantic.type_checking_logic.check_types')
    locks = {f'FunctionCall.{n}': lock(find_in(cls, n, UNIT)) for n in
             ('__init__', 'type_vars', 'clazz', '_check_type_param', '_check_types_args', '_check_types_kwargs',
              '_check_types_return', '_assert_param_has_type_annotation')}
    # class-level statements (attribute defaults such as _num_of_args_bound_to_named_params = 0)
    rest = ast.Module(body=[n for n in strip_doc(cls.body) if not isinstance(n, (ast.FunctionDef, ast.AsyncFunctionDef))], type_ignores=[])
    locks['FunctionCall.<class attributes>'] = hashlib.sha256(ndump(rest).encode()).hexdigest()[:16]
    return (translate_args_without_self(cls), translate_auk(cls), translate_passes(cls),
            translate_get_return_value(cls, '_get_return_value', False),
            translate_get_return_value(cls, '_async_get_return_value', True),
            translate_check_types(cls, 'check_types', False), translate_check_types(cls, 'async_check_types', True),
            locks, provenance(FC, src, cls))


# ------------------------------------------------------------------------------------------ the wrappers
def wrapper_steps(w, where, is_async, ctor_stmts, check_call):
    if isinstance(w, ast.AsyncFunctionDef) != is_async:
        bad(f'{where}: async-ness changed')
    a = w.args
    if a.args or a.posonlyargs or a.kwonlyargs or a.vararg is None or a.vararg.arg != 'args' or a.kwarg is None or a.kwarg.arg != 'kwargs':
        bad(f'{where}: signature is not (*args, **kwargs)')
    b = strip_doc(w.body)
    for text in ctor_stmts:
        if not b or not same(b[0], text, 'stmt'):
            bad(f'{where}: expected `{text}`')
        b = b[1:]
    steps = []
    for s in b:
        if same(s, 'call.assert_uses_kwargs()', 'stmt'):
            steps.append('WAssertKwargs')
        elif check_call and same(s, check_call, 'stmt'):
            steps.append('WCheckTypes')
        elif same(s, 'return func(*args, **kwargs)', 'stmt') or same(s, 'return f(*args, **kwargs)', 'stmt'):
            steps.append('WCallPlain')
        else:
            bad(f'{where}: unrecognised statement at line {s.lineno}: `{ast.unparse(s)[:80]}`')
    return steps


def translate_wrappers():
    src, tree = load(PD)
    p = find_in(tree, 'pedantic', UNIT)
    dec = find_in(p, 'decorator', UNIT)
    ctor = 'call = FunctionCall(func=decorated_func, args=args, kwargs=kwargs, context=get_context(2))'
    w = wrapper_steps(find_in(dec, 'wrapper', UNIT), 'pedantic.wrapper', False, [ctor], 'return call.check_types()')
    aw = wrapper_steps(find_in(dec, 'async_wrapper', UNIT), 'pedantic.async_wrapper', True, [ctor],
                       'return await call.async_check_types()')
    if not any(same(s, 'decorated_func = DecoratedFunction(func=f)', 'stmt') for s in dec.body):
        bad('pedantic.decorator: `decorated_func = DecoratedFunction(func=f)` not found')
    last = dec.body[-1]
    if not same(last, 'if decorated_func.is_coroutine:\n    return async_wrapper\nelse:\n    return wrapper', 'stmt'):
        bad('pedantic.decorator: routing is not `if decorated_func.is_coroutine: return async_wrapper else: return wrapper`')
    rsrc, rtree = load(RK)
    rk = find_in(rtree, 'require_kwargs', UNIT)
    rw = wrapper_steps(find_in(rk, 'wrapper', UNIT), 'require_kwargs.wrapper', False,
                       ['decorated_func = DecoratedFunction(func=func)',
                        'call = FunctionCall(func=decorated_func, args=args, kwargs=kwargs, context={})'], None)
    if not same(strip_doc(rk.body)[-1], 'return wrapper', 'stmt'):
        bad('require_kwargs does not return its wrapper')
    return w, aw, rw, provenance(PD, src, p), provenance(RK, rsrc, rk)


# ------------------------------------------------------------------------------------------ generator_wrapper.py
def translate_generator_wrapper():
    src, tree = load(GW)
    cls = find_class(tree, 'GeneratorWrapper', UNIT)
    f = find_in(cls, '_set_and_check_return_types', UNIT)
    bases = None
    for n in ast.walk(f):
        if isinstance(n, ast.Compare) and len(n.ops) == 1 and isinstance(n.ops[0], ast.NotIn) and is_name(n.left, 'base_generic') \
                and isinstance(n.comparators[0], (ast.List, ast.Tuple, ast.Set)):
            if bases is not None:
                bad('GeneratorWrapper: more than one membership test on base_generic')
            bases = []
            for e in n.comparators[0].elts:
                if not (is_name(e) and e.id in ('Generator', 'Iterable', 'Iterator', 'AsyncIterable', 'Awaitable', 'Coroutine',
                                                 'Sequence', 'Collection', 'Container', 'List')):
                    bad('GeneratorWrapper: unrecognised accepted base')
                bases.append('T' + e.id)
    if bases is None:
        bad('GeneratorWrapper: `base_generic not in [...]` not found')
    # the names must be typing's
    imp = [n for n in tree.body if isinstance(n, ast.ImportFrom) and n.module == 'typing']
    bound = {a.asname or a.name for n in imp for a in n.names}
    for bname in bases:
        if bname[1:] not in bound:
            bad(f'GeneratorWrapper: {bname[1:]} is not imported from typing')
    # __next__ resumes the generator without sending anything (Model.GenWrapper.w_next); the shape before the repair is refused by name
    nx = strip_doc(find_in(cls, '__next__', UNIT).body)
    if len(nx) == 1 and same(nx[0], 'return self.send(obj=None)', 'stmt'):
        bad('GeneratorWrapper.__next__ is send(None): the None is checked against the send type - the shape of the finding '
            'C04-generator-next-send-type (repaired by a25625d)')
    if not (len(nx) == 2 and same(nx[0], 'self._initialized = True', 'stmt') and same(nx[1], 'return self._resume(obj=None)', 'stmt')):
        bad('GeneratorWrapper.__next__ is no longer `self._initialized = True; return self._resume(obj=None)`')
    sd = strip_doc(find_in(cls, 'send', UNIT).body)
    if not (len(sd) == 2 and isinstance(sd[0], ast.If) and same(sd[0].test, 'self._initialized')
            and same(sd[1], 'return self._resume(obj=obj)', 'stmt')):
        bad('GeneratorWrapper.send is no longer `if self._initialized: <check obj> else: <mark>; return self._resume(obj=obj)`')
    locks = {f'GeneratorWrapper.{n}': lock(find_in(cls, n, UNIT)) for n in
             ('__init__', '__iter__', '__next__', '__getattr__', 'throw', 'close', 'send', '_resume', '_set_and_check_return_types')}
    return bases, locks, provenance(GW, src, cls)


def translate():
    names, pairs, final, locks_df, prov_df = translate_decorated_function()
    (aws, auk, passes, drop, adrop, steps, asteps, locks_fc, prov_fc) = translate_function_call()
    w, aw, rw, prov_pd, prov_rk = translate_wrappers()
    bases, locks_gw, prov_gw = translate_generator_wrapper()
    max_ped, max_other, cmp_, satoms, sfrom = aws
    locks = {}
    locks.update(locks_df); locks.update(locks_fc); locks.update(locks_gw)
    out = header('t_pedantic.py', ['From PV Require Import Base.Exn Base.Values Base.Ann Model.PedanticCfg.', 'From PV Require Gen.CheckerTables.'])
    for k, v in (('decorated_function', prov_df), ('function_call', prov_fc), ('fn_deco_pedantic', prov_pd),
                 ('fn_deco_require_kwargs', prov_rk), ('generator_wrapper', prov_gw)):
        out += f'Definition src_{k} : string := {coq_string(v)}.\n'
    out += 'Definition pedantic_cfg : pedantic_cfg := {|\n'
    out += f'  pc_kwargs_names := {coq_list([coq_string(n) for n in names])};\n'
    out += f'  pc_shk := ({coq_list([f"({c}, {e})" for c, e in pairs])}, {final});\n'
    out += f'  pc_max_pedantic := {max_ped}%nat;\n  pc_max_other := {max_other}%nat;\n  pc_multi_cmp := {cmp_};\n'
    out += f'  pc_strip_when := {coq_list(satoms)};\n  pc_strip_from := {sfrom}%nat;\n'
    out += f'  pc_auk_when := {coq_list(auk[0])};\n  pc_auk_exn := {auk[1]};\n'
    out += f'  pc_passes := {coq_list(passes)};\n'
    out += f'  pc_drop_args_when := {coq_list(drop)};\n  pc_async_drop_args_when := {coq_list(adrop)};\n'
    out += f'  pc_sync_steps := {coq_list(steps)};\n  pc_async_steps := {coq_list(asteps)};\n'
    out += f'  pc_wrapper := {coq_list(w)};\n  pc_async_wrapper := {coq_list(aw)};\n  pc_rk_wrapper := {coq_list(rw)};\n'
    out += f'  pc_gen_bases := {coq_list(bases)};\n  pc_tables := PV.Gen.CheckerTables.checker_cfg |}}.\n'
    out += 'Definition locks : list (string * string) := [\n  ' + ';\n  '.join(
        f'({coq_string(k)}, {coq_string(v)})' for k, v in sorted(locks.items())) + '\n].\n'
    return {UNIT: out}


if __name__ == '__main__':
    print(translate()[UNIT])
