"""Shared engine of the C03 / C04 / C05 checks: generators of `pedantic/sig x call` cases, rendering of the
reified function object and of the call as Coq terms (coq/Model/Pedantic.v), decoding of the model's
answer (coq/Model/PedanticEval.v), correspondence (implementation vs model) and the three property
judges (implementation vs the oracle of coq/Spec/PedanticSpec.v).

Input dimensions beyond signature x call x body outcome (each counted in the evidence as dim:... and floored by the obligation
generator-floor): the text of the function (TEXTS / AT_TEXTS), call histories, calls made inside a running call, a shadowed namesake,
parameter names from the decorators' own vocabulary (rename_params), bodies that change an argument in place and return it
(add_mutret), two products of one def statement (add_sibling), one positional value with every parameter defaulted (focus='onepos'),
a non-conforming positional value BEHIND parameters annotated typing.Any whose values conform to their right neighbour's annotation
(gen_anyfront_case), a target that carries the attributes of another, already decorated function - functools.wraps(donor) / its
__dict__ only (add_wraps), and - implementation-only, judged against the undecorated twin - parameters that share one TypeVar, given
instances of a class and of its subclasses, with the keywords of the same call written in every order (gen_tvorder_case)."""
import copy, json, re
from lib import *
import universe as U
import gen_checker as GC
import p_names as N

UNITS = ['Pedantic', 'CheckerTables']
MODEL = ['Model/PedanticEval.vo']
PRE = ('From Coq Require Import List ZArith String.\n'
       'From PV Require Import Base.Exn Base.Values Base.Ann Base.PyCall Model.Pedantic Model.GenWrapper Model.PedanticEval.\n'
       'Import ListNotations.')
PEDANTIC = (1, 2, 3, 4)

K_INST = ['inst', [5], 70]
S_INST = ['inst', [5, 0], 71]
K_CLS = ['class', ['user', [5]]]
S_CLS = ['class', ['user', [5, 0]]]
RECV = {'instance': K_INST, 'sub_instance': S_INST, 'class': K_CLS, 'subclass': S_CLS}
BODY_EXC = [[0, 20], [0, 21], [0, 1], [0, 2], [0, 0, 0], [4]]

# ------------------------------------------------------------------------------------------ Coq rendering
KIND = {'posonly': 'PosOnly', 'pos': 'PosOrKw', 'varpos': 'VarPos', 'kwonly': 'KwOnly', 'varkw': 'VarKw'}


def opt(x, f):
    return 'None' if x is None else f'(Some {f(x)})'


def coq_param(p):
    return (f'{{| p_name := {p["name"]}%nat; p_kind := {KIND[p["kind"]]}; p_ann := {opt(p["ann"], U.coq_ann)}; '
            f'p_default := {opt(p["default"], U.coq_val)} |}}')


def coq_fn(fn, truth):
    t = fn['text']
    bound = 'None' if fn['bound'] is None else f'(Some ({fn["bound"][0]}%nat, {U.coq_val(fn["bound"][1])}))'
    return ('{| f_name := ' + coq_str(fn['name']) + f'; f_dotted := {coq_bool(fn["dotted"])}; '
            f'f_params := {coq_list([coq_param(p) for p in fn["params"]])}; f_bound := {bound}; '
            f'f_first_arg := {opt(fn["first_arg"], lambda n: "%d%%nat" % n)}; f_ret := {opt(fn["ret"], U.coq_ann)}; '
            f'f_coroutine := {coq_bool(fn["coroutine"])}; f_generator := {coq_bool(fn["generator"])}; '
            f'f_text := {{| t_star_args := {coq_bool(t["star_args"])}; t_staticmethod := {coq_bool(t["staticmethod"])}; '
            f't_setter := {coq_bool(t["setter"])}; t_pedantic := {coq_bool(t["pedantic"])}; t_n_at := {t["n_at"]}%nat |}}; '
            f'f_setter := {coq_bool(truth["setter"])}; f_recv := {coq_bool(truth["recv"])} |}}')


def call_parts(case):
    """(c_recv, c_twin_recv, c_args, c_kwargs) of the model-level call: how descriptors hand the receiver
    to the wrapper and what the undecorated callable would get (glue; validated by the journals)"""
    style, mk, via = case['style'], case['mkind'], case.get('via')
    recv, twin = [], []
    if style in ('class_deco', 'property'):
        if mk == 'instance':
            if case.get('self_kw'):
                recv, twin = [], []
            else:
                r = RECV[via] if via in ('instance', 'sub_instance') else K_INST       # via class: explicit self
                recv, twin = [r], [r]
        elif mk == 'static':
            recv = [RECV[via]] if via in ('instance', 'sub_instance') else []
            twin = []
        elif mk == 'class':
            recv = [RECV[via]] if via in ('instance', 'sub_instance') else []
            twin = [{'instance': K_CLS, 'class': K_CLS, 'sub_instance': S_CLS, 'subclass': S_CLS}[via]]
    elif style == 'method_direct':
        if mk == 'instance':
            if case.get('self_kw'):
                recv, twin = [], []
            else:
                r = RECV[via] if via in ('instance', 'sub_instance') else K_INST
                recv, twin = [r], [r]
        elif mk == 'class':
            r = {'instance': K_CLS, 'class': K_CLS, 'sub_instance': S_CLS, 'subclass': S_CLS}[via]
            recv, twin = [r], [r]
    kwargs = [[k, v] for k, v in case['kwargs']]
    if case.get('self_kw'):
        kwargs = kwargs + [[0, K_INST]]
    return recv, twin, case['args'], kwargs


def coq_call(case):
    recv, twin, args, kwargs = call_parts(case)
    L = lambda vs: coq_list([U.coq_val(v) for v in vs])
    kws = coq_list([f'({k}%nat, {U.coq_val(v)})' for k, v in kwargs])
    return f'{{| c_recv := {L(recv)}; c_twin_recv := {L(twin)}; c_args := {L(args)}; c_kwargs := {kws} |}}'


def coq_outcome(b):
    if b[0] == 'ret':
        return f'(Ok {U.coq_val(b[1])})'
    return '(Raise ' + coq_list([coq_nat(x) for x in b[1]]) + ')'


def truth_of(case):
    return {'setter': case['style'] == 'property',
            'recv': case['mkind'] in ('instance', 'class') and case['style'] != 'func'}


def coq_exn(path):
    return coq_list([coq_nat(x) for x in path])


def coq_gen_term(case, fn):
    def step(s):
        return {'yield': 'SYield ', 'ret': 'SRet '}[s[0]] + U.coq_val(s[1]) if s[0] != 'raise' else 'SRaise ' + coq_exn(s[1])
    ot = case.get('on_throw', 'propagate')
    ot_c = 'TPropagate' if ot == 'propagate' else ('(TYield %s)' if ot[0] == 'yield' else '(TRet %s)') % U.coq_val(ot[1])

    def op(o):
        return {'next': 'OpNext', 'close': 'OpClose'}.get(o[0]) or ('(OpSend %s)' % U.coq_val(o[1]) if o[0] == 'send' else '(OpThrow %s)' % coq_exn(o[1]))
    return (f'eval_gen {U.coq_ctx(case["ctx"])} ({coq_fn(fn, truth_of(case))}) ({coq_call(case)}) {ot_c} '
            f'{coq_list([step(x) for x in case["script"]])} {coq_list([op(o) for o in case["ops"][:40]])}')


def coq_term(case, fn):
    if case['gen']:
        return coq_gen_term(case, fn)
    mode = 1 if case['mode'] == 'require_kwargs' else 0
    return (f'eval_call {mode}%nat {U.coq_ctx(case["ctx"])} ({coq_fn(fn, truth_of(case))}) ({coq_call(case)}) '
            f'{coq_outcome(case["body"])}')


# ------------------------------------------------------------------------------------------ decoding the model
def take_src(xs, i):
    return [xs[i], xs[i + 1]], i + 2


def decode_journal(xs):
    """flat codes -> [{'bind': {name: slot}, 'consumed': [src]}]"""
    out = []
    i = 0
    while i < len(xs):
        assert xs[i] == -1, xs
        i += 1
        bind = {}
        while xs[i] != -2:
            name = xs[i]
            i += 1
            tag = xs[i]
            if tag in (1, 2, 3, 4):
                s, i = take_src(xs, i)
                bind[name] = ['one', s]
            elif tag == 5:
                n = xs[i + 1]
                i += 2
                l = []
                for _ in range(n):
                    s, i = take_src(xs, i)
                    l.append(s)
                bind[name] = ['star', l]
            else:
                n = xs[i + 1]
                bind[name] = ['kws', xs[i + 2:i + 2 + n]]
                i += 2 + n
        i += 1
        cons = []
        while i < len(xs) and xs[i] != -1:
            s, i = take_src(xs, i)
            cons.append(s)
        out.append({'bind': bind, 'consumed': cons})
    return out


def triples(xs):
    return [xs[i:i + 3] for i in range(0, len(xs), 3)]


def decode_gen(m):
    def sec(a, b):
        i = m.index(a)
        j = m.index(b) if b is not None else len(m)
        return m[i + 1:j]
    th, tg = sec(-9, -10), sec(-13, None)
    return {'out': m[0], 'c03_args_bad': m[1], 'c04_call_ok': m[2], 'c03_result_bad': 0, 'c04_result_ok': 1, 'c05_positional': 0,
            'journal': decode_journal(sec(-3, -5)), 'ops': triples(sec(-5, -4)), 'twin_ops': triples(sec(-4, -6)),
            'bad_yield': sec(-6, -7), 'bad_ret': sec(-7, -8), 'bad_sent': sec(-8, -9), 'bad_throw': th or [0, 0],
            'ok_yield': sec(-10, -11), 'ok_ret': sec(-11, -12), 'ok_sent': sec(-12, -13), 'ok_throw': tg or [1, 1]}


def decode(m, case=None):
    if case is not None and case['gen']:
        return decode_gen(m)
    a = m.index(-3)
    b = m.index(-4)
    return {'out': m[0], 'c03_args_bad': m[1], 'c03_result_bad': m[2], 'c04_call_ok': m[3], 'c04_result_ok': m[4],
            'c05_positional': m[5], 'no_iter': m[6], 'no_iter_consumed': m[7], 'result_intact': m[8], 'res_drained': m[9],
            'c03_positional_bad': m[10], 'shk': m[11], 'journal': decode_journal(m[a + 1:b]), 'twin_out': m[b + 1],
            'twin_journal': decode_journal(m[b + 2:])}


def journal_agrees(impl_j, model_j):
    """model sources must be among the sources the implementation's objects are identical to"""
    if len(impl_j) != len(model_j):
        return False
    for ie, me in zip(impl_j, model_j):
        ib = {int(k): v for k, v in ie['bind'].items()}
        if set(ib) != set(me['bind']):
            return False
        for name, slot in me['bind'].items():
            got = ib[name]
            if got[0] != slot[0]:
                return False
            if slot[0] == 'one':
                if slot[1] not in got[1]:
                    return False
            elif slot[0] == 'star':
                if len(got[1]) != len(slot[1]) or any(s not in g for s, g in zip(slot[1], got[1])):
                    return False
            else:
                if got[1] != slot[1] or not got[2]:
                    return False
        if sorted(map(tuple, ie['consumed'])) != sorted(set(map(tuple, me['consumed']))):
            return False
    return True


# ------------------------------------------------------------------------------------------ generators
POS_NAMES = [2, 3, 4, 5, 6]          # a b c d e
KWO_NAMES = [11, 12, 13]             # k m n
EXTRA_KW = [15, 16, 17]              # x y z
DUNDER_EXEMPT = ['__call__', '__add__', '__getitem__', '__lt__']
DUNDER_LISTED = ['__unicode__', '__nonzero__', '__oct__', '__hex__']      # for methods: names CPython never calls implicitly
ONE_SIDED = ['__x', 'y__', '__apply', 'total__', '_', '__', '____', '___', '__f__', '__a_b', 'a__b']     # '__' on one side only, or degenerate
ALL_LISTED = ['__new__', '__init__', '__str__', '__del__', '__int__', '__float__', '__complex__', '__oct__', '__hex__', '__index__',
              '__trunc__', '__repr__', '__unicode__', '__hash__', '__nonzero__', '__dir__', '__sizeof__']
TEXTS = ['comment_star', 'string_star', 'doc_star', 'doc_static', 'comment_static', 'doc_pedantic', 'comment_rk',
         'comment_setter', 'deco_at', 'between_at',
         'doc_yield', 'comment_yield', 'string_yield', 'comment_async', 'doc_self', 'comment_classmethod', 'doc_return',
         'doc_yield', 'comment_yield',
         # '@' and decorator-looking lines AFTER the def line (body, nested definitions, docstring)
         'body_nested_deco', 'body_nested_deco_call', 'body_nested_class', 'body_matmul', 'string_at_lines', 'doc_at_lines', 'doc_epydoc']
# the variants that put an '@' somewhere into the source of the function (before or after the def line)
AT_TEXTS = ['body_nested_deco', 'body_nested_deco_call', 'body_nested_class', 'body_matmul', 'string_at_lines', 'doc_at_lines', 'doc_epydoc',
            'body_nested_deco', 'doc_at_lines', 'deco_at', 'between_at', 'comment_rk', 'doc_pedantic', 'comment_classmethod']
# annotations of the sibling product of a def statement that is evaluated twice
SIB_ANNS = [['any'], ['any'], ['cls', 'int'], ['cls', 'str'], ['cls', 'NoneType'], ['cls', 'bytes'], ['gen', 'typing', 'List', [['cls', 'int']]],
            ['cls', 'object']]


def strip_iters(v, keep_top):
    """one-shot iterators only at the top level of an argument (the part of the model that tracks consumption)"""
    k = v[0]
    if k == 'iter':     # an empty iterator cannot be observed to be consumed: use a list
        return [('iter' if (keep_top and v[1]) else 'list'), [strip_iters(x, False) for x in v[1]]]
    if k in ('list', 'tuple', 'set', 'frozenset', 'deque', 'keys', 'values'):
        return [k, [strip_iters(x, False) for x in v[1]]]
    if k in ('dict', 'defaultdict', 'ordereddict', 'items'):
        return [k, [[strip_iters(a, False), strip_iters(b, False)] for a, b in v[1]]]
    return v


ELEMENTWISE = ('List', 'Set', 'FrozenSet', 'Deque', 'Iterable', 'Collection', 'Container', 'Sequence', 'MutableSequence', 'AbstractSet',
               'MutableSet', 'KeysView', 'ValuesView')
MAPPINGS = ('Dict', 'DefaultDict', 'OrderedDict', 'Mapping', 'MutableMapping')


def no_empty_iters(v):
    """an empty iterator cannot be observed to be consumed: use a list"""
    k = v[0]
    if k == 'iter':
        return ['iter' if v[1] else 'list', [strip_iters(x, False) for x in v[1]]]
    if k in ('list', 'tuple', 'set', 'frozenset', 'deque', 'keys', 'values'):
        return [k, [no_empty_iters(x) for x in v[1]]]
    if k in ('dict', 'defaultdict', 'ordereddict', 'items'):
        return [k, [[strip_iters(a, False), no_empty_iters(b)] for a, b in v[1]]]
    return v


def place_iters(a, v):
    """one-shot iterators stay exactly where the model's account of the checker's traversal (Model.Pedantic.drain) is exact: reached
    through generics, Tuple[...] and Optional[...] only (every union member that traverses must accept), never inside another
    iterator, a set or a key; under Any / object (nothing is traversed) anywhere.  Everywhere else a list takes their place."""
    if a is None:
        return strip_iters(v, False)
    k, ak = v[0], a[0]
    if ak == 'any' or a == ['cls', 'object']:
        return no_empty_iters(v)
    if ak == 'union' and len(a[2]) == 2 and ['cls', 'NoneType'] in a[2]:
        other = [x for x in a[2] if x != ['cls', 'NoneType']]
        return place_iters(other[0], v) if other and v != ['none'] else strip_iters(v, False)
    if ak == 'newtype':
        return place_iters(a[1], v)
    if ak == 'tuplevar' and k == 'tuple':
        return [k, [place_iters(a[2], x) for x in v[1]]]
    if ak == 'gen':
        o, args = a[2], a[3]
        if k == 'iter':
            return ['iter' if (v[1] and o == 'Iterable') else 'list', [strip_iters(x, False) for x in v[1]]]
        if o in ELEMENTWISE and len(args) == 1 and k in ('list', 'tuple', 'deque', 'values'):
            return [k, [place_iters(args[0], x) for x in v[1]]]
        if (o in MAPPINGS and k in ('dict', 'defaultdict', 'ordereddict') or o == 'ItemsView' and k == 'items') and len(args) == 2:
            return [k, [[strip_iters(x, False), place_iters(args[1], y)] for x, y in v[1]]]
        if o == 'Tuple' and k == 'tuple' and len(args) == len(v[1]):
            return [k, [place_iters(x, y) for x, y in zip(args, v[1])]]
    return strip_iters(v, False)


def conf(rng, a):
    for _ in range(4):
        v = GC.gen_conf(rng, a)
        if v is not None:
            if rng.random() < 0.5:
                v = nest_iter(rng, a, v)
            return place_iters(a, v)
    return None


def nest_iter(rng, a, v):
    """turn a list that sits directly under Iterable[...] somewhere inside v into a one-shot iterator (nested consumption)"""
    if a is None:
        return v
    if a[0] == 'gen' and a[2] == 'Iterable' and len(a[3]) == 1 and v[0] in ('list', 'tuple') and v[1]:
        return ['iter', v[1]]
    if a[0] == 'union' and v != ['none']:
        other = [x for x in a[2] if x != ['cls', 'NoneType']]
        return nest_iter(rng, other[0], v) if len(other) == 1 else v
    if a[0] == 'gen' and len(a[3]) == 1 and v[0] in ('list', 'tuple', 'deque'):
        return [v[0], [nest_iter(rng, a[3][0], x) for x in v[1]]]
    if a[0] == 'gen' and len(a[3]) == 2 and v[0] in ('dict', 'defaultdict', 'ordereddict'):
        return [v[0], [[x, nest_iter(rng, a[3][1], y)] for x, y in v[1]]]
    if a[0] == 'gen' and a[2] == 'Tuple' and v[0] == 'tuple' and len(a[3]) == len(v[1]):
        return ['tuple', [nest_iter(rng, x, y) for x, y in zip(a[3], v[1])]]
    return v


def iter_ann(rng):
    """an annotation under which the checker iterates a one-shot iterator: Iterable[X] itself, or below the top level
    (Optional[Iterable[X]], List[Iterable[X]], Dict[str, Iterable[X]], Tuple[int, Iterable[X]], ...)"""
    if rng.random() < 0.55:
        return ['gen', 'typing', 'Iterable', [GC.gen_ann(rng, 0)]]
    it = ['gen', 'typing', 'Iterable', [rng.choice([['cls', 'int'], ['cls', 'str'], ['any']])]]
    return rng.choice([['union', 'typing', [it, ['cls', 'NoneType']]], ['gen', 'typing', 'List', [it]],
                       ['gen', 'typing', 'Dict', [['cls', 'str'], it]], ['gen', 'typing', 'Tuple', [['cls', 'int'], it]],
                       ['gen', 'builtin', 'List', [it]], ['union', 'typing', [['gen', 'typing', 'List', [it]], ['cls', 'NoneType']]],
                       ['gen', 'typing', 'Sequence', [it]], ['tuplevar', 'typing', it]])


def gen_ann_val(rng, depth=None, iters=True):
    """(annotation, conforming value)"""
    for _ in range(20):
        d = rng.choice([0, 0, 1, 1, 2]) if depth is None else depth
        a = GC.gen_ann(rng, d, top=True)
        if iters and rng.random() < 0.10:
            a = iter_ann(rng)
        v = conf(rng, a)
        if v is not None:
            return a, v
    return ['cls', 'int'], ['int', 1]


def wrong(rng, a, v):
    """a value that does not conform to a, derived from the conforming v (None if this generator finds none)"""
    for _ in range(4):
        w = GC.corrupt(rng, a, v)
        if w is not None:
            return strip_iters(w, False)
    return None


def gen_signature(rng, want_varpos=False, all_defaults=False):
    """all_defaults: no *args, at least one positional parameter, every named parameter has a default (a call that leaves any of
    them out still binds)"""
    n_pos = rng.choice([0, 1, 1, 2, 2, 3, 4]) if not want_varpos else rng.choice([0, 0, 0, 1, 2])
    if all_defaults:
        n_pos = rng.choice([1, 1, 1, 2, 2, 3])
    has_varpos = (want_varpos or rng.random() < 0.18) and not all_defaults
    n_kwo = rng.choice([0, 0, 0, 1, 2]) if (has_varpos or rng.random() < 0.5) else 0
    has_varkw = rng.random() < 0.2
    params, vals = [], {}
    dflt_started = False
    posonly_n = rng.choice([1, 2]) if (n_pos and rng.random() < 0.03) else 0
    for i in range(n_pos):
        a, v = gen_ann_val(rng)
        if dflt_started or all_defaults or rng.random() < 0.25:
            dflt_started = True
            d = conf(rng, a) or v
        else:
            d = None
        if i < posonly_n and d is None:      # positional-only parameters cannot be passed under the keyword discipline at all
            dflt_started = True
            d = conf(rng, a) or v
        params.append({'name': POS_NAMES[i], 'kind': 'posonly' if i < posonly_n else 'pos', 'ann': a, 'default': d})
        vals[POS_NAMES[i]] = v
    if has_varpos:
        a, v = gen_ann_val(rng, 0 if rng.random() < 0.6 else 1)
        params.append({'name': 7 if rng.random() < 0.8 else 9, 'kind': 'varpos', 'ann': a, 'default': None})
    for i in range(n_kwo):
        a, v = gen_ann_val(rng)
        d = (conf(rng, a) or v) if (all_defaults or rng.random() < 0.45) else None
        params.append({'name': KWO_NAMES[i], 'kind': 'kwonly', 'ann': a, 'default': d})
        vals[KWO_NAMES[i]] = v
    if has_varkw:
        a, v = gen_ann_val(rng, 0 if rng.random() < 0.6 else 1)
        r = rng.random()
        params.append({'name': 8 if r < 0.7 else 10 if r < 0.93 else rng.choice(N.VOCAB), 'kind': 'varkw', 'ann': a, 'default': None})
    return params, vals


def gen_shape(rng, forced=None):
    """how the callable is defined and reached"""
    r = rng.random()
    c = {'mode': 'pedantic', 'style': 'func', 'mkind': 'plain', 'name': 'f', 'recv_name': None, 'decos': ['pedantic'],
         'async': False, 'gen': False, 'text': 'none', 'via': None}
    kind = forced or ('func' if r < 0.40 else 'class_deco' if r < 0.65 else 'method_direct' if r < 0.80 else
                      'stacked' if r < 0.88 else 'require_kwargs' if r < 0.95 else 'property')
    if kind == 'func':
        if rng.random() < 0.2:     # module-level functions may carry any name: the whole documented list, names outside it, near-dunders
            c['name'] = rng.choice(DUNDER_EXEMPT + ALL_LISTED + ONE_SIDED * 3)
    elif kind in ('class_deco', 'method_direct'):
        c['style'] = kind
        c['mkind'] = mk = rng.choice(['instance', 'instance', 'instance', 'static', 'class'])
        c['name'] = 'm'
        if mk == 'instance' and rng.random() < 0.25:
            c['name'] = rng.choice(DUNDER_EXEMPT + DUNDER_LISTED)
        c['recv_name'] = {'instance': 0, 'class': 1, 'static': None}[mk]
        if mk == 'instance' and rng.random() < 0.03:
            c['recv_name'] = 14      # `this`
        inner = [] if kind == 'class_deco' else ['pedantic']
        c['decos'] = {'instance': [], 'static': ['staticmethod'], 'class': ['classmethod']}[mk] + inner
        if mk == 'instance':
            c['via'] = rng.choice(['instance', 'instance', 'instance', 'sub_instance', 'class'])
            if c['via'] == 'class':
                if rng.random() < 0.4:
                    c['self_kw'] = True
                else:
                    c['explicit_self'] = True
        else:
            c['via'] = rng.choice(['class', 'class', 'instance', 'subclass', 'sub_instance'])
    elif kind == 'stacked':
        c['decos'] = rng.choice([['pedantic', 'quiet'], ['quiet', 'pedantic']])
        if rng.random() < 0.15:
            c['name'] = rng.choice(DUNDER_EXEMPT + ALL_LISTED + ONE_SIDED * 3)
    elif kind == 'require_kwargs':
        c['mode'] = 'require_kwargs'
        c['decos'] = ['require_kwargs']
        if rng.random() < 0.2:
            c['name'] = rng.choice(DUNDER_EXEMPT + ALL_LISTED + ONE_SIDED * 3)
        elif rng.random() < 0.5:
            c['style'] = 'method_direct'
            c['mkind'] = mk = rng.choice(['instance', 'static'])
            c['name'] = 'm'
            c['recv_name'] = 0 if mk == 'instance' else None
            c['decos'] = (['staticmethod'] if mk == 'static' else []) + ['require_kwargs']
            c['via'] = rng.choice(['instance', 'class']) if mk == 'static' else 'instance'
    elif kind == 'property':
        c['style'] = 'property'
        c['mkind'] = 'instance'
        c['name'] = 'p'
        c['recv_name'] = 0
        c['decos'] = []
        c['via'] = rng.choice(['instance', 'sub_instance'])
    if kind in ('func', 'class_deco', 'method_direct') and c['mkind'] in ('plain', 'instance') and rng.random() < 0.15:
        c['async'] = True
    if rng.random() < 0.3:
        c['text'] = rng.choice(TEXTS)
    fix_text(c)
    return c, kind


def fix_text(c):
    """an epydoc docstring (@param ...) is rejected by @pedantic when the function is decorated (only Google style parses):
    under @pedantic the docstring carries other '@tag' lines"""
    if c['text'] == 'doc_epydoc' and c['mode'] != 'require_kwargs':
        c['text'] = 'doc_at_lines'


from p_common_msgs import EXC_MSGS


def no_default_iters(c):
    """several calls of the same callable share its default objects: a one-shot iterator inside a default that an earlier call
    exhausted says nothing about the call under test"""
    for p in c['params']:
        if p['default'] is not None:
            p['default'] = strip_iters(p['default'], False)


def gen_case(rng, stream, forced=None, focus=None):
    """one case of the given stream: 'valid' | 'near' | 'malformed'; focus='varargs': a function with *args called positionally"""
    c, kind = gen_shape(rng, forced)
    c['ctx'] = GC.CTX
    c['stream'] = stream
    c['exc_msg'] = rng.randrange(len(EXC_MSGS)) if rng.random() < 0.5 else 0
    params, vals = gen_signature(rng, want_varpos=(focus == 'varargs' and kind != 'property'), all_defaults=(focus == 'onepos'))
    if focus == 'onepos' and rng.random() < 0.85:
        c['text'] = rng.choice(AT_TEXTS)
        fix_text(c)
    if kind == 'property':
        a, v = gen_ann_val(rng)
        params, vals = [{'name': 18, 'kind': 'pos', 'ann': a, 'default': None}], {18: v}
        c['prop_get_ret'] = ['cls', 'int']
    if (c['mkind'] == 'instance' and c['style'] in ('class_deco', 'method_direct') and c.get('via') in ('instance', 'sub_instance')
            and not c.get('self_kw') and kind != 'property' and focus is None and rng.random() < 0.2):
        # the RECEIVER ITSELF is passed as the value of a parameter (a.link(a), g.absorb(other=g)): one positional parameter
        # annotated Any / object, with or without a default; the keyword-only and ** parameters stay
        keep = [p for p in params if p['kind'] not in ('pos', 'posonly', 'varpos')]
        params = [{'name': 2, 'kind': 'pos', 'ann': rng.choice([['any'], ['cls', 'object']]),
                   'default': rng.choice([None, ['int', 0], ['none']])}] + keep
        vals[2] = RECV[c['via']]
        c['recv_as_value'] = True
    c['params'] = params
    # return annotation and scripted body outcome
    ra, rv = gen_ann_val(rng)
    if rng.random() < 0.05:      # the body returns (something that holds) a one-shot iterator
        ra2 = iter_ann(rng)
        rv2 = conf(rng, ra2)
        if rv2 is not None:
            ra, rv = ra2, rv2
    if kind == 'property':
        ra, rv = ['cls', 'NoneType'], ['none']
    c['ret'] = ra
    # (TypeError is the class CPython itself raises for a call that does not fit: a body that raises one of its own has more weight)
    c['body'] = ['ret', rv] if rng.random() < 0.85 else ['raise', rng.choice(BODY_EXC + [[0, 2], [0, 2]])]
    if c['body'][0] == 'raise' and c['body'][1] == [0, 2] and rng.random() < 0.8:
        c['exc_msg'] = rng.choice([1, 2, 3, 4])      # a TypeError of the body that reads like one of CPython's own binding errors
    # the conforming keyword call
    kwargs, args = [], []
    named = [p for p in params if p['kind'] in ('pos', 'kwonly')]
    for p in named:
        if p['default'] is None or rng.random() < 0.5 or (c.get('recv_as_value') and p['name'] == 2):
            kwargs.append([p['name'], vals[p['name']]])
    vk = [p for p in params if p['kind'] == 'varkw']
    if vk:
        # parameter names are inputs too: a key spelled like the var-keyword / var-positional parameter itself lands in **kwargs
        own = [vk[0]['name']] + [p['name'] for p in params if p['kind'] == 'varpos']
        pool = EXTRA_KW + own * 2 + rng.sample(N.VOCAB, 2)      # ... and so does a key spelled like a name the decorators use themselves
        for name in rng.sample(pool, rng.choice([0, 1, 2, 2])):
            if name in [k for k, _ in kwargs]:
                continue
            v = conf(rng, vk[0]['ann'])
            if v is not None:
                kwargs.append([name, v])
    po = [p for p in params if p['kind'] == 'posonly']
    if po and vk and rng.random() < 0.5:
        # the NAME of a positional-only parameter used as a key of **kwargs (legal: CPython puts it into the dict)
        v = conf(rng, vk[0]['ann'])
        if v is not None and po[0]['name'] not in [k for k, _ in kwargs]:
            kwargs.append([po[0]['name'], v])
    kwargs_full = copy.deepcopy(kwargs)
    vp = [p for p in params if p['kind'] == 'varpos']
    positional_style = False
    if vp and (rng.random() < 0.6 or focus == 'varargs'):
        # positional call of a *args function: named positional parameters first, then the star elements
        positional_style = True
        lead = [p for p in params if p['kind'] in ('pos', 'posonly')]
        # (a one-shot iterator passed positionally to a named parameter of a *args function is checked twice - once as that
        #  parameter, once with all of self.args, then already exhausted: outside the part of the model that is compared)
        args = [strip_iters(vals[p['name']], False) for p in lead]
        kwargs = [kv for kv in kwargs if kv[0] not in [p['name'] for p in lead]]
        for _ in range(rng.choice([0, 1, 2, 3]) if focus != 'varargs' else rng.choice([1, 1, 2, 3])):
            v = conf(rng, vp[0]['ann'])
            if v is not None:
                args.append(v)
    if kind == 'property':
        args, kwargs = [vals[18]], []
    rng.shuffle(kwargs)
    c['args'], c['kwargs'] = args, kwargs
    c['mut'] = 'none'
    # the body changes an argument container in place and returns that very object, annotated with the very same annotation object
    if c['mode'] == 'pedantic' and kind != 'property' and focus is None and not c.get('recv_as_value') and rng.random() < 0.20:
        add_mutret(rng, c, stream)
    # the call under test is made while a conforming keyword call of the same callable is running (re-entrancy)
    if (c['mode'] == 'pedantic' and kind in ('func', 'stacked', 'class_deco', 'method_direct') and not c['async']
            and not c.get('self_kw') and not c.get('mutret') and rng.random() < 0.12):
        c['inside'] = {'kwargs': copy.deepcopy(kwargs_full)}
        no_default_iters(c)
    # a second function of the same name defined (and called) earlier in the same module: nothing may leak from it
    if kind in ('func', 'require_kwargs') and c['style'] == 'func' and rng.random() < 0.08:
        c['shadow'] = {'star': rng.random() < 0.7, 'args': [['int', 1]] * rng.choice([1, 2])}
    # the function is one of TWO products of the same def statement (a factory called twice) that differ in their annotations
    if (c['mode'] == 'pedantic' and kind in ('func', 'stacked') and c['style'] == 'func' and c['text'] == 'none' and not c.get('shadow')
            and not c.get('inside') and rng.random() < 0.14):
        add_sibling(rng, c)
    if focus == 'onepos':
        # exactly ONE declared parameter written positionally, everything else by keyword or left to its default; all values conform
        lead = [p for p in params if p['kind'] in ('pos', 'posonly')]
        kw = dict((k, v) for k, v in c['kwargs'])
        p0 = lead[0]
        c['args'] = [strip_iters(kw[p0['name']] if p0['name'] in kw else p0['default'], False)]
        c['kwargs'] = [kv for kv in c['kwargs'] if kv[0] != p0['name']]
        c['stream'], c['mut'], c['onepos'] = 'near', 'positional', True
    elif stream == 'near' and c['mut'] != 'none':
        pass            # the near-miss is the one the body produces (mutret_bad)
    elif stream == 'near':
        if focus == 'varargs' and vp and rng.random() < 0.6:
            n_lead = len([p for p in params if p['kind'] in ('pos', 'posonly')])
            if len(c['args']) > n_lead:      # corrupt a star element, preferably the first one
                i = n_lead if rng.random() < 0.6 else rng.randrange(n_lead, len(c['args']))
                w = wrong(rng, vp[0]['ann'], c['args'][i])
                if w is not None:
                    c['args'][i] = w
                    c['mut'] = 'star'
        elif positional_style and rng.random() < 0.35:
            lead = [p for p in params if p['kind'] in ('pos', 'posonly')]
            if lead and len(c['args']) >= len(lead):      # a non-conforming positional value for a NAMED parameter declared before *args
                j = rng.randrange(len(lead))
                w = wrong(rng, lead[j]['ann'], c['args'][j])
                if w is not None:
                    c['args'][j] = w
                    c['mut'] = 'lead_positional'
        if c['mut'] == 'none':
            mutate_near(rng, c, kind, positional_style)
    elif stream == 'malformed':
        mutate_malformed(rng, c, kind)
    if kind != 'property' and rng.random() < 0.12:
        rename_params(rng, c)
    if rng.random() < 0.15:
        add_wraps(rng, c)
    return c


def add_wraps(rng, c):
    """the callable under test carries the attributes of ANOTHER function that is already decorated the same way (an earlier function /
    a method of another class with the very same def statement): @functools.wraps(donor) below the decorators - a replacement that keeps
    name and documentation of what it supersedes, an override that keeps the doc of the overridden method - or only donor.__dict__
    (functools.update_wrapper(f, donor, assigned=(), updated=('__dict__',))).  Whatever the decorators of the donor left on it (markers,
    caches, __wrapped__) travels to the new function before it is decorated itself."""
    if c.get('gen') or c.get('shadow') or c.get('sibling') or c['style'] == 'property':
        return
    if c['style'] != 'func' and (c['mkind'] != 'instance' or c.get('self_kw')):
        return
    c['wraps'] = rng.choice(['full', 'full', 'dict'])


MUT_KINDS = {
    # value kind -> annotations under which it is checked element by element (origin, spellings)
    'list': [('List', ['typing', 'builtin']), ('List', ['typing', 'builtin']), ('MutableSequence', ['typing']), ('Sequence', ['typing']),
             ('Iterable', ['typing']), ('Collection', ['typing'])],
    'set': [('Set', ['typing', 'builtin']), ('MutableSet', ['typing']), ('AbstractSet', ['typing'])],
    'deque': [('Deque', ['typing'])],
    'dict': [('Dict', ['typing', 'builtin']), ('Dict', ['typing', 'builtin']), ('Mapping', ['typing']), ('MutableMapping', ['typing'])],
}


def add_mutret(rng, c, stream):
    """one named parameter becomes a mutable container (passed by keyword, positionally in front of *args, or left to its default);
    the body appends / adds / sets ONE element in place and returns that very object; the return annotation is the parameter's
    annotation - the same object.  The model and the oracle see the body's product: the container as it is AFTER the change."""
    params = c['params']
    cands = [p for p in params if p['kind'] in ('pos', 'kwonly') and p['name'] not in (0, 1)]
    if not cands:
        return
    p = rng.choice(cands)
    kind = rng.choice(['list', 'list', 'list', 'dict', 'dict', 'set', 'deque'])
    x = rng.choice(LEAF_FOR_LISTS if kind != 'set' else [['cls', 'int'], ['cls', 'str']])
    if kind != 'set' and rng.random() < 0.2:
        x = ['union', 'typing', [x, ['cls', 'NoneType']]]
    origin, spellings = rng.choice(MUT_KINDS[kind])
    targs = [['cls', 'str'], x] if kind == 'dict' else [x]
    ann = ['gen', rng.choice(spellings), origin, targs]
    elems = [e for e in (conf(rng, x) for _ in range(rng.choice([0, 1, 1, 2]))) if e is not None]
    elems = [strip_iters(e, False) for e in elems]
    if kind == 'set':
        elems = GC.unique(elems)[:1]
    good = conf(rng, x)
    if good is None:
        return
    bad = wrong(rng, x, good)
    if kind == 'set' and (bad is None or not GC.is_hashable(bad)):
        bad = ['none']
    if kind == 'set' and (not GC.is_hashable(good) or good in elems or GC.unique(elems + [good]) != elems + [good]):
        good = None
    use_bad = stream == 'near' and bad is not None and (good is None or rng.random() < 0.75)
    add = bad if use_bad else good
    if add is None:
        return
    add = strip_iters(add, False)
    if kind == 'dict':
        pre = [kind, [[['str', [97 + j]], e] for j, e in enumerate(elems)]]
        post = [kind, pre[1] + [[['str', [122, 122]], add]]]
    else:
        pre = [kind, elems]
        post = [kind, elems + [add]]
    name = p['name']
    lead = [q for q in params if q['kind'] in ('pos', 'posonly')]
    placed = False
    for kv in c['kwargs']:
        if kv[0] == name:
            kv[1] = pre
            placed = True
    if not placed and c['args'] and p in lead and lead.index(p) < len(c['args']):
        c['args'][lead.index(p)] = pre
        placed = True
    if placed:
        if p['default'] is not None:
            p['default'] = [kind, []]
    elif p['default'] is not None:
        p['default'] = pre                    # the parameter is left out: the body changes the DEFAULT object and returns it
    else:
        return
    p['ann'] = ann
    c['ret'] = copy.deepcopy(ann)
    c['ret_same'] = name
    c['body'] = ['ret', post]
    c['mutret'] = {'name': name, 'add': add}
    if kind == 'dict':
        c['mutret']['key'] = ['str', [122, 122]]
    c['mut'] = 'mutret_bad' if use_bad else 'none'
    no_default_iters(c)


def add_sibling(rng, c):
    """the def statement of the function is evaluated twice (a factory called twice): the sibling product has other annotation
    objects (and sometimes other default objects); it is built before or after the product under test and sometimes called first"""
    params = c['params']
    sib = {'anns': [[p['name'], rng.choice(SIB_ANNS)] for p in params if p['ann'] is not None],
           'defaults': [[p['name'], rng.choice([['int', 0], ['none'], ['str', [115]]])] for p in params
                        if p['default'] is not None and rng.random() < 0.3],
           'ret': rng.choice(SIB_ANNS), 'order': rng.choice(['before', 'before', 'after']), 'call': rng.random() < 0.3}
    c['sibling'] = sib
    if sib['call']:
        no_default_iters(c)


def rename_params(rng, c):
    """parameter NAMES are inputs of the call protocol: some named parameters (and the keys that go with them) are spelled like the
    identifiers the decorators use for their own parameters and locals (context, func, call, value, key, ...; also plain `args` /
    `kwargs` where no star parameter carries that name)"""
    params = c['params']
    named = [p for p in params if p['kind'] in ('pos', 'kwonly', 'posonly') and p['name'] not in (0, 1)]
    if not named:
        return
    used = set(p['name'] for p in params) | set(k for k, _ in c['kwargs']) | {0, 1}
    for kv in (c.get('inside') or {}).get('kwargs', []):
        used.add(kv[0])
    pool = [n for n in N.VOCAB + [7, 8] if n not in used]
    rng.shuffle(pool)
    chosen = [p for p in named if rng.random() < 0.5] or [rng.choice(named)]
    mapping = {}
    for p in chosen:
        if pool:
            mapping[p['name']] = pool.pop()
    ren = lambda n: mapping.get(n, n)
    for p in params:
        p['name'] = ren(p['name'])
    c['kwargs'] = [[ren(k), v] for k, v in c['kwargs']]
    if c.get('inside'):
        c['inside']['kwargs'] = [[ren(k), v] for k, v in c['inside']['kwargs']]
    if c.get('mutret'):
        c['mutret']['name'] = ren(c['mutret']['name'])
        c['ret_same'] = ren(c['ret_same'])
    if c.get('sibling'):
        for key in ('anns', 'defaults'):
            c['sibling'][key] = [[ren(k), v] for k, v in c['sibling'][key]]
    c['vocab'] = True


def mutate_near(rng, c, kind, positional_style):
    """one single-position corruption of a conforming call"""
    params = c['params']
    if kind == 'property':      # obj.p = x: the one value there is
        w = wrong(rng, params[0]['ann'], c['args'][0])
        if w is not None:
            c['args'] = [w]
            c['mut'] = 'setter_value'
        return
    opts = ['kwval', 'kwval', 'result', 'positional', 'positional', 'default', 'star', 'varkw', 'nonconf_default_passed']
    rng.shuffle(opts)
    if c.get('recv_as_value') and rng.random() < 0.7:
        opts = ['positional'] + opts
    for o in opts:
        if o == 'kwval' and c['kwargs']:
            i = rng.randrange(len(c['kwargs']))
            name = c['kwargs'][i][0]
            p = [q for q in params if q['name'] == name]
            a = p[0]['ann'] if p else ([q for q in params if q['kind'] == 'varkw'] or [{'ann': None}])[0]['ann']
            w = wrong(rng, a, c['kwargs'][i][1]) if a else None
            if w is not None:
                c['kwargs'][i][1] = w
                c['mut'] = 'kwval'
                return
        if o == 'result' and c['body'][0] == 'ret' and kind != 'property' and not c.get('mutret'):
            w = wrong(rng, c['ret'], c['body'][1])
            if w is not None:
                c['body'] = ['ret', w]
                c['mut'] = 'result'
                return
        if o == 'positional' and kind != 'property':
            # move k >= 1 leading declared parameters of the keyword call into positional position
            lead = [p for p in params if p['kind'] in ('pos', 'posonly')]
            kw = dict((k, v) for k, v in c['kwargs'])
            if lead and not c['args']:
                k = rng.randrange(1, len(lead) + 1)
                if all(p['name'] in kw or p['default'] is not None for p in lead[:k]):
                    moved = [strip_iters(kw[p['name']] if p['name'] in kw else p['default'], False) for p in lead[:k]]
                    c['args'] = moved
                    c['kwargs'] = [kv for kv in c['kwargs'] if kv[0] not in [p['name'] for p in lead[:k]]]
                    c['mut'] = 'positional'
                    if rng.random() < 0.35:      # ... one of them not conforming ("whichever parameter position it is in")
                        j = rng.randrange(k)
                        w = wrong(rng, lead[j]['ann'], moved[j])
                        if w is not None:
                            moved[j] = w
                            c['mut'] = 'positional_bad'
                    if rng.random() < 0.3 and c['kwargs']:      # and corrupt nothing else: values all conform
                        pass
                    return
        if o == 'default':
            cand = [p for p in params if p['default'] is not None and p['name'] not in [k for k, _ in c['kwargs']]]
            if cand:
                p = rng.choice(cand)
                w = wrong(rng, p['ann'], p['default'])
                if w is not None:
                    p['default'] = w
                    c['mut'] = 'default'
                    return
        if o == 'nonconf_default_passed':
            # a non-conforming default that the call overrides by keyword: the call is fine
            cand = [p for p in params if p['default'] is not None and p['name'] in [k for k, _ in c['kwargs']]]
            if cand:
                p = rng.choice(cand)
                w = wrong(rng, p['ann'], p['default'])
                if w is not None:
                    p['default'] = w
                    c['mut'] = 'default_overridden'
                    return
        if o == 'star':
            vp = [p for p in params if p['kind'] == 'varpos']
            n_lead = len([p for p in params if p['kind'] in ('pos', 'posonly')])
            if vp and len(c['args']) > n_lead:
                i = rng.randrange(n_lead, len(c['args']))
                w = wrong(rng, vp[0]['ann'], c['args'][i])
                if w is not None:
                    c['args'][i] = w
                    c['mut'] = 'star'
                    return
        if o == 'varkw':
            vk = [p for p in params if p['kind'] == 'varkw']
            names = [p['name'] for p in params]
            idx = [i for i, kv in enumerate(c['kwargs']) if kv[0] not in names]
            if vk and idx:
                i = rng.choice(idx)
                w = wrong(rng, vk[0]['ann'], c['kwargs'][i][1])
                if w is not None:
                    c['kwargs'][i][1] = w
                    c['mut'] = 'varkw'
                    return
    c['mut'] = 'none'


def mutate_malformed(rng, c, kind):
    params = c['params']
    o = rng.choice(['drop_ann', 'drop_ret', 'unknown_kw', 'surplus_pos', 'missing', 'duplicate', 'bare_ann', 'gen_ret'])
    c['mut'] = o
    if o == 'drop_ann' and params:
        rng.choice(params)['ann'] = None
    elif o == 'drop_ret':
        c['ret'] = None
    elif o == 'unknown_kw' and kind != 'property':
        free = [n for n in EXTRA_KW if n not in [k for k, _ in c['kwargs']]]
        if free:
            c['kwargs'].append([rng.choice(free), ['int', 1]])
    elif o == 'surplus_pos' and kind != 'property':
        c['args'] = c['args'] + [['int', 1]] * rng.choice([1, 2])
    elif o == 'missing' and c['kwargs']:
        c['kwargs'].pop(rng.randrange(len(c['kwargs'])))
    elif o == 'duplicate' and c['kwargs'] and kind != 'property':
        lead = [p for p in params if p['kind'] == 'pos']
        if lead:
            c['args'] = [['int', 1]] + c['args']
    elif o == 'bare_ann' and params:
        rng.choice(params)['ann'] = rng.choice([['bare', 'List'], ['cls', 'list'], ['bare', 'Dict'], ['bare', 'Tuple']])
    else:
        c['mut'] = 'none'


LEAF_FOR_LISTS = [['cls', 'int'], ['cls', 'str'], ['cls', 'float'], ['cls', ['user', [0]]], ['cls', 'bool']]


def gen_history_case(rng, stream):
    """a SEQUENCE on one decorated callable: conforming calls that use a mutable default, then the default object is mutated in
    place (by a conforming or - near-miss - a non-conforming element), then the call under test omits the parameter again.
    Every call is judged against the state of the default AT THAT CALL (the function is reified after the mutation)."""
    for _ in range(20):
        c = gen_case(rng, 'valid', forced=rng.choice(['func', 'func', 'class_deco', 'method_direct', 'stacked']))
        if (not c['async'] and not c.get('self_kw') and c['mut'] == 'none' and not c.get('inside') and not c.get('mutret')
                and not c.get('sibling') and not c.get('vocab')):
            break
    c['stream'] = stream
    c.pop('shadow', None)
    no_default_iters(c)
    x = rng.choice(LEAF_FOR_LISTS)
    ann = ['gen', rng.choice(['typing', 'builtin']), 'List', [x]]
    elems = [conf(rng, x) for _ in range(rng.choice([0, 0, 1, 2]))]
    p = {'name': 13, 'kind': 'kwonly', 'ann': ann, 'default': ['list', [e for e in elems if e is not None]]}
    params = c['params']
    k = len(params) - (1 if params and params[-1]['kind'] == 'varkw' else 0)
    params.insert(k, p)
    c['kwargs'] = [kv for kv in c['kwargs'] if kv[0] != 13]
    good = conf(rng, x)
    bad = wrong(rng, x, good) if good is not None else None
    pre_kwargs = [kv for kv in (c.get('inside') or {}).get('kwargs', [])] or [kv for kv in c['kwargs']]
    if c['args']:          # a positional call of a *args function: the earlier calls are keyword calls of the named parameters only
        pre_kwargs = None
    c['history'] = {'pre': [copy.deepcopy(pre_kwargs)] * rng.choice([1, 2]) if pre_kwargs is not None else []}
    if stream == 'near' and bad is not None:
        c['history']['mutate'] = {'name': 13, 'append': bad}
        c['mut'] = 'default_mutated'
    elif good is not None and rng.random() < 0.7:
        c['history']['mutate'] = {'name': 13, 'append': good}
    return c


def gen_selfann_case(rng, stream):
    """a standalone @pedantic instance method annotated with typing.Self, on a receiver that may be falsy (a class with
    __len__ returning 0 / __bool__ returning False).  typing.Self is outside the abstract syntax of the model: these cases
    are conforming keyword calls by construction and are judged on the implementation against the transparency oracle only."""
    c = {'mode': 'pedantic', 'style': 'method_direct', 'mkind': 'instance', 'name': 'm', 'recv_name': 0, 'decos': ['pedantic'],
         'async': rng.random() < 0.15, 'gen': False, 'text': 'none', 'via': 'instance', 'ctx': GC.CTX, 'stream': stream, 'mut': 'none',
         'nomodel': True, 'exc_msg': 0}
    params, kwargs = [], []
    for i in range(rng.choice([0, 1, 2])):
        a, v = plain_ann_val(rng, rng.choice([0, 1]))
        params.append({'name': POS_NAMES[i], 'kind': 'pos', 'ann': a, 'default': None})
        kwargs.append([POS_NAMES[i], v])
    where = rng.choice(['ret', 'ret', 'param', 'both'])
    if where in ('param', 'both'):
        params.append({'name': 11, 'kind': 'kwonly', 'ann': ['selftype'], 'default': None})
        kwargs.append([11, ['recv2']])
    if where in ('ret', 'both'):
        c['ret'], c['body'] = ['selftype'], ['ret', ['recv']]
    else:
        c['ret'], c['body'] = plain_ann_val(rng, 0)
        c['body'] = ['ret', c['body']]
    c['selfann'] = {'where': where, 'falsy': rng.choice([None, 'len', 'len', 'bool'])}
    c['params'], c['args'], c['kwargs'] = params, [], kwargs
    return c


def judge_nomodel(pid, case, i):
    """conforming keyword calls by construction, judged against the undecorated callable: the body runs once on the caller's
    objects, the very result object comes back, the receiver is not even asked for its length / truth value"""
    if pid != 'C04':
        return None
    if case.get('tvorder'):
        return judge_tvorder(case, i)
    if i['out'] != 0:
        return f'conforming keyword call (typing.Self, receiver falsy: {case["selfann"]["falsy"]}): outcome {i["out"]} ({i.get("exc")}), the undecorated method returns'
    if len(i['journal']) != 1:
        return f'conforming keyword call (typing.Self): the body ran {len(i["journal"])} times'
    if not i.get('same_object', True):
        return 'conforming keyword call (typing.Self): the caller did not receive the very object the body produced'
    if i.get('len_calls'):
        return 'conforming keyword call (typing.Self): checking asked the receiver for its length / truth value'
    return None


def judge_tvorder(case, i):
    """the call conforms (T := the class of the value of the first TypeVar parameter; every other value is an instance of it) and all
    arguments are keywords: the body runs exactly once on the caller's objects and its result / exception reaches the caller unchanged -
    in whatever order the caller wrote the keywords"""
    how = 'keywords in signature order' if case['tvorder'].get('signature_order') else \
        'keywords written in the order ' + ', '.join(N.pname(k) for k, _ in case['kwargs'])
    label = f'conforming keyword call (parameters sharing one TypeVar, values of a class and of its subclasses; {how})'
    want = 0 if case['body'][0] == 'ret' else N.exc_code(case['body'][1])
    if i.get('out') != want:
        return f'{label}: outcome {i.get("out")} ({i.get("exc")}), the undecorated function gives {want}'
    j = i.get('journal') or []
    if len(j) != 1:
        return f'{label}: the body ran {len(j)} times'
    for k, _ in case['kwargs']:
        got = (j[0].get('bind') or {}).get(str(k)) or (j[0].get('bind') or {}).get(k)
        if not got or got[0] != 'one' or [3, k] not in got[1]:
            return f'{label}: the body did not receive the caller\'s object for {N.pname(k)}: {json.dumps(got)[:120]}'
    if not i.get('same_object', True):
        return f'{label}: the caller did not receive the very object the body produced / raised'
    return None


FRESH_NAMES = POS_NAMES + [15, 16, 17, 18]


def gen_anyfront_case(rng):
    """a positionally callable function (one that declares *args, or a dunder method outside the documented list) called positionally;
    in front of a named parameter a parameter annotated typing.Any is declared whose value conforms to the annotation of that right
    neighbour; the neighbour's own value does NOT conform (near-miss: C03 'whichever parameter position it is in').  The parameter
    behind Any is mostly the last named one, and *args is then mostly annotated Any / object as well."""
    for _ in range(60):
        dunder = rng.random() < 0.45
        if dunder:
            c = gen_case(rng, 'valid', forced=rng.choice(['class_deco', 'method_direct']))
        else:
            c = gen_case(rng, 'valid', forced=rng.choice(['func', 'func', 'stacked', 'class_deco', 'method_direct']), focus='varargs')
        # KEPT OUT (known defects of the unchanged library, family 'receiver taken for the first positional value': static / class
        # methods reached through an instance or the class and receivers not called self - the first checking pass does not count the
        # receiver, so every named parameter is checked against its LEFT neighbour's value; behind an Any parameter whose value conforms
        # to the next annotation that shifted check passes and the call ends in CPython's own TypeError / in the body: e.g.
        # @pedantic_class K: @classmethod m(cls, c: Any, a: Dict[..], *args: Any), K().m({}, b'') -> TypeError instead of
        # PedanticTypeCheckException; registered findings *_receiver_taken_as_value / receiver_checked_against_varargs, new symptom)
        if c['mkind'] not in ('plain', 'instance') or c.get('recv_name') not in (None, 0):
            continue
        if (c.get('self_kw') or c['mut'] != 'none' or c.get('inside') or c.get('mutret') or c.get('sibling') or c.get('vocab')
                or c.get('recv_as_value') or c.get('wraps')):
            continue
        params = c['params']
        lead = [p for p in params if p['kind'] in ('pos', 'posonly')]
        vp = [p for p in params if p['kind'] == 'varpos']
        if not lead:
            continue
        if dunder:
            if c['mkind'] != 'instance' or vp:
                continue
            c['name'] = rng.choice(DUNDER_EXEMPT)
            kw = dict((k, v) for k, v in c['kwargs'])
            if not all(p['name'] in kw or p['default'] is not None for p in lead):
                continue
            c['args'] = [strip_iters(kw[p['name']] if p['name'] in kw else p['default'], False) for p in lead]
            c['kwargs'] = [kv for kv in c['kwargs'] if kv[0] not in [p['name'] for p in lead]]
        elif not vp or len(c['args']) < len(lead):
            continue
        j = len(lead) - 1 if rng.random() < 0.75 else rng.randrange(len(lead))
        target = lead[j]
        v_front = conf(rng, target['ann'])
        w = wrong(rng, target['ann'], c['args'][j])
        if v_front is None or w is None:
            continue
        used = set(p['name'] for p in params) | set(k for k, _ in c['kwargs']) | {0, 1}
        fresh = [n for n in FRESH_NAMES if n not in used]
        if not fresh:
            continue
        n_any = rng.choice([1, 1, 1, 2]) if len(fresh) > 1 else 1
        pos = params.index(target)
        for q in range(n_any):
            dflt = rng.choice([['int', 0], ['none'], ['str', [97]]]) if target['default'] is not None else None
            params.insert(pos, {'name': fresh[q], 'kind': target['kind'], 'ann': ['any'], 'default': dflt})
            # every value conforms to Any; this one also conforms to the annotation of the parameter on its right
            c['args'].insert(j, strip_iters(v_front if q == 0 else (conf(rng, target['ann']) or v_front), False))
        c['args'][j + n_any] = w
        if vp and j == len(lead) - 1 and rng.random() < 0.7:
            vp[0]['ann'] = rng.choice([['any'], ['any'], ['cls', 'object']])
        c['stream'], c['mut'], c['anyfront'] = 'near', 'positional_bad_behind_any', True
        c.pop('shadow', None)
        no_default_iters(c)
        return c
    return gen_case(rng, 'near', focus='varargs')


TV_FAMILIES = [
    # a class and subclasses of it, each value's class a subclass of (or equal to) the class of the value BEFORE it in signature order.
    # KEPT OUT (suspected defect of the unchanged library, reported: check_types._is_instance re-binds an already bound TypeVar to the
    # class of every later value - `type_vars[type_] = type(obj)` - so the binding narrows along the signature):
    # f(a=1, b=True, c=7) / f(a=Animal(), b=Dog(), c=Animal()) with a: T, b: T, c: T raise PedanticTypeVarMismatchException although
    # f(a=Animal(), b=Animal(), c=Dog()) is accepted, i.e. families like [int, bool, int] and [[0], [0, 1], [0]].
    [['int', 1], ['bool', True], ['bool', False]],
    [['inst', [0], 1], ['inst', [0, 1], 2], ['inst', [0, 1, 0], 3]],
    [['inst', [0], 1], ['inst', [0], 4], ['inst', [0, 1], 2]],
    [['int', 5], ['int', 7], ['bool', True]],
    [['float', 3], ['float', 5], ['float', 1]],
]


def gen_tvorder_case(rng):
    """two or three named parameters annotated with ONE unconstrained TypeVar; in signature order the first receives an instance of
    a class and the others instances of that class or of subclasses of it (Animal / Dog, int / bool): the call conforms with
    T := the class of the first.  All arguments are keywords; the call under test writes them in a random order - the same call as far
    as Python is concerned.  TypeVar conformance is outside the oracle of Spec/PedanticSpec.v (`conforms` is Unspec there): these cases
    are judged on the implementation against the undecorated twin only."""
    kind = rng.choice(['func', 'func', 'method_direct', 'class_deco'])
    c = {'mode': 'pedantic', 'style': 'func', 'mkind': 'plain', 'name': 'f', 'recv_name': None, 'decos': ['pedantic'],
         'async': rng.random() < 0.1, 'gen': False, 'text': 'none', 'via': None, 'ctx': GC.CTX, 'stream': 'valid', 'mut': 'none',
         'nomodel': True, 'exc_msg': 0}
    if kind != 'func':
        c.update({'style': kind, 'mkind': 'instance', 'name': 'm', 'recv_name': 0, 'decos': [] if kind == 'class_deco' else ['pedantic'],
                  'via': rng.choice(['instance', 'sub_instance'])})
    tv = ['tv', {'id': rng.choice([10, 11]), 'constraints': [], 'bound': None, 'contra': False}]
    fam = rng.choice(TV_FAMILIES)
    n = rng.choice([2, 2, 3])
    n_kwo = rng.choice([0, 0, 1])
    params, kwargs = [], []
    names = POS_NAMES[:n - n_kwo] + KWO_NAMES[:n_kwo]
    for i, name in enumerate(names):
        params.append({'name': name, 'kind': 'kwonly' if i >= n - n_kwo else 'pos', 'ann': copy.deepcopy(tv), 'default': None})
        kwargs.append([name, fam[i]])
    if rng.random() < 0.4:      # an ordinary parameter somewhere among them
        a, v = plain_ann_val(rng, 0)
        k = rng.randrange(0, n - n_kwo + 1)
        params.insert(k, {'name': 6, 'kind': 'pos', 'ann': a, 'default': None})
        kwargs.append([6, v])
    c['ret'], rv = plain_ann_val(rng, 0)
    c['body'] = ['ret', rv] if rng.random() < 0.85 else ['raise', rng.choice(BODY_EXC)]
    order = list(range(len(kwargs)))
    rng.shuffle(order)
    c['params'], c['args'], c['kwargs'] = params, [], [kwargs[k] for k in order]
    c['tvorder'] = {'order': order, 'signature_order': order == sorted(order)}
    return c


def gen_cases(rng, tier, scale=1):
    n = int((700 if tier == 'quick' else 60000) * scale)
    cases = []
    for i in range(n):
        r = rng.random()
        stream = 'valid' if r < 0.45 else 'near' if r < 0.90 else 'malformed'
        r2 = rng.random()
        if r2 < 0.07:
            cases.append(gen_history_case(rng, stream if stream != 'malformed' else 'near'))
        elif r2 < 0.10:
            cases.append(gen_selfann_case(rng, 'valid'))
        elif r2 < 0.28:
            cases.append(gen_gen_case(rng, stream))
        elif r2 < 0.40:
            cases.append(gen_case(rng, stream, forced=rng.choice(['func', 'stacked', 'stacked', 'class_deco', 'method_direct']), focus='varargs'))
        elif r2 < 0.48:
            # one declared parameter positional, every other one defaulted; '@' somewhere in the source of the function
            cases.append(gen_case(rng, 'near', forced=rng.choice(['func', 'func', 'func', 'require_kwargs', 'require_kwargs', 'class_deco',
                                                                   'method_direct', 'stacked']), focus='onepos'))
        elif r2 < 0.53:
            cases.append(gen_anyfront_case(rng))
        elif r2 < 0.57:
            cases.append(gen_tvorder_case(rng))
        else:
            cases.append(gen_case(rng, stream))
    return cases


def size_of(c):
    return (len(c['params']), len(c['args']) + len(c['kwargs']), len(json.dumps(c)))


def base_case(**kw):
    """@pedantic def f(a: int) -> int, called f(a=1), body returns 1 - the skeleton of the finding witnesses"""
    c = {'mode': 'pedantic', 'style': 'func', 'mkind': 'plain', 'name': 'f', 'recv_name': None, 'decos': ['pedantic'],
         'async': False, 'gen': False, 'text': 'none', 'via': None, 'ctx': GC.CTX, 'stream': 'witness', 'mut': 'none',
         'params': [{'name': 2, 'kind': 'pos', 'ann': ['cls', 'int'], 'default': None}], 'ret': ['cls', 'int'],
         'body': ['ret', ['int', 1]], 'args': [], 'kwargs': [[2, ['int', 1]]]}
    c.update(kw)
    return c


# ------------------------------------------------------------------------------------------ judges
def judge_corr(case, i, m):
    """implementation vs model; returns None or a description of the disagreement"""
    if case['gen']:
        return gen_judge_corr(case, i, m)
    if i['out'] != m['out']:
        return f'outcome: implementation {i["out"]} ({i.get("exc")}), model {m["out"]}'
    if not journal_agrees(i['journal'], m['journal']):
        return f'journal: implementation {json.dumps(i["journal"])[:300]}, model {json.dumps(m["journal"])[:300]}'
    if i['out'] == 0 and 'result_consumed' in i and bool(i['result_consumed']) != bool(m['res_drained']):
        return (f'one-shot iterators inside the result as the caller receives it: implementation consumed={i["result_consumed"]}, '
                f'model consumed={bool(m["res_drained"])}')
    return None


def has_varpos(fn):
    return any(p['kind'] == 'varpos' for p in fn['params'])


def judge_c03(case, i, m):
    if case['mode'] != 'pedantic':
        return None
    if case['gen']:
        return gen_judge_c03(case, i, m)
    if m['c03_args_bad']:
        if i['journal']:
            return 'a supplied value does not conform to its annotation, but the body ran'
        strict = not case['args'] or has_varpos(i['fn'])
        if strict and i['out'] != 1:
            return f'a supplied value does not conform: PedanticTypeCheckException expected, got outcome {i["out"]} ({i.get("exc")})'
        if not strict and i['out'] not in PEDANTIC:
            return f'a supplied value does not conform in a positional call: a PedanticException expected, got {i["out"]} ({i.get("exc")})'
    if m['c03_result_bad'] and case['body'][0] == 'ret' and i['journal'] and i['out'] != 1:
        return (f'the body produced a value that does not conform to the return annotation; the caller got outcome {i["out"]} '
                f'({i.get("exc")}) instead of PedanticTypeCheckException')
    return None


def judge_c04(case, i, m):
    if case['gen']:
        return gen_judge_c04(case, i, m)
    if case['mode'] != 'pedantic' or not (m['c04_call_ok'] and m['c04_result_ok']):
        return None
    if i['out'] != m['twin_out']:
        return f'conforming keyword call: outcome {i["out"]} ({i.get("exc")}), the undecorated function gives {m["twin_out"]}'
    if not journal_agrees(i['journal'], m['twin_journal']):
        return (f'conforming keyword call: the body saw {json.dumps(i["journal"])[:300]}, the undecorated function would see '
                f'{json.dumps(m["twin_journal"])[:300]}')
    if not i.get('same_object', True):
        return 'conforming keyword call: the caller did not receive the very object the body produced / raised'
    if i.get('result_consumed'):
        return 'conforming keyword call: the result reached the caller with a one-shot iterator inside it exhausted by the check'
    return None


def judge_c05(case, i, m):
    if m['c05_positional']:
        if i['journal']:
            return 'a declared parameter was passed positionally, but the body ran'
        if i['out'] not in PEDANTIC:
            return f'a declared parameter was passed positionally: a PedanticException expected, got outcome {i["out"]} ({i.get("exc")})'
    if not case['args'] and i['out'] == 3:
        return 'no positional argument was written by the caller, but PedanticCallWithArgsException was raised (implicit self/cls counted)'
    return None


def total(judge):
    """a judge must never raise on an unexpected implementation outcome: a failure of the judge is a finding of its own"""
    def safe(case, i, m):
        try:
            return judge(case, i, m)
        except Exception as ex:       # noqa
            return f'unexpected shape of the observed outcome ({type(ex).__name__}: {ex}): implementation {json.dumps({k: v for k, v in i.items() if k != "fn"})[:300]}'
    return safe


JUDGES = {'C03': total(judge_c03), 'C04': total(judge_c04), 'C05': total(judge_c05)}


# ------------------------------------------------------------------------------------------ known findings
def strips_first(fn):
    t = fn['text']
    return fn['first_arg'] == 0 or t['staticmethod'] or t['n_at'] > (1 if t['pedantic'] else 0)


def names_varpos_args(fn):
    return any(p['kind'] == 'varpos' and p['name'] == 7 for p in fn['params'])


def is_iterable_ann(a):
    return bool(a) and a[0] == 'gen' and a[2] == 'Iterable'


def iter_under_iterable(case, fn):
    """a one-shot iterator written by the caller (or a default) whose annotation in force is typing.Iterable[...]"""
    byname = {p['name']: p for p in fn['params'] if p['kind'] in ('pos', 'kwonly', 'posonly')}
    varkw = [p for p in fn['params'] if p['kind'] == 'varkw']
    varpos = [p for p in fn['params'] if p['kind'] == 'varpos']
    given = set()
    for k, v in case['kwargs']:
        given.add(k)
        p = byname.get(k) or (varkw[0] if varkw else None)
        if v[0] == 'iter' and p and is_iterable_ann(p['ann']):
            return True
    for p in byname.values():
        if p['name'] not in given and p['default'] is not None and p['default'][0] == 'iter' and is_iterable_ann(p['ann']):
            return True
    lead = [p for p in fn['params'] if p['kind'] in ('pos', 'posonly') and p['name'] != 0]
    for i, v in enumerate(case['args']):
        p = lead[i] if i < len(lead) else (varpos[0] if varpos else None)
        if v[0] == 'iter' and ((p and is_iterable_ann(p['ann'])) or (varpos and is_iterable_ann(varpos[0]['ann']))):
            return True
    return False


def resumed_after_exhaustion(case):
    """mirror of the scripted generator: is there a next()/send() after the generator has finished, for a generator whose
    declared return type is not None (the wrapper then checks the None of the new StopIteration against it)"""
    rt = case.get('ret')
    if not (case.get('gen') and rt and rt[0] == 'gen' and rt[2] == 'Generator' and len(rt[3]) == 3):
        return False
    if rt[3][2] in (['none'], ['cls', 'NoneType'], ['any'], ['cls', 'object']):
        return False
    script, idx, started, done, extra = case['script'], 0, False, False, False
    for op in case['ops']:
        if op[0] in ('next', 'send'):
            if done:
                return True
            if not started and op[0] == 'send' and op[1] != ['none']:
                continue
            started, extra = True, False
            if idx < len(script) and script[idx][0] == 'yield':
                idx += 1
            else:
                done = True
        elif op[0] == 'throw':
            ot = case.get('on_throw', 'propagate')
            if done or not started or extra or ot == 'propagate' or ot[0] == 'ret':
                done = True
            else:
                extra = True
        else:
            done = True
    return False


MATCHERS = {
    # id -> predicate(case, fn)
    # the model's own account of the checker's traversal (Spec.PedanticSpec.no_iterator_consumed / result_intact on this very case)
    'oneshot_iterator_under_iterable': lambda c, fn: (c.get('_mflags') or {}).get('no_iter_consumed') == 0 and iter_under_iterable(c, fn),
    'oneshot_iterator_nested': lambda c, fn: (c.get('_mflags') or {}).get('no_iter_consumed') == 0 and not iter_under_iterable(c, fn),
    'oneshot_iterator_in_result': lambda c, fn: (c.get('_mflags') or {}).get('result_intact') == 0,
    'self_passed_by_keyword': lambda c, fn: bool(c.get('self_kw')),
    'classmethod_of_pedantic_class_via_subclass': lambda c, fn: c['style'] == 'class_deco' and c['mkind'] == 'class'
                                                               and c.get('via') in ('subclass', 'sub_instance'),
    'staticmethod_text_without_staticmethod': lambda c, fn: fn['text']['staticmethod'] and c['mkind'] != 'static',
    'star_args_text_without_star_args': lambda c, fn: fn['text']['star_args'] and not names_varpos_args(fn),
    'setter_text_without_setter': lambda c, fn: fn['text']['setter'] and c['style'] != 'property',
    'varpos_not_spelled_args': lambda c, fn: has_varpos(fn) and not fn['text']['star_args'],
    'receiver_not_named_self': lambda c, fn: c['mkind'] == 'instance' and c['style'] != 'func' and fn['first_arg'] != 0,
    # the single positional value is stripped as if it were the receiver AND no required parameter is left unfilled
    # (otherwise the implementation still raises 'Parameter ... is unfilled': coq/Props/C05.v C05_stripped_but_unfilled_partial)
    'first_positional_stripped': lambda c, fn: len(c['args']) == 1 and not call_parts(c)[0] and strips_first(fn)
                                               and (c['mode'] == 'require_kwargs' or
                                                    all(p['default'] is not None or p['name'] in [k for k, _ in c['kwargs']]
                                                        for p in fn['params'] if p['kind'] in ('pos', 'posonly', 'kwonly') and p['name'] != 0)),
    # a receiver that the first pass does not count, where positional calls are allowed: it is taken for the first positional value
    'hidden_method_receiver_taken_as_value': lambda c, fn: c['mkind'] == 'instance' and c['style'] != 'func' and bool(call_parts(c)[0])
                                                          and fn['first_arg'] != 0 and (c.get('_mflags') or {}).get('shk') == 0,
    'static_through_instance_receiver_taken_as_value': lambda c, fn: c['mkind'] in ('static', 'class') and bool(call_parts(c)[0])
                                                                     and fn['first_arg'] != 0 and (c.get('_mflags') or {}).get('shk') == 0,
    # a parameter called self that is not the receiver
    'non_receiver_parameter_named_self': lambda c, fn: any(p['name'] == 0 for j, p in enumerate(fn['params'])
                                                           if not (j == 0 and c.get('recv_name') == 0)),
    'classmethod_decorated_directly': lambda c, fn: c['style'] == 'method_direct' and c['mkind'] == 'class' and c['mode'] == 'pedantic',
    # a receiver the first checking pass does not count (no first parameter called self) in front of *args
    'receiver_checked_against_varargs': lambda c, fn: bool(call_parts(c)[0]) and fn['first_arg'] != 0
                                                      and (has_varpos(fn) or (c.get('_mflags') or {}).get('shk') == 0),
    # static / class methods are called with the keyword arguments only (_get_return_value): positional values for *args are lost
    'star_elements_dropped_for_static_or_class_method': lambda c, fn: has_varpos(fn) and len(c['args']) > 0
                                                                      and (fn['text']['staticmethod'] or fn['bound'] is not None),
    'generator_resumed_after_exhaustion': lambda c, fn: resumed_after_exhaustion(c),
    'throw_answered_by_generator': lambda c, fn: bool(c.get('gen')) and c.get('on_throw', 'propagate') != 'propagate'
                                                 and any(o[0] == 'throw' for o in c.get('ops', [])),
    'pedantic_text_in_method_of_pedantic_class': lambda c, fn: c['style'] == 'class_deco' and fn['text']['pedantic'],
}


def mflags(case, m):
    """the verdicts of the model's specification predicates that matchers may consult"""
    if m is None:
        return {}
    if case.get('gen'):
        return {'next_rejected': any(o[0] == 'next' and initialized_before(case, idx) and not flag(m.get('ok_sent', []), idx, 1)
                                     for idx, o in enumerate(case.get('ops', [])))}
    return {'no_iter_consumed': m.get('no_iter_consumed'), 'result_intact': m.get('result_intact'), 'shk': m.get('shk')}


def lead_params(c, fn):
    """the named parameters that positional values of the call fill, in order (without the receiver parameter)"""
    lead = [q for q in fn['params'] if q['kind'] in ('pos', 'posonly')]
    if lead and c.get('recv_name') is not None and lead[0]['name'] == c['recv_name']:
        lead = lead[1:]
    return lead


def what_class(what):
    """the kind of failure a judge reports, without the case-specific details"""
    return re.sub(r'\d+', 'N', what.split('(')[0].split('[')[0]).strip()[:80]


def symptom(i, what):
    """what was observed: the kind of failure, the outcome class of the call, whether the body ran"""
    return [what_class(what), i.get('out'), bool(i.get('journal'))]


def symptom_registered(sym, registered):
    """registered: [kind of failure, outcome class or '*' (the outcome is the body's business), body ran]"""
    return any(r[0] == sym[0] and r[2] == sym[2] and r[1] in ('*', sym[1]) for r in registered or [])


def matcher(finding, case):
    """a violation is covered by an open known finding only if
       (a) the MODEL reproduces the implementation on this very case (the finding is: the code does what the faithful model
           says, and that violates the property) - anything the model does not predict is a fresh violation,
       (b) the callable / call has the shape of the finding, and
       (c) the observed symptom (kind of failure, outcome class) is one of those registered with the finding"""
    m = finding.get('matcher') or {}
    pred = MATCHERS.get(m.get('id'))
    fn = case.get('_fn')
    if not (pred and fn and case.get('_agrees')):
        return False
    return bool(pred(case, fn)) and symptom_registered(case.get('_sym'), m.get('symptoms'))


# ------------------------------------------------------------------------------------------ the check
def evaluate(ck, cases):
    """run implementation and model on the cases; returns list of (case, impl, decoded model or None)"""
    for c in cases:
        # `yield from` resumes the inner generator with next() when the value sent to the delegating generator is None:
        # what the wrapper sees of such a send is a __next__
        if c.get('gen') and c.get('drive') == 'yield_from':
            c['ops'] = [['next'] if o == ['send', ['none']] else o for o in c['ops']]
    impl = ck.run_impl('w_pedantic', cases, timeout=900)
    idx = [k for k, i in enumerate(impl) if i and 'fn' in i and not cases[k].get('nomodel')]
    # the model and the oracle evaluate the REIFIED values (what the rendered objects really are: {True: .., 1.0: ..} is one item)
    for k in idx:
        rf = impl[k].get('reified') or {}
        cases[k] = dict(cases[k], **{key: rf[key] for key in ('args', 'kwargs', 'body', 'script', 'ops', 'on_throw') if key in rf})
    terms = [coq_term(cases[k], impl[k]['fn']) for k in idx]
    model = ck.coq_eval(PRE, terms) if ck.model_ok else [None] * len(terms)
    out = [(c, i, None) for c, i in zip(cases, impl)]
    for k, m in zip(idx, model):
        out[k] = (cases[k], impl[k], decode(m, cases[k]) if m is not None else None)
    return out


def lock_obligation(ck):
    """the functions of /repo that coq/Model/Pedantic.v and coq/Model/GenWrapper.v model by hand must be the ones the model
    was validated against: their AST hashes (regenerated into coq/Gen/Pedantic.v) are compared with the committed baseline"""
    import re

    def locks_of(path):
        try:
            text = open(path, encoding='utf-8').read()
        except OSError:
            return {}
        body = text[text.index('Definition locks'):] if 'Definition locks' in text else ''
        return dict(re.findall(r'\("([^"]+)", "([0-9a-f]+)"\)', body))
    gen = locks_of(os.path.join(COQ, 'Gen', 'Pedantic.v'))
    base = locks_of(os.path.join(COQ, 'Gen.baseline', 'Pedantic.v'))
    diff = sorted(k for k in set(gen) | set(base) if gen.get(k) != base.get(k))
    ck.oblige('locks:hand-modelled-functions', 'translation', bool(gen) and not diff,
              ('changed since the model was validated: ' + ', '.join(diff)) if diff else f'{len(gen)} functions unchanged')


def reductions(c):
    """single-step structural reductions of a case (drop a parameter, a keyword, a positional value, simplify the return
    annotation / the text / the generator script)"""
    out = []
    base = {k: v for k, v in c.items() if not k.startswith('_')}
    mu = (base.get('mutret') or {}).get('name')          # the parameter whose value the body changes and returns stays as it is
    for i, p in enumerate(base['params']):
        if p['name'] == mu:
            continue
        d = copy.deepcopy(base)
        d['params'].pop(i)
        d['kwargs'] = [kv for kv in d['kwargs'] if kv[0] != p['name']]
        if p['kind'] in ('pos', 'posonly') and d['args']:
            lead = [q for q in base['params'] if q['kind'] in ('pos', 'posonly')]
            j = lead.index(p)
            if j < len(d['args']):
                d['args'].pop(j)
        out.append(d)
    for i in range(len(base['kwargs'])):
        if base['kwargs'][i][0] != mu:
            d = copy.deepcopy(base); d['kwargs'].pop(i); out.append(d)
    for i in range(len(base['args'])):
        if base['style'] != 'property' and mu is None:
            d = copy.deepcopy(base); d['args'].pop(i); out.append(d)
    if base.get('sibling'):
        d = copy.deepcopy(base); d.pop('sibling'); out.append(d)
        if base['sibling'].get('call'):
            d = copy.deepcopy(base); d['sibling']['call'] = False; out.append(d)
    if base['text'] != 'none':
        d = copy.deepcopy(base); d['text'] = 'none'; out.append(d)
    if base.get('shadow'):
        d = copy.deepcopy(base); d.pop('shadow'); out.append(d)
    if base.get('wraps'):
        d = copy.deepcopy(base); d.pop('wraps'); out.append(d)
    if base.get('inside'):
        d = copy.deepcopy(base); d.pop('inside'); out.append(d)
    if base.get('history') and len(base['history'].get('pre', [])) > 1:
        d = copy.deepcopy(base); d['history']['pre'] = d['history']['pre'][:1]; out.append(d)
    if base.get('drive') == 'yield_from':
        d = copy.deepcopy(base); d['drive'] = 'direct'; out.append(d)
    if base.get('exc_msg'):
        d = copy.deepcopy(base); d['exc_msg'] = 0; out.append(d)
    if not base['gen'] and base['ret'] != ['cls', 'int'] and base['style'] != 'property' and mu is None:
        d = copy.deepcopy(base); d['ret'] = ['cls', 'int']; d['body'] = ['ret', ['int', 1]]; out.append(d)
    if base['gen']:
        for i in range(len(base['script']) - 1):
            d = copy.deepcopy(base); d['script'].pop(i); out.append(d)
        for i in range(len(base['ops'])):
            d = copy.deepcopy(base); d['ops'].pop(i); out.append(d)
    for i, p in enumerate(base['params']):
        if p['ann'] not in (None, ['cls', 'int']) and p['kind'] in ('pos', 'kwonly') and p['name'] != mu:
            d = copy.deepcopy(base)
            d['params'][i]['ann'] = ['cls', 'int']
            if d['params'][i]['default'] is not None:
                d['params'][i]['default'] = ['int', 0]
            d['kwargs'] = [[k, ['int', 1]] if k == p['name'] else [k, v] for k, v in d['kwargs']]
            out.append(d)
    return out


def shrink_first(ck, judge, rounds=4):
    """shrink the smallest violation that no known finding covers: structural replacement while the same failure persists"""
    v = ck.violations[0]
    klass = re.sub(r'\d+', 'N', v['what'])[:60]
    best = v['case']
    for _ in range(rounds):
        cands = reductions(best)
        if not cands:
            break
        res = evaluate(ck, cands)
        ok = []
        for c, i, m in res:
            if i and m and 'fn' in i:
                w = judge(c, i, m)
                try:
                    agrees = judge_corr(c, i, m) is None
                except Exception:      # noqa
                    agrees = False
                cc = dict(c, _fn=i['fn'], _sym=symptom(i, w) if w else None, _agrees=agrees, _mflags=mflags(c, m))
                if w and re.sub(r'\d+', 'N', w)[:60] == klass and not any(f['status'] == 'open' and matcher(f, cc) for f in ck.findings):
                    ok.append((size_of(c), cc, w, i, m))
        if not ok:
            break
        ok.sort(key=lambda t: t[0])
        _, best, w, i, m = ok[0]
        v.update({'case': best, 'what': w, 'impl': {k: x for k, x in i.items() if k != 'fn'}, 'model': m, 'shrunk': True})


def run(pid, props, tier, seed, replay=None):
    ck = Check(pid, tier, seed, UNITS, MODEL, props)
    ck.prepare()
    lock_obligation(ck)
    judge = JUDGES[pid]

    # the witnesses of all known findings of this property are replayed in one batch
    wit = {}
    if ck.findings:
        for f, (c, i, m) in zip(ck.findings, evaluate(ck, [copy.deepcopy(f['witness']) for f in ck.findings])):
            wit[f['id']] = bool(i and m and 'fn' in i and judge(c, i, m))

    def still_fails(f):
        return wit.get(f['id'], False)
    ck.replay_known_findings(still_fails)
    cases = gen_cases(ck.rng, tier, ck.scale()) if (replay is None or 'case' not in replay) else [replay['case']]
    for c in cases:
        for key in ('_fn', '_sym', '_agrees', '_mflags'):
            c.pop(key, None)
    results = evaluate(ck, cases)
    hist, disagreements = {}, []

    def bump(k):
        hist[k] = hist.get(k, 0) + 1
    for c, i, m in results:
        if i is None or 'error' in i:
            disagreements.append({'case': c, 'what': f'implementation worker failed: {i}'})
            continue
        if 'skip' in i:
            bump('skipped'); continue
        if 'decoration' in i:
            bump('rejected-at-decoration'); continue
        if c.get('nomodel'):
            bump('stream:model-free(typing.Self)' if c.get('selfann') else 'dim:one-typevar-shared-keyword-order-permuted'
                 + ('' if not (c.get('tvorder') or {}).get('signature_order') else '(signature order)'))
            bump('outcome:%d' % i['out'])
            ck.note_case(json.dumps([c['style'], c['params'], c['kwargs'], c.get('selfann'), c.get('tvorder'), c['ret']], sort_keys=True), nontrivial=True)
            what = total(lambda cs, im, _m: judge_nomodel(pid, cs, im))(c, i, None)
            if what:
                ck.violation(what, dict(c, _fn=i['fn']), stream='pedantic/self' if c.get('selfann') else 'pedantic/typevar-order', extra={'impl': {k: v for k, v in i.items() if k != 'fn'}}, matcher=matcher)
            else:
                ck.traces_validated += 1
            continue
        if m is None:
            disagreements.append({'case': c, 'what': 'model evaluation failed'})
            continue
        key = json.dumps([c[k] for k in ('style', 'mkind', 'name', 'decos', 'text', 'via', 'params', 'ret', 'args', 'kwargs', 'body', 'async')]
                         + [c.get('mutret'), c.get('sibling')], sort_keys=True)
        ck.note_case(key, nontrivial=len(c['params']) >= 1 and (c['mut'] != 'none' or len(c['kwargs']) + len(c['args']) >= 1))
        if c.get('history'): bump('history(calls before, default mutated)')
        if c.get('inside'): bump('made-inside-a-running-call')
        if c.get('mutret'): bump('dim:body-changes-argument-in-place-and-returns-it' + ('(non-conforming)' if c['mut'] == 'mutret_bad' else ''))
        if c.get('sibling'): bump('dim:two-products-of-one-def-statement')
        if c.get('onepos'): bump('dim:one-positional-all-defaulted')
        if c.get('anyfront'): bump('dim:positional-value-behind-any-annotated-parameters')
        if c.get('wraps'): bump('dim:target-carries-attributes-of-a-decorated-function')
        if c.get('wraps') and m['c05_positional']: bump('dim:target-carries-attributes-of-a-decorated-function(positional call)')
        if c['text'] in AT_TEXTS: bump('dim:at-sign-in-source')
        if any(p['name'] in N.VOCAB or (p['name'] in (7, 8) and p['kind'] in ('pos', 'kwonly', 'posonly')) for p in c['params']) \
                or any(k in N.VOCAB for k, _ in c['kwargs']):
            bump('dim:names-of-the-decorators-own-vocabulary')
        bump('stream:' + c['stream']); bump('style:' + c['style'] + '/' + c['mkind']); bump('mut:' + c['mut'])
        bump('outcome:%d' % i['out']); bump('body-ran:%d' % len(i['journal']))
        if c['text'] != 'none': bump('text-varied')
        for flag in ('c03_args_bad', 'c03_result_bad', 'c04_call_ok', 'c05_positional'):
            if m[flag]: bump('spec:' + flag)
        if m.get('c03_positional_bad'): bump('spec:c03_positional_bad')
        if m.get('no_iter_consumed') == 0: bump('iterator-consumed:argument' + ('' if iter_under_iterable(c, i['fn']) else '(nested)'))
        if m.get('result_intact') == 0 and i['out'] == 0: bump('iterator-consumed:result')
        what = judge(c, i, m)
        try:
            corr = judge_corr(c, i, m)
        except Exception as ex:      # noqa
            corr = f'outcome of an unexpected shape ({type(ex).__name__}: {ex})'
        if what:
            cc = dict(c, _fn=i['fn'], _sym=symptom(i, what), _agrees=(corr is None), _mflags=mflags(c, m))
            ck.violation(what, cc, stream='pedantic/' + c['stream'], extra={'impl': {k: v for k, v in i.items() if k != 'fn'}, 'model': m},
                         matcher=matcher)
            if corr:
                disagreements.append({'case': c, 'what': corr, 'impl': i})
        elif corr:
            disagreements.append({'case': c, 'what': corr, 'impl': i})
        else:
            ck.traces_validated += 1
    ck.violations.sort(key=lambda v: size_of(v['case']))
    if ck.violations and replay is None:
        shrink_first(ck, judge)
    disagreements.sort(key=lambda d: size_of(d['case']))
    ck.oblige('correspondence:pedantic/sig-x-call', 'correspondence', not disagreements,
              json.dumps(disagreements[0], default=str)[:1500] if disagreements else f'{ck.traces_validated} calls agree')
    floor_ok = replay is not None or (hist.get('spec:c03_args_bad', 0) >= 20 and hist.get('spec:c04_call_ok', 0) >= 50
                                      and hist.get('spec:c05_positional', 0) >= 20
                                      and hist.get('dim:body-changes-argument-in-place-and-returns-it(non-conforming)', 0) >= 4
                                      and hist.get('dim:two-products-of-one-def-statement', 0) >= 8
                                      and hist.get('dim:one-positional-all-defaulted', 0) >= 20
                                      and hist.get('dim:names-of-the-decorators-own-vocabulary', 0) >= 20
                                      and hist.get('dim:positional-value-behind-any-annotated-parameters', 0) >= 10
                                      and hist.get('dim:target-carries-attributes-of-a-decorated-function', 0) >= 20
                                      and hist.get('dim:target-carries-attributes-of-a-decorated-function(positional call)', 0) >= 3
                                      and hist.get('dim:one-typevar-shared-keyword-order-permuted', 0) >= 5)
    ck.oblige('generator-floor', 'correspondence', floor_ok,
              f'cases per oracle region / input dimension: {dict((k, v) for k, v in hist.items() if k.startswith(("spec:", "dim:")))}')
    ck.coverage.update({'histogram': dict(sorted(hist.items())), 'disagreements': len(disagreements)})
    ck.samples = [{'case': c, 'impl_outcome': i.get('out') if i else None, 'model_outcome': m['out'] if m else None}
                  for c, i, m in results[:3] + results[-3:]]
    ck.assumptions = [
        'CPython argument binding, descriptors (function / staticmethod / classmethod / property), inspect.signature / getfullargspec / '
        'getsource / ismethod are modelled (Base/PyCall.v, the reification in w_pedantic.py), validated by this correspondence only',
        'the type checker is the model of C01/C02 (Model/Checker.v over Gen/CheckerTables.v); theorems are stated relative to it',
        'values\' dunder methods are the builtin ones; class identity = class name',
        'one-shot iterators are tracked at every depth of the supplied values and of the result, and placed where the model of the '
        'checker\'s traversal is exact (through generics, Tuple[...] and Optional[...]; not inside sets / keys / other iterators, not '
        'under other unions, not for a positional value of a named parameter of a *args function (checked twice), not in values that '
        'travel through a GeneratorWrapper)',
    ]
    return ck.finish(
        rule='generated modules (real files) x calls: signatures with all parameter kinds / defaults / *args / **kwargs, plain functions, '
             'instance / static / class methods via @pedantic_class and via direct decoration, property setters, coroutines, stacked decorators '
             'in both orders, bodies whose text carries the trigger words (also \'@\' and decorator-looking lines after the def line: nested '
             'decorated definitions, docstring tags, the @ operator), parameter names and **kwargs keys drawn from the decorators\' own '
             'vocabulary, bodies that change an argument container in place and return it under the parameter\'s own annotation object, '
             'functions that are one of two products of the same def statement with different annotations, one positional value '
             'where every parameter has a default; streams valid 45% / near-miss 45% (one corrupted keyword value, default, '
             '*args element, **kwargs value, result, or k leading keywords moved to positional) / malformed 10%; distinct = canonical case; '
             'non-trivial = at least one declared parameter and (a corruption or at least one argument)',
        checker_cmd=f'make -C coq {props[:-2]}.vo && coqc -Q coq PV coq/{props} (Print Assumptions under every theorem)',
        trusted_base=['Coq 8.16.1 kernel (coqc; vm_compute for model evaluation and cfg_good)',
                      'translator/t_pedantic.py, translator/t_checker.py (Python ast -> Gen/Pedantic.v, Gen/CheckerTables.v)',
                      'Base/PyCall.v (CPython argument binding), Model/Pedantic.v, Model/GenWrapper.v (hand-written, tied by correspondence and AST locks)',
                      'harness/w_pedantic.py, harness/p_common.py, harness/universe.py (render / reify / canonicalisation glue)'])


# ------------------------------------------------------------------------------------------ generator functions
def no_fwd(a):
    if a is None or a[0] in ('fwd', 'str'):
        return False
    kids = a[2] if a[0] == 'union' else a[3] if a[0] == 'gen' else [a[2]] if a[0] == 'tuplevar' else [a[1]] if a[0] == 'newtype' else []
    return all(no_fwd(x) for x in kids)


def plain_ann_val(rng, depth=None):
    for _ in range(30):
        a, v = gen_ann_val(rng, depth, iters=False)
        if no_fwd(a) and v[0] != 'iter':
            return a, v
    return ['cls', 'int'], ['int', 1]


def gconf(rng, a):
    """values that travel through the GeneratorWrapper carry no one-shot iterators (their state is not modelled there)"""
    v = conf(rng, a)
    return strip_iters(v, False) if v is not None else None


def gen_gen_case(rng, stream):
    c, kind = gen_shape(rng, rng.choice(['func', 'func', 'func', 'class_deco', 'method_direct']))
    if c['mkind'] not in ('plain', 'instance'):
        c, kind = gen_shape(rng, 'func')
    c.update({'async': False, 'gen': True, 'ctx': GC.CTX, 'stream': stream, 'mut': 'none', 'text': 'none', 'body': ['ret', ['none']]})
    if c.get('self_kw') or c['recv_name'] == 14:
        c.pop('self_kw', None); c['explicit_self'] = c.get('via') == 'class'; c['recv_name'] = 0 if c['mkind'] == 'instance' else None
    params, vals = gen_signature(rng)
    params = [p for p in params if p['kind'] != 'posonly'][:3]
    c['params'] = params
    c['kwargs'] = [[p['name'], vals[p['name']]] for p in params if p['kind'] in ('pos', 'kwonly') and (p['default'] is None or rng.random() < 0.5)]
    c['args'] = []
    Y, yv = plain_ann_val(rng)
    yv = strip_iters(yv, False)
    form = rng.choice(['Generator'] * 6 + ['Iterator', 'Iterable'])
    if form == 'Generator':
        S, sv = plain_ann_val(rng, 0)
        if rng.random() < 0.5:       # so that next() is a conforming send(None)
            S = ['union', 'typing', [S, ['cls', 'NoneType']]] if S != ['cls', 'NoneType'] and S[0] != 'none' else S
        R, rv = plain_ann_val(rng, rng.choice([0, 1]))
        rv = strip_iters(rv, False)
        c['ret'] = ['gen', 'typing', 'Generator', [Y, S, R]]
    else:
        S, R, rv = ['none'], ['none'], ['none']
        c['ret'] = ['gen', 'typing', form, [Y]]
    script = []
    for _ in range(rng.choice([0, 1, 2, 2, 3, 4])):
        script.append(['yield', gconf(rng, Y) or yv])
    script.append(rng.choice([['ret', gconf(rng, R) or rv]] * 4 + [['ret', ['none']], ['raise', rng.choice(BODY_EXC)]]))
    ops = []
    for k in range(rng.choice([1, 2, 3, 4, 5, 6])):
        r = rng.random()
        if k == 0 or r < 0.35:
            ops.append(['next'])
        elif r < 0.8:
            ops.append(['send', gconf(rng, S) or ['none']])
        elif r < 0.93:
            ops.append(['throw', rng.choice([[0, 1], [0, 20], [0, 2]])])
        else:
            ops.append(['close'])
    c['script'], c['ops'] = script, ops
    c['drive'] = 'yield_from' if rng.random() < 0.4 else 'direct'      # the wrapper driven directly, or through `yield from`
    r = rng.random()
    c['on_throw'] = 'propagate' if r < 0.5 else ['yield', gconf(rng, Y) or yv] if r < 0.8 else ['ret', gconf(rng, R) or rv]
    if stream == 'near':
        opts = ['yield', 'yield', 'ret', 'sent', 'sent', 'throw_obj', 'kwval']
        rng.shuffle(opts)
        for o in opts:
            if o == 'yield' and any(s[0] == 'yield' for s in script):
                i = rng.choice([i for i, s in enumerate(script) if s[0] == 'yield'])
                w = wrong(rng, Y, script[i][1])
                if w is not None and w[0] != 'iter':
                    script[i][1] = w; c['mut'] = 'yield'; break
            if o == 'ret' and script[-1][0] == 'ret':
                w = wrong(rng, R, script[-1][1])
                if w is not None:
                    script[-1][1] = w; c['mut'] = 'gen-return'; break
            if o == 'sent' and any(x[0] == 'send' for x in ops):
                i = rng.choice([i for i, x in enumerate(ops) if x[0] == 'send'])
                w = wrong(rng, S, ops[i][1])
                if w is not None:
                    ops[i][1] = w; c['mut'] = 'sent'; break
            if o == 'throw_obj' and c['on_throw'] != 'propagate':
                w = wrong(rng, Y if c['on_throw'][0] == 'yield' else R, c['on_throw'][1])
                if w is not None:
                    c['on_throw'][1] = w; c['mut'] = 'throw_obj'
                    if not any(x[0] == 'throw' for x in ops):
                        ops.insert(min(1, len(ops)), ['throw', [0, 1]])
                    break
            if o == 'kwval' and c['kwargs']:
                i = rng.randrange(len(c['kwargs']))
                p = [q for q in params if q['name'] == c['kwargs'][i][0]][0]
                w = wrong(rng, p['ann'], c['kwargs'][i][1])
                if w is not None:
                    c['kwargs'][i][1] = w; c['mut'] = 'kwval'; break
    elif stream == 'malformed':
        c['mut'] = 'gen_ret'
        c['ret'] = rng.choice([['cls', 'int'], ['gen', 'typing', 'List', [Y]], ['bare', 'Generator'], ['bare', 'Iterator'], None, ['any'],
                               ['gen', 'typing', 'Sequence', [Y]], ['union', 'typing', [['gen', 'typing', 'Iterator', [Y]], ['cls', 'NoneType']]]])
    if c['style'] == 'func' and c['mode'] == 'pedantic' and stream != 'malformed' and rng.random() < 0.12:
        add_sibling(rng, c)           # a generator function that is one of two products of the same def statement
        c['sibling']['ret'] = rng.choice([['gen', 'typing', 'Generator', [['any'], ['any'], ['any']]], ['gen', 'typing', 'Iterator', [['cls', 'bytes']]],
                                          ['gen', 'typing', 'Generator', [['cls', 'bytes'], ['cls', 'NoneType'], ['cls', 'bytes']]]])
    if rng.random() < 0.10:
        rename_params(rng, c)
    return c


def canon_ident(case, k):
    """identity of a script object -> the first script object with an equal value (small ints, instances ... are shared)"""
    script = case['script']
    if k == 1000 and case.get('on_throw', 'propagate') != 'propagate':
        val = case['on_throw'][1]
    elif 0 <= k < len(script) and script[k][0] != 'raise':
        val = script[k][1]
    else:
        return k
    if val == ['none']:
        return -1
    for j, s in enumerate(script):
        if s[0] != 'raise' and s[1] == val:
            return j
    return k


def cut_ops(case, ops):
    """driven through `yield from`, the delegating generator ends with the first StopIteration / exception / close:
    only the operations up to there say anything about the wrapper"""
    if case.get('drive') == 'yield_from':
        for k, o in enumerate(ops):
            if o[0] != 0:
                return ops[:k + 1]
    return ops


def canon_ops(case, ops):
    return cut_ops(case, [[o[0], o[1], canon_ident(case, o[2]) if o[0] in (0, 1) else o[2]] for o in ops])


def initialized_before(case, idx):
    return any(o[0] in ('next', 'send') for o in case['ops'][:idx])


def gen_judge_corr(case, i, m):
    if i['out'] != m['out']:
        return f'outcome of the call: implementation {i["out"]} ({i.get("exc")}), model {m["out"]}'
    if i['out'] == 0:
        if canon_ops(case, i['ops']) != canon_ops(case, m['ops']):
            return f'operations: implementation {i["ops"]}, model {m["ops"]}'
        if not journal_agrees(i['journal'], m['journal']):
            return f'journal: implementation {json.dumps(i["journal"])[:300]}, model {json.dumps(m["journal"])[:300]}'
    return None


def flag(lst, k, default=0):
    """total lookup: the oracle lists are empty when the model says the call itself fails"""
    return lst[k] if 0 <= k < len(lst) else default


def gen_judge_c03(case, i, m):
    if m['c03_args_bad']:
        if i['journal']:
            return 'a supplied value does not conform to its annotation, but the generator body ran'
        strict = not case['args'] or has_varpos(i['fn'])
        if strict and i['out'] != 1:
            return f'a supplied value does not conform: PedanticTypeCheckException expected, got outcome {i["out"]} ({i.get("exc")})'
        if not strict and i['out'] not in PEDANTIC:
            return f'a supplied value does not conform in a positional call: a PedanticException expected, got {i["out"]} ({i.get("exc")})'
    if i['out'] != 0:
        return None
    for idx, (kind, code, ident) in enumerate(cut_ops(case, i.get('ops') or [])):
        op = case['ops'][idx] if idx < len(case['ops']) else ['?']
        if kind == 0 and ((0 <= ident < 1000 and flag(m['bad_yield'], ident)) or (ident == 1000 and flag(m['bad_throw'], 0))):
            return f'operation {idx} ({op[0]}): a yielded value that does not conform to the yield type was handed to the caller'
        if kind == 1 and ((0 <= ident < 1000 and flag(m['bad_ret'], ident)) or (ident == 1000 and flag(m['bad_throw'], 1))):
            return f'operation {idx} ({op[0]}): the generator returned a value that does not conform to the return type; the caller got StopIteration with it'
        if op[0] == 'send' and flag(m['bad_sent'], idx) and initialized_before(case, idx) and not (kind == 2 and code == 1):
            return f'operation {idx}: a sent value that does not conform to the send type was not rejected with PedanticTypeCheckException'
    return None


def gen_judge_c04(case, i, m):
    if not m['c04_call_ok'] or case['mode'] != 'pedantic':
        return None
    script = case['script']
    rt = case['ret']
    if not (rt and rt[0] == 'gen' and rt[1] == 'typing' and rt[2] in ('Generator', 'Iterator', 'Iterable') and len(rt[3]) in (1, 3)):
        return None            # not a generator annotation: C06 territory
    if m['out'] != 0:          # the model says the call itself fails: only the call can be judged
        return None if i['out'] == 0 else f'conforming keyword call of a generator function: outcome {i["out"]} ({i.get("exc")})'
    ok = all((flag(m['ok_yield'], k) if s[0] == 'yield' else flag(m['ok_ret'], k) if s[0] == 'ret' else 1) for k, s in enumerate(script))
    # (a next() is not a value the caller sends: it must behave like next() on the undecorated generator whatever the send type)
    ok = ok and all(flag(m['ok_sent'], idx) for idx, o in enumerate(case['ops']) if o[0] == 'send' and initialized_before(case, idx))
    if case.get('on_throw', 'propagate') != 'propagate':
        ok = ok and flag(m['ok_throw'], 0 if case['on_throw'][0] == 'yield' else 1)
    if not ok:
        return None
    if i['out'] != 0:
        return f'conforming keyword call of a generator function: outcome {i["out"]} ({i.get("exc")})'
    if canon_ops(case, i['ops']) != canon_ops(case, m['twin_ops']):
        return f'conforming generator: the caller observed {i["ops"]}, the undecorated generator gives {m["twin_ops"]}'
    return None
