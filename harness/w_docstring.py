"""Implementation worker for C19 (docstring checking at decoration time).

stdin: JSON list of cases, stdout: one JSON object per case, in order.  Three kinds of cases:

  stream 'docstring'   the case carries the source text of a module (`src`) in which one function / the
      methods of one class are decorated with pedantic's docstring-checking decorators, and of its twin
      (`twin`: same text, decorators replaced by the identity).  The worker writes both into the scratch
      directory of the run (pedantic needs real source: DecoratedFunction calls inspect.getsource), imports
      the decorated module (observation: the exception, or none, that leaves the import) and the twin.
      From the twin's function objects it reports what the model takes as input:
        - inspect.getfullargspec(f).annotations, reified into the object syntax of Model/DocstringTyping.v
        - docstring_parser.parse(f.__doc__): params (arg_name, type_name), returns.args[1:], raw doc kind
          (parsing Google style text is docstring_parser's job: trusted base, outside the model)
      and two things computed without pedantic's check_docstring: the outcome of applying the decorator to
      the twin's function alone, and `py_consistent`, the property's acceptance condition evaluated with
      Python itself (eval of the documented types in the twin's namespace, `==` against the annotations).

      layout 'inherit' (same stream): the module defines a chain of classes (`classes`); methods of the last ones - overrides of
      documented / undocumented base methods, with or without a docstring of their own - are decorated in decorator form or
      in call form (the decorator applied later to the class object / to the attribute).  The decorated functions are looked
      up in the OWN __dict__ of the decorated classes; the docstring of a function is f.__doc__, never an inherited one.
      Additionally `chain`: every class with all its own functions (annotations, own parsed docstring), input of
      Model/DocstringClass.v.

  stream 'typing'      two documented-type texts and a context: eval(text, globals of check_docstring.py,
      context), reified; v1 == v2, v2 == v1; keys that _update_context adds for value 1.
"""
import sys, os, json, inspect, importlib.util, types, typing
import excs

excs._cache[(0, 15)] = SyntaxError
excs._cache[(0, 10, 0)] = UnboundLocalError

_n = [0]


def outcome_of(ex):
    if ex is None:
        return [0]
    return [1] + excs.path_of(type(ex))


def load_module(name, src):
    path = os.path.join(os.getcwd(), name + '.py')
    with open(path, 'w', encoding='utf-8') as fh:
        fh.write(src)
    spec = importlib.util.spec_from_file_location(name, path)
    mod = importlib.util.module_from_spec(spec)
    sys.modules[name] = mod
    try:
        spec.loader.exec_module(mod)
    except BaseException:
        sys.modules.pop(name, None)
        raise
    return mod


# --------------------------------------------------------------------------------------------------
# reification of typing objects (uses only type(), __args__, __origin__, _name)
def reify(o, depth=0):
    if depth > 40:
        return ['other', 'too deep']
    if o is None:
        return ['none']
    if o is Ellipsis:
        return ['ell']
    if o is typing.Any:
        return ['any']
    if isinstance(o, tuple):
        return ['tup', [reify(x, depth + 1) for x in o]]
    if isinstance(o, list):
        return ['lst', [reify(x, depth + 1) for x in o]]
    if isinstance(o, types.UnionType):
        return ['pipe', [reify(x, depth + 1) for x in o.__args__]]
    if isinstance(o, types.GenericAlias):
        return ['gen', 'builtin', o.__origin__.__name__, [reify(x, depth + 1) for x in o.__args__]]
    tn = type(o).__name__
    if type(o).__module__ == 'typing':
        if tn == '_UnionGenericAlias':
            return ['union', [reify(x, depth + 1) for x in o.__args__]]
        if tn in ('_GenericAlias', '_CallableGenericAlias'):
            if o._name is None:
                return ['other', repr(o)]
            return ['gen', 'typing', o._name, [reify(x, depth + 1) for x in o.__args__]]
        if tn in ('_SpecialGenericAlias', '_SpecialForm', '_CallableType', '_TupleType', '_DeprecatedGenericAlias'):
            return ['bare', o._name]
        return ['other', repr(o)]
    if isinstance(o, type):
        return ['cls', o.__name__]
    return ['other', repr(o)[:60]]


# --------------------------------------------------------------------------------------------------
def functions_of(mod, case):
    """the raw function objects of the case, in decoration order"""
    if case.get('layout') == 'inherit':
        # a chain of classes; decorated are the function objects in the OWN __dict__ of the decorated classes (never an inherited
        # attribute): for the class decorator in class-dict order, for the function decorators in the order the case lists them
        out = []
        for k in case['classes']:
            if not k['decorated']:
                continue
            own = getattr(mod, k['name']).__dict__
            if case['mode'] == 'class':
                out += [v for v in own.values() if isinstance(v, types.FunctionType)]
            else:
                # (an entry marked `inherited` is decorated through K but defined in a base: what getattr finds)
                out += [getattr(getattr(mod, k['name']), f['name']) if f.get('inherited') else own[f['name']]
                        for f in case['funcs'] if f['owner'] == k['name']]
        return out
    if case['mode'] == 'class':
        k = getattr(mod, case['cls_name'])
        return [v for v in k.__dict__.values() if isinstance(v, types.FunctionType)]
    return [getattr(mod, f['name']) for f in case['funcs']]


def py_spec(f, ns):
    """the acceptance condition of the property, evaluated by Python: (consistent, evaluable)"""
    import docstring_parser
    ann = dict(inspect.getfullargspec(f).annotations)
    ret = ann.pop('return', None)
    raw = f.__doc__
    doc = docstring_parser.parse(raw)
    evaluable = True

    def value(text):
        nonlocal evaluable
        if text is None:
            return False, None
        try:
            return True, eval(text, dict(ns))
        except NameError:
            return False, None
        except BaseException:
            evaluable = False
            return False, None
    ok = raw is not None and raw != ''
    names = [p.arg_name for p in doc.params]
    ok = ok and len(set(names)) == len(names) and set(names) == set(ann)
    for p in doc.params:
        good, v = value(p.type_name)
        ok = ok and good and p.arg_name in ann and bool(v == ann[p.arg_name])
    r = doc.returns
    if ret is None:
        ok = ok and r is None
        if r is not None:
            for t in r.args[1:]:
                value(t)
    else:
        if r is None or len(r.args) != 2:
            ok = False
            if r is not None:
                for t in r.args[1:]:
                    value(t)
        else:
            good, v = value(r.args[1])
            ok = ok and good and bool(v == ret)
    return bool(ok), evaluable


def run_docstring(case):
    _n[0] += 1
    tag = '%d_%d' % (os.getpid(), _n[0])
    twin = load_module('pvt_' + tag, case['twin'])
    ex = None
    try:
        load_module('pvm_' + tag, case['src'])
    except BaseException as e:      # the observation: what leaves the import of the decorated module
        ex = e
    out = {'outcome': outcome_of(ex), 'exc': type(ex).__name__ if ex is not None else None,
           'msg': str(ex)[:160] if ex is not None else None, 'funcs': []}
    import docstring_parser
    from pedantic import pedantic, pedantic_require_docstring
    deco = pedantic if case['mode'] == 'pedantic' else pedantic_require_docstring
    for f in functions_of(twin, case):
        ann = [[k, reify(v)] for k, v in inspect.getfullargspec(f).annotations.items()]
        raw = f.__doc__
        d = docstring_parser.parse(raw)
        doc = {'raw': 'none' if raw is None else 'empty' if raw == '' else 'text',
               'params': [[p.arg_name, p.type_name] for p in d.params],
               'returns': None if d.returns is None else list(d.returns.args[1:]),
               # Docstring.returns is the first Returns *or Yields* entry; pedantic does not look at the difference
               'returns_kind': None if d.returns is None else d.returns.args[0]}
        alone = None
        try:
            deco(f)
        except BaseException as e:
            alone = e
        cons, evaluable = py_spec(f, dict(vars(twin), NoneType=type(None)))
        out['funcs'].append({'name': f.__name__, 'ann': ann, 'doc': doc, 'alone': outcome_of(alone),
                             'alone_exc': type(alone).__name__ if alone is not None else None,
                             'py_consistent': cons, 'py_evaluable': evaluable})
    if case.get('layout') == 'inherit':
        # every class of the chain with ALL its own functions, each with its own __doc__: the model (Model/DocstringClass.v)
        # decides which of them the decoration reaches
        out['chain'] = []
        for k in case['classes']:
            ms = []
            for name, f in getattr(twin, k['name']).__dict__.items():
                if isinstance(f, types.FunctionType):
                    d = docstring_parser.parse(f.__doc__)
                    ms.append({'name': name, 'ann': [[a, reify(v)] for a, v in inspect.getfullargspec(f).annotations.items()],
                               'doc': {'raw': 'none' if f.__doc__ is None else 'empty' if f.__doc__ == '' else 'text',
                                       'params': [[p.arg_name, p.type_name] for p in d.params],
                                       'returns': None if d.returns is None else list(d.returns.args[1:])}})
            out['chain'].append({'name': k['name'], 'base': k['base'], 'methods': ms})
    for m in ('pvt_' + tag, 'pvm_' + tag):
        sys.modules.pop(m, None)
        try:
            os.unlink(os.path.join(os.getcwd(), m + '.py'))
        except OSError:
            pass
    return out


# --------------------------------------------------------------------------------------------------
_classes = {}


def user_class(n):
    if n not in _classes:
        _classes[n] = type(n, (), {})
    return _classes[n]


def run_typing(case):
    import pedantic.type_checking_logic.check_docstring as cd
    ctx = {n: (getattr(__import__('builtins'), n) if hasattr(__import__('builtins'), n) and isinstance(getattr(__import__('builtins'), n), type)
               else user_class(n)) for n in case['ctx']}
    vals = []
    res = {}
    for key in ('e1', 'e2'):
        try:
            v = eval(case[key], vars(cd), dict(ctx))
            vals.append((True, v))
            res[key] = {'outcome': [0], 'value': reify(v)}
        except BaseException as e:
            vals.append((False, None))
            res[key] = {'outcome': outcome_of(e), 'value': None, 'exc': type(e).__name__}
    if vals[0][0] and vals[1][0]:
        res['eq12'] = bool(vals[0][1] == vals[1][1])
        res['eq21'] = bool(vals[1][1] == vals[0][1])
        res['ne12'] = bool(vals[0][1] != vals[1][1])
    if vals[0][0]:
        try:
            hash(vals[0][1])
            res['hashable'] = True
        except TypeError:      # a list somewhere inside: never an annotation; _update_context may trip over it
            res['hashable'] = False
        try:
            keys = cd._update_context(context={}, type_=vals[0][1])
            res['upd'] = sorted(k for k in keys if isinstance(k, str))
            res['upd_bad'] = [repr(k) for k, v in keys.items() if not (isinstance(v, type) and v.__name__ == k)]
        except BaseException as e:
            res['upd_exc'] = type(e).__name__
    return res


def main():
    cases = json.load(sys.stdin)
    sys.path.insert(0, os.getcwd())
    for c in cases:
        try:
            r = run_typing(c) if c.get('stream') == 'typing' else run_docstring(c)
        except BaseException as ex:   # harness-level failure
            import traceback
            r = {'error': repr(ex), 'trace': traceback.format_exc()[-600:]}
        print(json.dumps(r), flush=True)


if __name__ == '__main__':
    main()
