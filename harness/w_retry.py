"""Implementation worker for C15: run pedantic's retry / retry_func on scripted callees."""
import sys, json, time
from datetime import timedelta
import excs

BUDGET = 200


class BudgetExceeded(BaseException):
    pass


def run_case(case):
    from pedantic.decorators.fn_deco_retry import retry, retry_func
    events = []
    produced = []          # object produced by invocation i (return value or exception instance)
    a1, a2, a3 = object(), [1, 2], {'k': object()}
    outs, tail = case['outs'], case['tail']

    def script(*args, **kwargs):
        i = len(produced)
        if i >= BUDGET:
            raise BudgetExceeded()
        same = (len(args) == 2 and args[0] is a1 and args[1] is a2 and list(kwargs) == ['kw'] and kwargs['kw'] is a3)
        events.append(1 if same else 2)
        o = outs[i] if i < len(outs) else tail
        if o[0] == 'ret':
            v = object()
            produced.append(v)
            return v
        ex = excs.cls_of(o[1])('boom %d' % i)
        produced.append(ex)
        raise ex
    script.__name__ = 'script'

    real_sleep = time.sleep
    time.sleep = lambda s: events.append(3)
    spec = [excs.cls_of(p) for p in case['spec']]
    exceptions = spec[0] if case.get('single') and len(spec) == 1 else tuple(spec)
    try:
        try:
            if case['mode'] == 'func':
                r = retry_func(script, a1, a2, attempts=case['attempts'], exceptions=exceptions,
                               sleep_time=timedelta(seconds=0.001), kw=a3)
            else:
                r = retry(attempts=case['attempts'], exceptions=exceptions, sleep_time=timedelta(seconds=0.001))(script)(a1, a2, kw=a3)
            kind, obj = 'ret', r
        except BudgetExceeded:
            return {'result': [2, 0], 'events': events[:40], 'n_calls': len(produced)}
        except BaseException as ex:
            kind, obj = 'exc', ex
    finally:
        time.sleep = real_sleep
    idx = [i for i, p in enumerate(produced) if p is obj]
    if idx:
        res = [0, idx[-1]]
    elif kind == 'ret' and obj is None:
        res = [1, 0]
    else:
        res = [3, 0]     # something that no invocation produced
    return {'result': res, 'events': events, 'n_calls': len(produced),
            'exc': type(obj).__name__ if kind == 'exc' else None}


def main():
    cases = json.load(sys.stdin)
    for c in cases:
        try:
            r = run_case(c)
        except BaseException as ex:   # harness-level failure
            r = {'error': repr(ex)}
        print(json.dumps(r), flush=True)


if __name__ == '__main__':
    main()
