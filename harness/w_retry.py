"""Implementation worker for C15: run pedantic's retry / retry_func on scripted callees."""
import sys, json, time
from datetime import timedelta
import excs

BUDGET = 200

# exception groups (coq/Model/RetryGroups.v: BaseExceptionGroupC = [4], ExceptionGroupC = [0; 15]); deeper paths become
# dynamic subclasses through excs.cls_of.  Registered here, in this worker process only.
excs._cache[(4,)] = BaseExceptionGroup
excs._cache[(0, 15)] = ExceptionGroup


class MalformedCase(Exception):
    pass


def make_exc(o, i):
    """the exception object of outcome o = ['raise', path] | ['group', tree]; tree = [path] (a plain leaf) or
    [path, [tree, ...]] (a group of class `path` carrying the members).  A fresh object on every call."""
    def build(t):
        cls = excs.cls_of(t[0])
        if len(t) == 1:
            if issubclass(cls, BaseExceptionGroup):
                raise MalformedCase('plain instance of a group class %r' % (t[0],))
            return cls('boom %d' % i)
        try:
            ex = cls('boom %d' % i, [build(m) for m in t[1]])
        except (TypeError, ValueError) as err:
            raise MalformedCase('group %r cannot be built: %r' % (t, err))
        if type(ex) is not cls:      # BaseExceptionGroup(...) of Exception members answers an ExceptionGroup
            raise MalformedCase('group %r comes out as %s' % (t, type(ex).__name__))
        return ex
    return build([o[1]] if o[0] == 'raise' else o[1])


def validate_outcomes(outs):
    for o in outs:
        if o[0] != 'ret':
            make_exc(o, 0)


def describe(kind, obj, produced):
    """what the caller received when no invocation produced it (part of the message only)"""
    if kind != 'exc':
        return None
    d = type(obj).__name__
    if isinstance(obj, BaseExceptionGroup):
        made = {id(m) for p in produced if isinstance(p, BaseExceptionGroup) for m in walk(p)}
        if any(id(m) in made for m in walk(obj)):
            d += ' (a new group object carrying members of a group an invocation raised)'
    return d


def walk(g):
    for m in g.exceptions:
        yield m
        if isinstance(m, BaseExceptionGroup):
            yield from walk(m)


class BudgetExceeded(BaseException):
    pass


def build_exceptions(case):
    """the `exceptions` argument: a single class, the flat tuple of the listed classes, or - case['pack'] - an arbitrarily
    nested tuple (ints index case['spec'], lists are tuples; () and ((),) list nothing at all).  except / isinstance accept
    nested tuples and flatten them."""
    spec = [excs.cls_of(p) for p in case['spec']]
    if case.get('pack') is not None:
        def build(t):
            if isinstance(t, int):
                if not 0 <= t < len(spec):
                    raise MalformedCase('pack index %r' % (t,))
                return spec[t]
            return tuple(build(x) for x in t)
        if not isinstance(case['pack'], list):
            raise MalformedCase('pack must be a list')
        return build(case['pack'])
    return spec[0] if case.get('single') and len(spec) == 1 else tuple(spec)


def run_case(case):
    from pedantic.decorators.fn_deco_retry import retry, retry_func
    events = []
    produced = []          # object produced by invocation i (return value or exception instance)
    a1, a2, a3 = object(), [1, 2], {'k': object()}
    outs, tail = case['outs'], case['tail']
    validate_outcomes(outs + [tail])

    def script(*args, **kwargs):
        i = len(produced)
        if i >= BUDGET:
            raise BudgetExceeded()
        same = (len(args) == 2 and args[0] is a1 and args[1] is a2 and list(kwargs) == ['kw'] and kwargs['kw'] is a3)
        events.append(1 if same else 2)
        o = outs[i] if i < len(outs) else tail
        if o[0] == 'ret':
            v = object()
            produced.append(v)
            return v
        ex = make_exc(o, i)
        produced.append(ex)
        raise ex
    script.__name__ = 'script'

    real_sleep = time.sleep
    time.sleep = lambda s: events.append(3)
    exceptions = build_exceptions(case)
    try:
        try:
            if case['mode'] == 'func':
                r = retry_func(script, a1, a2, attempts=case['attempts'], exceptions=exceptions,
                               sleep_time=timedelta(seconds=0.001), kw=a3)
            else:
                r = retry(attempts=case['attempts'], exceptions=exceptions, sleep_time=timedelta(seconds=0.001))(script)(a1, a2, kw=a3)
            kind, obj = 'ret', r
        except BudgetExceeded:
            return {'result': [2, 0], 'events': events[:40], 'n_calls': len(produced)}
        except BaseException as ex:
            kind, obj = 'exc', ex
    finally:
        time.sleep = real_sleep
    idx = [i for i, p in enumerate(produced) if p is obj]
    if idx:
        res = [0, idx[-1]]
    elif kind == 'ret' and obj is None:
        res = [1, 0]
    else:
        res = [3, 0]     # something that no invocation produced
    return {'result': res, 'events': events, 'n_calls': len(produced),
            'exc': (type(obj).__name__ if idx else describe(kind, obj, produced)) if kind == 'exc' else None,
            'isinst': isinst_flags(produced, exceptions)}


def isinst_flags(produced, exceptions):
    """isinstance(obj, exceptions) of every raised object, for the driver's check of the class map (None: a return)"""
    return [bool(isinstance(p, exceptions)) if isinstance(p, BaseException) else None for p in produced]


def run_seq(case):
    """ONE decorated function (retry(...) applied once), called several times in a row; every call has its own scripted
    outcome list and is judged on its own (the statement is about each call: no state may be carried between calls)"""
    from pedantic.decorators.fn_deco_retry import retry
    a1, a2, a3 = object(), [1, 2], {'k': object()}
    state = {'events': None, 'produced': None, 'outs': None, 'tail': None}

    def script(*args, **kwargs):
        produced, events = state['produced'], state['events']
        i = len(produced)
        if i >= BUDGET:
            raise BudgetExceeded()
        same = (len(args) == 2 and args[0] is a1 and args[1] is a2 and list(kwargs) == ['kw'] and kwargs['kw'] is a3)
        events.append(1 if same else 2)
        o = state['outs'][i] if i < len(state['outs']) else state['tail']
        if o[0] == 'ret':
            v = object()
            produced.append(v)
            return v
        ex = make_exc(o, i)
        produced.append(ex)
        raise ex
    script.__name__ = 'script'
    for call in case['calls']:
        validate_outcomes(call['outs'] + [call['tail']])
    exceptions = build_exceptions(case)
    real_sleep = time.sleep
    results = []
    try:
        time.sleep = lambda s: state['events'].append(3)
        deco = retry(attempts=case['attempts'], exceptions=exceptions, sleep_time=timedelta(seconds=0.001))(script)
        for call in case['calls']:
            state.update(events=[], produced=[], outs=call['outs'], tail=call['tail'])
            try:
                r = deco(a1, a2, kw=a3)
                kind, obj = 'ret', r
            except BudgetExceeded:
                results.append({'result': [2, 0], 'events': state['events'][:40], 'n_calls': len(state['produced'])})
                continue
            except BaseException as ex:
                kind, obj = 'exc', ex
            idx = [i for i, p in enumerate(state['produced']) if p is obj]
            res = [0, idx[-1]] if idx else ([1, 0] if kind == 'ret' and obj is None else [3, 0])
            results.append({'result': res, 'events': state['events'], 'n_calls': len(state['produced']),
                            'exc': (type(obj).__name__ if idx else describe(kind, obj, state['produced'])) if kind == 'exc' else None,
                            'isinst': isinst_flags(state['produced'], exceptions)})
    finally:
        time.sleep = real_sleep
    return {'calls': results}


def corner_table():
    """callees the scripted stream cannot express: parameters named like the keywords of the retry machinery, callables
    without __name__.  (name, build) where build() -> (callable to invoke, log of invocations, expected kwargs per invocation)"""
    import functools
    from pedantic.decorators.fn_deco_retry import retry, retry_func
    t = []
    for kwname in ('attempts', 'exceptions', 'sleep_time', 'logger', 'func', 'args', 'kwargs', 'attempt'):
        for fails in (0, 2):
            def build(kwname=kwname, fails=fails):
                log = []
                src = f'def callee(x, {kwname}=None):\n    log.append((x, {kwname}))\n    if len(log) <= fails:\n        raise ValueError("boom")\n    return ("ret", len(log))\n'
                ns = {'log': log, 'fails': fails}
                exec(src, ns)
                deco = retry(attempts=4, exceptions=ValueError)(ns['callee'])
                marker = object()
                return (lambda: deco(7, **{kwname: marker})), log, (7, marker), min(fails + 1, 4)
            t.append((f'@retry callee with a parameter called {kwname}, passed by keyword, {fails} listed failures first', build))
    for kind in ('partial', 'callable object', 'bound method of a callable object', 'bound method of an object whose __repr__ raises'):
        for fails in (0, 2, 9):
            def build(kind=kind, fails=fails):
                log = []

                def body(x, y=None):
                    log.append((x, y))
                    if len(log) <= fails:
                        raise KeyError('boom')
                    return ('ret', len(log))

                class Obj:
                    def __call__(self, x, y=None):
                        return body(x, y)
                class BadRepr:
                    def __repr__(self):
                        raise RuntimeError('repr boom')

                    def m(self, x, y=None):
                        return body(x, y)
                marker = object()
                if kind.endswith('__repr__ raises'):
                    fn, call_args = BadRepr().m, (7,)
                elif kind == 'partial':
                    fn, call_args = functools.partial(body, 7), ()
                elif kind == 'callable object':
                    fn, call_args = Obj(), (7,)
                else:
                    fn, call_args = Obj().__call__, (7,)
                return (lambda: retry_func(fn, *call_args, attempts=4, exceptions=(KeyError,), y=marker)), log, (7, marker), min(fails + 1, 4)
            t.append((f'retry_func on a {kind}, {fails} listed failures first', build))
    return t


def run_corner(case):
    import logging
    t = corner_table()
    if case.get('size'):
        return {'size': len(t)}
    name, build = t[case['i']]
    real_sleep = time.sleep
    time.sleep = lambda s: None
    logging.disable(logging.CRITICAL)
    try:
        call, log, expect_args, expect_calls = build()
        try:
            r = call()
            kind, exc = 'ret', None
        except BaseException as ex:
            r, kind, exc = None, 'exc', type(ex).__name__ + ': ' + str(ex)[:120]
    finally:
        time.sleep = real_sleep
        logging.disable(logging.NOTSET)
    args_ok = all(e[0] == expect_args[0] and e[1] is expect_args[1] for e in log)
    last_ok = (kind == 'ret' and r == ('ret', len(log))) or (kind == 'exc' and exc.startswith(('ValueError: boom', "KeyError: 'boom'")))
    return {'name': name, 'n_calls': len(log), 'expect_calls': expect_calls, 'args_unchanged': args_ok, 'result_is_last': last_ok,
            'kind': kind, 'exc': exc}


def main():
    cases = json.load(sys.stdin)
    for c in cases:
        try:
            r = run_corner(c) if c.get('obs') == 'corner' else run_seq(c) if c.get('mode') == 'deco_seq' else run_case(c)
        except BaseException as ex:   # harness-level failure
            r = {'error': repr(ex)}
        print(json.dumps(r), flush=True)


if __name__ == '__main__':
    main()
