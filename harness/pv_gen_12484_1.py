from pedantic import pedantic
@pedantic
def f(x: ANN) -> RET:
    J.append(1)
    return RV
