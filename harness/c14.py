"""C14 - validators and convert_value decide exactly their documented predicate.

Proof: coq/Props/C14.v over the shapes regenerated from the validators (Gen/Validators.v).
Correspondence (stream `validators`): the real validators / convert_value against the model evaluated inside
Coq, and against the independent spec (Spec/ValidatorsSpec.v) evaluated next to it.  The stdlib oracles of the
model (str, lower/upper, int, float, UUID, fromisoformat, epoch + timedelta) are measured on the real stdlib by
the worker, per case, and handed to the model as finite tables."""
import json, math, os, struct, sys, time
from lib import *
sys.path.insert(0, os.path.join(ROOT, 'translator'))
from t_validators import parse_regex, regex_to_coq, RegexUnsupported   # the same regex front end as the translator

UNITS = ['Validators']
MODEL = ['Model/ValidatorsEval.vo']
PROPS = 'Props/C14.v'
PRE = ('From Coq Require Import List ZArith Bool SpecFloat.\n'
       'From PV Require Import Base.Exn Model.ValidatorsBase Model.ValidatorsRegex Gen.Validators Model.Validators '
       'Spec.ValidatorsSpec Model.ValidatorsEval.\nImport ListNotations.')
VEXC, CONVERR = [0, 13, 0], [0, 13, 2]
INT_LIMIT = 10 ** 4000     # JSON carries ints above this in hex (str() of an int of more than 4300 digits raises)
QUICK_BUDGET_S = 85       # wall-clock budget of a quick run when a broken obligation triggers the intensified search
DIGIT_LIMIT = 10 ** 4300   # CPython's int<->str digit limit: modelled for convert_value and the primitives; the validators'
                           # rejection messages (f-strings over the value) are not modelled - see stream digitlimit
inf, nan = math.inf, math.nan


# ---------- JSON values ------------------------------------------------------------------------------------
def fj(x):
    if x != x:
        return 'nan'
    if x in (inf, -inf):
        return 'inf' if x > 0 else '-inf'
    return x.hex()


def N(): return ['none']
def B(b): return ['bool', bool(b)]
def I(z): return ['int', str(z) if abs(z) < INT_LIMIT else hex(z)]      # beyond the digit limit only hex() is available


def pint(t):
    return int(t, 16) if 'x' in t else int(t)
def F(x): return ['float', fj(x)]
def S(s): return ['str', [ord(c) for c in s]]
def BY(b): return ['bytes', list(b)]
def L(xs): return ['list', list(xs)]
def T(xs): return ['tuple', list(xs)]
def D(ks, vs): return ['dict', list(ks), list(vs)]
def OBJ(n): return ['obj', n]
def MEM(i): return ['opq', 3, [str(i)]]


def num(x):
    """JSON of a Python number"""
    if type(x) is bool:
        return B(x)
    return I(x) if type(x) is int else F(x)


def fparts(js):
    if js == 'nan':
        return ('nan',)
    if js in ('inf', '-inf'):
        return ('inf', js == '-inf')
    x = float.fromhex(js)
    if x == 0:
        return ('zero', math.copysign(1.0, x) < 0)
    m, e = math.frexp(abs(x))
    mi, ei = int(m * 2 ** 53), e - 53
    if ei < -1074:
        mi >>= (-1074 - ei)
        ei = -1074
    return ('fin', x < 0, mi, ei)


def enc_float(js):
    p = fparts(js)
    if p[0] == 'zero':
        return [0, int(p[1])]
    if p[0] == 'inf':
        return [1, int(p[1])]
    if p[0] == 'nan':
        return [2]
    return [3, int(p[1]), p[2], p[3]]


def enc_Z(z):
    """Model/ValidatorsEval.enc_Z: sign, number of limbs, base-2^60 limbs (least significant first)"""
    a, l = abs(z), []
    while a:
        l.append(a & ((1 << 60) - 1))
        a >>= 60
    return [1 if z < 0 else 0, len(l)] + l


def enc_value(j):
    t = j[0]
    if t == 'none':
        return [0]
    if t == 'bool':
        return [1, int(j[1])]
    if t == 'int':
        return [2] + enc_Z(pint(j[1]))
    if t == 'float':
        return [3] + enc_float(j[1])
    if t in ('str', 'bytes'):
        return [4 if t == 'str' else 5, len(j[1])] + list(j[1])
    if t in ('list', 'tuple'):
        return [6 if t == 'list' else 7, len(j[1])] + [x for e in j[1] for x in enc_value(e)]
    if t == 'dict':
        return [8, len(j[1])] + [x for e in j[1] for x in enc_value(e)] + [x for e in j[2] for x in enc_value(e)]
    if t == 'obj':
        return [9, j[1]]
    if t == 'opq':
        return [10, j[1], len(j[2])] + [int(x) for x in j[2]]
    return [-99]      # 'unknown': never equal to a model value


def enc_outcome(o):
    if o[0] == 'ok':
        return [0] + enc_value(o[1])
    return [1, len(o[1])] + list(o[1])


# ---------- Coq terms ------------------------------------------------------------------------------------------
def cz(n):
    """Coq literal of an integer; big ones in hexadecimal (coqc needs 40 s to read a 4000-digit decimal literal)"""
    if abs(n) >= 1 << 62:
        return f'(-0x{-n:x})' if n < 0 else f'0x{n:x}'
    return f'({n})' if n < 0 else str(n)


def c_float(js):
    p = fparts(js)
    if p[0] == 'zero':
        return f'(S754_zero {coq_bool(p[1])})'
    if p[0] == 'inf':
        return f'(S754_infinity {coq_bool(p[1])})'
    if p[0] == 'nan':
        return 'S754_nan'
    return f'(S754_finite {coq_bool(p[1])} {p[2]} {cz(p[3])})'


def c_zlist(xs):
    return coq_list([cz(int(x)) for x in xs])


def c_value(j):
    t = j[0]
    if t == 'none':
        return 'VNone'
    if t == 'bool':
        return f'(VBool {coq_bool(j[1])})'
    if t == 'int':
        return f'(VInt {cz(pint(j[1]))})'
    if t == 'float':
        return f'(VFloat {c_float(j[1])})'
    if t == 'str':
        return f'(VStr {c_zlist(j[1])})'
    if t == 'bytes':
        return f'(VBytes {c_zlist(j[1])})'
    if t == 'list':
        return f'(VList {coq_list([c_value(x) for x in j[1]])})'
    if t == 'tuple':
        return f'(VTuple {coq_list([c_value(x) for x in j[1]])})'
    if t == 'dict':
        return f'(VDict {coq_list([c_value(x) for x in j[1]])} {coq_list([c_value(x) for x in j[2]])})'
    if t == 'obj':
        return f'(VObj {j[1]}%nat)'
    if t == 'opq':
        return f'(VOpq {j[1]} {c_zlist(j[2])})'
    raise ValueError('no Coq term for %r' % (j,))


def c_regex(p):
    return regex_to_coq(parse_regex(p))


def dflt(x, d):
    return d if x is None else x


def c_validator(w):
    k = w['k']
    if k in ('Min', 'Max'):
        return f'(W{k} {c_value(w["bound"])} {coq_bool(dflt(w["incl"], True))})'
    if k == 'MinLength':
        return f'(WMinLen {cz(w["n"])})'
    if k == 'MaxLength':
        return f'(WMaxLen {cz(w["n"])})'
    if k == 'NotEmpty':
        return f'(WNotEmpty {coq_bool(dflt(w["strip"], True))})'
    if k == 'Email':
        pat = 'None' if w['pat'] is None else f'(Some {c_regex(w["pat"])})'
        pp = {'id': 'PPId', 'rev': 'PPRev'}.get(w['pp']) if isinstance(w['pp'], str) else f'(PPConst {c_zlist(w["pp"][1])})'
        return f'(WEmail {pat} {pp})'
    if k == 'IsUuid':
        return f'(WIsUuid {coq_bool(dflt(w["convert"], False))})'
    if k == 'IsEnum':
        return (f'(WIsEnum {coq_list([c_value(m) for m in w["members"]])} {coq_bool(w["int"])} '
                f'{coq_bool(dflt(w["convert"], True))} {coq_bool(dflt(w["upper"], True))})')
    if k == 'MatchPattern':
        return f'(WMatch {c_regex(w["pat"])})'
    if k == 'Iso':
        return 'WIso'
    if k == 'Unix':
        return 'WUnix'
    if k in ('ForEach', 'Composite'):
        return f'(W{k} {coq_list([c_validator(c) for c in w["cs"]])})'
    raise ValueError(k)


def c_outcome(o, conv):
    if o[0] == 'ok':
        return f'(Ok {conv(o[1])})'
    return '(Raise ' + coq_list([f'{x}%nat' for x in o[1]]) + ')'


def c_tables(t):
    def tab(rows, key, val):
        return coq_list([f'({key(k)}, {val(v)})' for k, v in rows])
    return ('{| t_str := %s; t_lower := %s; t_upper := %s; t_int := %s; t_intb := %s; t_float := %s; t_uuid := %s; t_iso := %s; t_epoch := %s |}' % (
        tab(t['str'], c_value, c_zlist), tab(t['lower'], c_zlist, c_zlist), tab(t['upper'], c_zlist, c_zlist),
        tab(t['int'], c_zlist, lambda o: c_outcome(o, lambda z: cz(int(z)))),
        tab(t['intb'], c_zlist, lambda o: c_outcome(o, lambda z: cz(int(z)))),
        tab(t['float'], c_zlist, lambda o: c_outcome(o, c_float)),
        tab(t['uuid'], c_zlist, lambda o: c_outcome(o, c_value)),
        tab(t['iso'], c_value, lambda o: c_outcome(o, c_value)),
        tab(t['epoch'], c_float, lambda o: c_outcome(o, c_value))))


TT = {'bool': 'TBool', 'int': 'TInt', 'float': 'TFloat', 'str': 'TStr', 'list': 'TList', 'dict': 'TDict'}


def coq_term(c, impl):
    """the term (type list Z) that evaluates model and spec on the case; None when there is nothing to evaluate"""
    k = c['kind']
    if c.get('nomodel'):
        return None
    if k == 'validate':
        return f'eval_validate {c_tables(impl["oracles"])} {c_validator(c["w"])} {c_value(c["v"])}'
    if k == 'validate_seq':
        tb, w = c_tables(impl['oracles']), c_validator(c['w'])
        return '(' + ' ++ '.join(f'eval_validate {tb} {w} {c_value(v)}' for v in c['vs']) + ')'
    if k == 'convert':
        return f'eval_convert {c_tables(impl["oracles"])} {c_value(c["v"])} {TT[c["t"]]}'
    if k == 'roundtrip':
        return None
    op = c['op']
    if op == 'show':
        return f'eval_show {cz(pint(c["z"]))}'
    if op == 'parse':
        return f'eval_parse {c_zlist(c["s"])}'
    if op == 'strip':
        return f'eval_strip {c_zlist(c["s"])}'
    if op == 'float_of_int':
        return f'eval_float_of_int {cz(int(c["z"]))}'
    if op == 'int_of_float':
        return f'eval_int_of_float {c_float(c["f"])}'
    if op == 'cmp':
        return f'eval_cmp {c_value(c["a"])} {c_value(c["b"])}'
    if op == 'ws':
        return 'eval_ws'
    if op == 'num_ws':
        return 'eval_num_ws'
    if op == 'int_str':
        return f'eval_int_str {c_zlist(c["s"])}'
    if op == 'regex':
        return f'eval_regex {c["mode"]} {c_regex(c["pat"])} {c_zlist(c["s"])}'
    if op == 'email':
        return f'eval_email {c_zlist(c["s"])}'
    if op == 'ascii_case':
        return f'eval_ascii_case {c_zlist(c["s"])}'
    raise ValueError(op)


def sections(m):
    out, i = [], 0
    while i < len(m):
        n = m[i]
        out.append(m[i + 1:i + 1 + n])
        i += 1 + n
    return out


# ---------- generators -------------------------------------------------------------------------------------------
WS = ['\t', '\n', '\x0b', '\x0c', '\r', '\x1c', '\x1d', '\x1e', '\x1f', ' ', '\x85', '\xa0', '\u1680', '\u2000', '\u2005',
      '\u200a', '\u2028', '\u2029', '\u202f', '\u205f', '\u3000']
NOT_WS = ['\x00', '\x08', '\x0e', '\x1b', '\x7f', '\u200b', '\u180e', '\ufeff', '\u2060', 'a', 'Z', '0', '\xe9', '\U0001f600']
INTS_SMALL = [0, 1, -1, 2, 3, 5, 6, 7, 8, -7, 10, 100]
INTS_BIG = [2 ** 53 - 1, 2 ** 53, 2 ** 53 + 1, -(2 ** 53) - 1, 10 ** 20, -10 ** 20, 2 ** 63, 2 ** 1023, 2 ** 1024,
            2 ** 1024 - 2 ** 970 - 1, 2 ** 1024 - 2 ** 970, -(2 ** 1024 - 2 ** 970), 10 ** 400, -10 ** 400, 10 ** 3999]
FLOATS = [0.0, -0.0, 0.1, 0.5, 1.0, 1.5, -1.5, 5.0, 6.999, 7.0, 7.001, -7.5, 2.0 ** 53, 2.0 ** 53 + 2, 1e16, 1e22, 1e308,
          1.7976931348623157e308, -1.7976931348623157e308, 5e-324, -5e-324, 2.2250738585072014e-308, 2.225073858507201e-308,
          inf, -inf, nan]


def rand_float(rng):
    r = rng.random()
    if r < 0.25:
        return rng.choice(FLOATS)
    if r < 0.6:
        return struct.unpack('<d', struct.pack('<Q', rng.getrandbits(64)))[0]
    if r < 0.8:
        return float(rng.randint(-1000, 1000)) / rng.choice([1, 2, 4, 8, 3, 10])
    return rng.uniform(-10, 10) * 10 ** rng.randint(-5, 30)


def rand_int(rng):
    r = rng.random()
    if r < 0.5:
        return rng.choice(INTS_SMALL)
    if r < 0.7:
        return rng.choice(INTS_BIG)
    if r < 0.9:
        return rng.randint(-10 ** 6, 10 ** 6)
    return rng.choice([1, -1]) * rng.getrandbits(rng.choice([60, 64, 70, 200, 1030, 1100]))


def around(b, rng):
    """values adjacent to the bound b (a Python number)"""
    out = [b]
    if type(b) is float and b != b:
        return [nan, 0, 1.5, inf, -inf, True, 10 ** 400]
    if type(b) in (int, bool):
        z = int(b)
        out += [z - 1, z + 1]
        try:
            f = float(z)
            out += [f, math.nextafter(f, inf), math.nextafter(f, -inf)]
        except OverflowError:
            out += [1.7976931348623157e308, inf]
    elif b in (inf, -inf):
        out += [-b, math.copysign(1.7976931348623157e308, b), int(math.copysign(1, b)) * 10 ** 400, 0]
    else:
        out += [math.nextafter(b, inf), math.nextafter(b, -inf), b + 1.0, b - 1.0]
        fl = math.floor(b)
        out += [fl, fl + 1, fl - 1]
        if b == fl:
            out += [int(b)]
    out += [0.0, -0.0, nan, inf, -inf, True, False, rng.choice(INTS_BIG), rand_float(rng), rand_int(rng)]
    return out


def V(kind, w, v, stream):
    return {'kind': kind, 'w': w, 'v': v, 'stream': stream}


def gen_bounds(rng, n):
    cases = []
    bounds = INTS_SMALL + INTS_BIG + FLOATS + [True, False]
    while len(cases) < n:
        b = rng.choice(bounds) if rng.random() < 0.8 else (rand_float(rng) if rng.random() < 0.5 else rand_int(rng))
        for k in ('Min', 'Max'):
            for incl in (True, False, None):
                vals = around(b, rng)
                for x in (vals if incl is not None else vals[:4]):
                    cases.append(V('validate', {'k': k, 'bound': num(b), 'incl': incl}, num(x), 'bounds'))
    # outside the input domain: the model still says what happens (TypeError)
    for v in (S('a'), N(), L([I(1)]), OBJ(0), BY(b'x')):
        cases.append(V('validate', {'k': rng.choice(['Min', 'Max']), 'bound': I(5), 'incl': True}, v, 'bounds'))
    return cases


def rand_str(rng, n, alphabet):
    return ''.join(rng.choice(alphabet) for _ in range(n))


def sized_values(rng, n):
    """values of length exactly n, of every Sized kind"""
    n = max(n, 0)
    al = ['a', 'b', ' ', '\xe9', '\U0001f600', '\u3000']
    items = [rng.choice([I(1), S('x'), N(), F(0.5)]) for _ in range(n)]
    return [S(rand_str(rng, n, al)), BY(bytes(rng.randrange(256) for _ in range(n))), L(items), T(items),
            D([I(i) for i in range(n)], items)]


UNSIZED = [I(5), N(), OBJ(0), F(1.5), B(True), ['opq', 1, ['5']]]


def gen_lengths(rng, n):
    cases = []
    while len(cases) < n:
        lim = rng.choice([0, 1, 2, 3, 5, 8, -1])
        for k in ('MinLength', 'MaxLength'):
            for ln in (lim - 1, lim, lim + 1, 0, rng.randint(0, 12)):
                for v in sized_values(rng, ln):
                    cases.append(V('validate', {'k': k, 'n': lim}, v, 'lengths'))
            cases.append(V('validate', {'k': k, 'n': lim}, rng.choice(UNSIZED), 'lengths'))
    return cases


def gen_notempty(rng, n):
    cases = []
    strs = ['', 'x', ' x ', 'a b', ' \t a \n'] + WS + NOT_WS
    for s in strs:
        for strip in (True, False, None):
            cases.append(V('validate', {'k': 'NotEmpty', 'strip': strip}, S(s), 'notempty'))
    seqs = [L([]), L([N()]), T([]), T([I(0)]), BY(b''), BY(b' '), D([], []), D([I(1)], [I(2)]), I(0), N(), OBJ(1), F(0.0), B(False)]
    for v in seqs:
        for strip in (True, False):
            cases.append(V('validate', {'k': 'NotEmpty', 'strip': strip}, v, 'notempty'))
    while len(cases) < n:
        a = rand_str(rng, rng.randint(0, 3), WS)
        b = rand_str(rng, rng.randint(0, 3), WS)
        mid = rand_str(rng, rng.randint(0, 4), WS + NOT_WS + NOT_WS)
        cases.append(V('validate', {'k': 'NotEmpty', 'strip': rng.choice([True, False, None])}, S(a + mid + b), 'notempty'))
    return cases


EMAIL_ALPHA = ['a', 'Z', '9', '@', '.', ' ', '\n', '\t', '\xe9', '-', '_', '\u3000', '+']
EMAIL_SEEDS = ['a@b.c', 'john.doe@example.com', 'a@b.c\n', 'a@b.c ', ' a@b.c', 'a@b', 'a@.c', '@b.c', 'a@b.', 'a@@b.c', 'a@b@c.d',
               'a b@c.d', 'a@b c.d', 'a@b.c d', 'a@b.c-d', 'a@b.c_d', 'a@b.\xe9', 'a@b.c9', 'a@b..c', 'a.b@c.d.e', '.@..a', 'a@b.c.',
               'a\u3000@b.c', 'a\x1f@b.c', 'a\x00@b.c', '\xe9@\xe9.com', 'a@b.C0m', '', '@', '.', 'a@b.\uff41', 'a@b.\u0661', 'a@\n.c']
CUSTOM_PATTERNS = [r'[a-z]+@x\.y', r'.+@.+', r'(a|b)*@c?', r'[^@]+@[^@]+$', r'a@b\.c$']


def gen_email(rng, n):
    cases = []
    for s in EMAIL_SEEDS:
        cases.append(V('validate', {'k': 'Email', 'pat': None, 'pp': 'id'}, S(s), 'email'))
    while len(cases) < n:
        r = rng.random()
        if r < 0.45:      # near-miss: one edit of a valid address
            s = list(rng.choice(['a@b.c', 'ab@cd.ef', 'x.y@z.w.org', 'A9@b-c.d0']))
            i = rng.randrange(len(s) + 1)
            e = rng.random()
            if e < 0.4 and s:
                s[min(i, len(s) - 1)] = rng.choice(EMAIL_ALPHA)
            elif e < 0.7:
                s.insert(i, rng.choice(EMAIL_ALPHA))
            elif s:
                del s[min(i, len(s) - 1)]
            s = ''.join(s)
        else:
            s = rand_str(rng, rng.randint(0, 8), EMAIL_ALPHA)
        pat = None if rng.random() < 0.8 else rng.choice(CUSTOM_PATTERNS)
        pp = rng.choice(['id', 'id', 'rev', ['const', [ord('k')]]])
        v = S(s) if rng.random() < 0.97 else rng.choice([I(5), N(), BY(b'a@b.c')])
        cases.append(V('validate', {'k': 'Email', 'pat': pat, 'pp': pp}, v, 'email'))
    return cases


U0 = '12345678-1234-5678-1234-567812345678'


def gen_uuid(rng, n):
    cases = []
    h = U0.replace('-', '')
    seeds = [U0, U0.upper(), h, '{' + U0 + '}', 'urn:uuid:' + U0, '{' + h, h + '}', ' ' + U0, U0 + '\n', h[:-1], h + '0', h[:-1] + 'g',
             '0x' + h[2:], h[:10] + '_' + h[11:], '+' + h[1:], '-' * 5 + h, h[:31] + ' ', '', 'urn:' + h, 'uuid:' + h, h[:8] + '--' + h[8:],
             '\uff11' + h[1:], '0' * 32, 'f' * 32]
    for s in seeds:
        for conv in (True, False, None):
            cases.append(V('validate', {'k': 'IsUuid', 'convert': conv}, S(s), 'uuid'))
    for v in (I(5), N(), I(int(h, 16)), F(1.5), L([]), ['opq', 1, [str(int(h, 16))]], BY(h.encode())):
        cases.append(V('validate', {'k': 'IsUuid', 'convert': rng.choice([True, False])}, v, 'uuid'))
    while len(cases) < n:
        s = list(rng.choice(seeds[:5]))
        for _ in range(rng.randint(0, 2)):
            i = rng.randrange(len(s))
            e = rng.random()
            if e < 0.5:
                s[i] = rng.choice('0123456789abcdefABCDEFg-_{} x')
            elif e < 0.75:
                s.insert(i, rng.choice('0a-_ {'))
            else:
                del s[i]
        cases.append(V('validate', {'k': 'IsUuid', 'convert': rng.choice([True, False, None])}, S(''.join(s)), 'uuid'))
    return cases


ENUMS = [
    {'members': [I(1), I(2), I(-3), I(0)], 'int': True},
    {'members': [I(2 ** 70), I(5)], 'int': True},
    {'members': [S('GO'), S('stop'), I(1), F(2.5), N()], 'int': False},
    {'members': [S('A'), S('B')], 'int': False},
    {'members': [S('\xc4B'), S('SS'), S('1')], 'int': False},
]


def gen_enum(rng, n):
    cases = []
    vals_int = [I(1), I(2), I(-3), I(0), I(3), I(-1), I(5), I(2 ** 70), I(2 ** 70 + 1), B(True), B(False), F(1.0), F(1.5), F(-3.0),
                F(-3.5), F(0.0), F(-0.0), F(0.999), F(2.0000000000000004), F(float(2 ** 70)), F(nan), F(inf), F(-inf), F(1e300),
                S('1'), S(' 1 '), S('1.5'), S('+1'), S('1_0'), S('-3'), S('\uff11'), S('0x1'), S(''), S('a'), S('1\n'), S('\x1f2'),
                S('1' * 30), S(str(2 ** 70)), N(), L([I(1)]), T([I(1)]), OBJ(0), BY(b'1'), BY(b' 2 '), BY(b'\x1f2'), BY(b'\x852'), BY(b'x'), BY(b''), BY(b'1_0'), MEM(0), MEM(1), D([], [])]
    vals_any = [S('go'), S('GO'), S('Go'), S('stop'), S('STOP'), S('a'), S('A'), S('b '), S('\xe4b'), S('\xc4B'), S('\xdf'), S('ss'),
                S('1'), I(1), F(1.0), B(True), F(2.5), F(2.4999999999999996), N(), F(nan), L([I(1)]), T([]), OBJ(0), I(0), S(''),
                MEM(0), MEM(1), D([], []), BY(b'GO')]
    while len(cases) < n:
        e = rng.choice(ENUMS)
        w = {'k': 'IsEnum', 'members': e['members'], 'int': e['int'], 'convert': rng.choice([True, False, None]),
             'upper': rng.choice([True, False, None])}
        v = rng.choice(vals_int if e['int'] else vals_any) if rng.random() < 0.85 else \
            rng.choice([num(rand_float(rng)), num(rand_int(rng)), S(str(rand_int(rng)))])
        if v[0] == 'opq' and int(v[2][0]) >= len(e['members']):
            continue
        cases.append(V('validate', w, v, 'enum'))
    return cases


PATTERNS = [(r'[0-9]+$', '0129a \n'), (r'a+b', 'ab c'), (r'(ab|cd)*e', 'abcde'), (r'x.y', 'xy\nz'), (r'[^a-c]z$', 'abcz\n'),
            (r'\s+', 'a \t\u3000'), (r'h?i', 'hi'), (r'a|', 'ab'), (r'$', 'a\n'), (r'', 'a'), (r'(?:a|b)+c?$', 'abc\n'),
            (r'[a-zA-Z0-9]+\.[a-z]+', 'aZ9.b-'), (r'a$b', 'ab\n'), (r'[\s@]x', ' @x'), (r'a\$', 'a$b')]


def gen_pattern(rng, n):
    cases = []
    while len(cases) < n:
        pat, al = rng.choice(PATTERNS)
        if rng.random() < 0.93:
            v = S(rand_str(rng, rng.randint(0, 7), list(al)))
        else:
            v = rng.choice([I(rand_int(rng) % 10 ** 6), I(-12), N(), B(True), F(1.5), L([I(1)]), OBJ(0)])
        cases.append(V('validate', {'k': 'MatchPattern', 'pat': pat}, v, 'pattern'))
    return cases


ISO = ['2020-01-01', '2020-01-01T10:00:00', '2020-01-01 10:00:00.123456', '2020-01-01T10:00:00+02:00', '2020-01-01T10:00:00Z',
       '2020-W01-1', '20200101', '20200101T101010', '2020-13-01', '2020-02-30', '2020-01-01T24:00:00', '2020-01-01T10', '', ' ',
       '2020-01-01 ', ' 2020-01-01', 'x', '2020-1-1', '0001-01-01', '9999-12-31T23:59:59.999999', '10000-01-01', '2020-01-01T10:00:00-23:59',
       '2020-01-01T10:00:00+24:00', '2020-01-01T10:00:00.5', '\uff12020-01-01', '2020-01-01\n', '2020-01-01T10:00:00+02:00:30.5']


def gen_iso(rng, n):
    cases = []
    for s in ISO:
        cases.append(V('validate', {'k': 'Iso'}, S(s), 'iso'))
    for v in (I(5), N(), F(1.5), L([]), BY(b'2020-01-01'), OBJ(0), B(True), ['opq', 1, ['7']]):
        cases.append(V('validate', {'k': 'Iso'}, v, 'iso'))
    while len(cases) < n:
        s = list(rng.choice(ISO[:8]))
        for _ in range(rng.randint(1, 2)):
            i = rng.randrange(len(s))
            e = rng.random()
            if e < 0.6:
                s[i] = rng.choice('0123456789-:T .+Zw')
            elif e < 0.8:
                s.insert(i, rng.choice('0-:T 9'))
            else:
                del s[i]
        cases.append(V('validate', {'k': 'Iso'}, S(''.join(s)), 'iso'))
    return cases


UNIX_INTS = [0, 1, -1, 10 ** 9, 253402300799, 253402300800, -62135596800, -62135596801, 10 ** 11, 10 ** 14, 10 ** 20, -10 ** 20,
             2 ** 1023, 2 ** 1024 - 2 ** 970 - 1, 2 ** 1024 - 2 ** 970, -(2 ** 1024 - 2 ** 970), 2 ** 1024, 10 ** 400, -10 ** 400, 10 ** 3999,
             86399999999999, 86400000000000]
UNIX_STRS = ['0', ' 1e3 ', 'nan', 'inf', '-Infinity', 'abc', '', ' ', '1_0', '1' * 400, '0x10', '1e400', '-1e400', '253402300799',
             '253402300800', '1.5', '\uff11', '1,5', 'True', '1e-400', '.5', '5.', '+1', '--1', '1 2', '\t7\n']


def gen_unix(rng, n):
    cases = []
    for z in UNIX_INTS:
        cases.append(V('validate', {'k': 'Unix'}, I(z), 'unix'))
    for s in UNIX_STRS:
        cases.append(V('validate', {'k': 'Unix'}, S(s), 'unix'))
    edge = 253402300800.0
    fl = FLOATS + [edge, math.nextafter(edge, 0), -62135596800.0, math.nextafter(-62135596800.0, -inf), 1e11, -1e11, 1e18,
                   86399999999999.0, 8.64e13, 0.9999995, 1e-7, 253402300799.9999]
    for x in fl:
        cases.append(V('validate', {'k': 'Unix'}, F(x), 'unix'))
    for v in (B(True), B(False), N(), L([I(1)]), OBJ(0), BY(b'1'), T([]), D([], [])):
        cases.append(V('validate', {'k': 'Unix'}, v, 'unix'))
    while len(cases) < n:
        r = rng.random()
        if r < 0.4:
            v = num(rand_int(rng))
        elif r < 0.8:
            v = num(rand_float(rng))
        else:
            v = S(rng.choice([str(rand_int(rng)), repr(rand_float(rng)), rand_str(rng, rng.randint(1, 5), list('0123456789.e-+_ naif'))]))
        cases.append(V('validate', {'k': 'Unix'}, v, 'unix'))
    return cases


def rand_leaf(rng):
    """(validator, generator of a mostly relevant item)"""
    k = rng.choice(['Min', 'Max', 'MinLength', 'MaxLength', 'NotEmpty', 'Email', 'IsUuid', 'IsEnum', 'MatchPattern', 'Iso', 'Unix'])
    if k in ('Min', 'Max'):
        b = rng.choice([0, 5, 7, 2.5, -1, 2 ** 53, True, 1e308])
        return {'k': k, 'bound': num(b), 'incl': rng.choice([True, False, None])}, lambda: num(rng.choice(around(b, rng)))
    if k in ('MinLength', 'MaxLength'):
        lim = rng.choice([0, 1, 2, 3])
        return {'k': k, 'n': lim}, lambda: rng.choice(sized_values(rng, lim + rng.choice([-1, 0, 1])) + UNSIZED[:2])
    if k == 'NotEmpty':
        return {'k': k, 'strip': rng.choice([True, False, None])}, \
            lambda: rng.choice([S(' x '), S(''), S(' \u3000'), S('ab'), L([]), L([I(1)]), T([]), I(0), S('\x1fa@b.c '), S(' ' + U0 + ' ')])
    if k == 'Email':
        return {'k': k, 'pat': None, 'pp': rng.choice(['id', 'rev'])}, lambda: S(rng.choice(EMAIL_SEEDS))
    if k == 'IsUuid':
        return {'k': k, 'convert': rng.choice([True, False, None])}, lambda: S(rng.choice([U0, U0[:-1], U0.upper(), 'x', ' ' + U0]))
    if k == 'IsEnum':
        return None, None       # filled by the caller (one enum per case)
    if k == 'MatchPattern':
        pat, al = rng.choice(PATTERNS)
        return {'k': k, 'pat': pat}, lambda: S(rand_str(rng, rng.randint(0, 5), list(al)))
    if k == 'Iso':
        return {'k': k}, lambda: S(rng.choice(ISO))
    return {'k': 'Unix'}, lambda: rng.choice([I(rng.choice(UNIX_INTS)), S(rng.choice(UNIX_STRS)), F(rng.choice(FLOATS))])


def make_tree(rng, max_depth, need_container=False):
    """(validator tree, generator of values shaped for it); one enum per tree"""
    enum = rng.choice(ENUMS)

    def leaf():
        w, g = rand_leaf(rng)
        if w is None:
            w = {'k': 'IsEnum', 'members': enum['members'], 'int': enum['int'], 'convert': rng.choice([True, False, None]),
                 'upper': rng.choice([True, False, None])}
            pool = [I(1), I(2), F(1.0), S('1'), S('go'), S('A'), S('x'), N(), F(2.5), B(True), I(7), S(' 2')]
            g = lambda: rng.choice(pool)
        return w, g

    def tree(depth):
        r = rng.random()
        if depth >= max_depth or (r < 0.35 and not (need_container and depth == 0)):
            return leaf()
        if r < 0.7:
            m = rng.choice([0, 1, 1, 2, 3])
            kids = [tree(depth + 1) for _ in range(m)]
            # members of an IntEnum are ints in Python but opaque in the model: a converting IsEnum(IntEnum) is only
            # generated as the last child of a chain, so that no member is handed on to another validator
            for kw, _ in kids[:-1]:
                if kw['k'] == 'IsEnum' and kw['int']:
                    kw['convert'] = False
            w = {'k': 'ForEach', 'cs': [k[0] for k in kids], 'single': rng.random() < 0.3, 'tuple': rng.random() < 0.2}

            def g():
                cnt = rng.choice([0, 1, 2, 2, 3, 4])
                src = kids if kids else [leaf()]
                items = [rng.choice(src)[1]() for _ in range(cnt)]
                q = rng.random()
                if q < 0.6:
                    return L(items)
                if q < 0.8:
                    return T(items)
                if q < 0.86:
                    seen, ks = set(), []
                    for x in items:      # distinct (by ==) hashable keys: keep ints/strs only, one each
                        sig = json.dumps(x)
                        if x[0] in ('int', 'str') and sig not in seen:
                            seen.add(sig)
                            ks.append(x)
                    return D(ks, [N()] * len(ks))
                if q < 0.92:
                    return S(rand_str(rng, cnt, ['a', ' ', '1', '@']))
                if q < 0.96:
                    return BY(bytes(rng.randrange(256) for _ in range(cnt)))
                return rng.choice([I(5), N(), OBJ(0), F(1.5)])
            return w, g
        m = rng.choice([0, 1, 2, 2, 3])
        kids = [tree(depth + 1) for _ in range(m)]
        w = {'k': 'Composite', 'cs': [k[0] for k in kids]}
        return w, (lambda: rng.choice(kids)[1]()) if kids else (lambda: rng.choice([I(1), S('x'), N()]))

    return tree(0)


def converting_leaf(rng):
    """a child whose result differs from its input (conversion), with items it accepts and items it rejects"""
    k = rng.choice(['IsEnum', 'IsEnumInt', 'NotEmpty', 'Email', 'Iso', 'Unix', 'IsUuid'])
    if k == 'IsEnum':
        return ({'k': 'IsEnum', 'members': [S('RED'), S('GO'), S('A')], 'int': False, 'convert': rng.choice([True, None]), 'upper': rng.choice([True, None])},
                lambda: S(rng.choice(['RED', 'red', 'go', 'a', 'x', ' red'])))
    if k == 'IsEnumInt':
        return ({'k': 'IsEnum', 'members': [I(1), I(2), I(5)], 'int': True, 'convert': rng.choice([True, None]), 'upper': None},
                lambda: rng.choice([I(1), S('2'), F(5.0), I(3), S(' 5 '), B(True)]))
    if k == 'NotEmpty':
        return {'k': 'NotEmpty', 'strip': rng.choice([True, None])}, lambda: S(rng.choice([' abc ', ' ab', 'a ', '   ', '', 'abc', '\t12345 ']))
    if k == 'Email':
        return {'k': 'Email', 'pat': None, 'pp': rng.choice(['rev', ['const', [ord('k')]]])}, lambda: S(rng.choice(['a@b.c', 'ab@cd.ef', 'a@b', ' a@b.c']))
    if k == 'Iso':
        return {'k': 'Iso'}, lambda: S(rng.choice(['2020-01-01', '2020-01-01T10:00:00', '2020-13-01', 'x']))
    if k == 'Unix':
        return {'k': 'Unix'}, lambda: rng.choice([I(0), S('1e3'), F(1.5), S('abc'), I(10 ** 14)])
    return {'k': 'IsUuid', 'convert': True}, lambda: S(rng.choice([U0, U0.upper(), U0[:-1], 'x']))


def plain_leaf(rng):
    k = rng.choice(['MaxLength', 'MinLength', 'MatchPattern', 'Min', 'Max'])
    if k in ('MaxLength', 'MinLength'):
        return {'k': k, 'n': rng.choice([1, 2, 3, 4])}, lambda: S(rng.choice(['', 'a', 'abc', ' abc ', 'abcd']))
    if k == 'MatchPattern':
        return {'k': k, 'pat': rng.choice([r'[0-9]+$', r'a+b', r'\s+'])}, lambda: S(rng.choice(['12', 'ab', ' a', 'x', 'aab ']))
    return {'k': k, 'bound': I(3), 'incl': rng.choice([True, False, None])}, lambda: rng.choice([I(2), I(3), I(4), F(3.0)])


def gen_direct(rng, n):
    """a Composite handed DIRECTLY (not inside a list) to ForEach / to another Composite, with converting children: ForEach must
    use it as ONE child (every child of the Composite sees the original item, the item is returned unchanged), and a Composite
    iterating another Composite runs that one's children"""
    cases = []
    while len(cases) < n:
        kids = [converting_leaf(rng) for _ in range(rng.choice([1, 1, 2]))] + [plain_leaf(rng) for _ in range(rng.choice([0, 1, 1, 2]))]
        rng.shuffle(kids)
        inner = {'k': 'Composite', 'cs': [k[0] for k in kids]}
        items = [rng.choice(kids)[1]() for _ in range(rng.choice([1, 1, 2, 3]))]
        r = rng.random()
        if r < 0.6:
            w = {'k': 'ForEach', 'cs': [inner], 'single': True, 'tuple': False}
            v = rng.choice([L, T])(items)
        elif r < 0.8:
            w = {'k': 'Composite', 'cs': [inner], 'direct': True}
            v = items[0]
        else:      # both: ForEach(Composite(<Composite>))
            w = {'k': 'ForEach', 'cs': [{'k': 'Composite', 'cs': [inner], 'direct': True}], 'single': True, 'tuple': False}
            v = L(items)
        cases.append(V('validate', w, v, 'nested'))
    return cases


def gen_nested(rng, n, max_depth):
    cases = gen_direct(rng, n // 5)
    while len(cases) < n:
        w, g = make_tree(rng, max_depth, need_container=True)
        cases.append(V('validate', w, g(), 'nested'))
    return cases


U1 = '00000000-0000-0000-0000-000000000001'
SEQ_SEEDS = [     # (validator, [rejected, accepted, rejected, accepted]) for every kind, also nested
    ({'k': 'Min', 'bound': I(5), 'incl': True}, [I(4), I(5), F(4.5), I(6)]),
    ({'k': 'Max', 'bound': I(5), 'incl': False}, [I(5), I(4), I(6), F(4.5)]),
    ({'k': 'MinLength', 'n': 2}, [S('a'), S('ab'), L([]), L([I(1), I(2)])]),
    ({'k': 'MaxLength', 'n': 2}, [S('abc'), S('ab'), I(5), T([])]),
    ({'k': 'NotEmpty', 'strip': True}, [S(' '), S(' x '), L([]), S('y')]),
    ({'k': 'Email', 'pat': None, 'pp': 'rev'}, [S('x'), S('a@b.c'), S('a@b'), S('ab@cd.ef')]),
    ({'k': 'IsUuid', 'convert': True}, [S('x'), S(U0), S(U0[:-1]), S(U1)]),
    ({'k': 'IsEnum', 'members': [I(1), I(2)], 'int': True, 'convert': True, 'upper': True}, [I(9), I(1), S('x'), S('2')]),
    ({'k': 'IsEnum', 'members': [S('GO'), S('A')], 'int': False, 'convert': None, 'upper': None}, [S('b'), S('go'), N(), S('A')]),
    ({'k': 'MatchPattern', 'pat': r'[0-9]+$'}, [S('a'), S('a1'), S('1a'), S('12')]),
    ({'k': 'Iso'}, [S('x'), S('2020-01-01'), I(5), S('2020-01-01T10:00:00')]),
    ({'k': 'Unix'}, [S('abc'), I(0), N(), S('1e3')]),
    ({'k': 'ForEach', 'cs': [{'k': 'Min', 'bound': I(5), 'incl': True}], 'single': True, 'tuple': False}, [L([I(6), I(4)]), L([I(6)]), I(5), T([])]),
    ({'k': 'ForEach', 'cs': [{'k': 'NotEmpty', 'strip': True}, {'k': 'MaxLength', 'n': 3}], 'single': False, 'tuple': False},
     [L([S(' abcd ')]), L([S(' abc ')]), L([S(' ')]), L([S('a'), S(' b')])]),
    ({'k': 'Composite', 'cs': [{'k': 'Min', 'bound': I(5), 'incl': True}, {'k': 'Max', 'bound': I(9), 'incl': True}]}, [I(4), I(6), I(10), I(9)]),
    ({'k': 'Composite', 'cs': [{'k': 'NotEmpty', 'strip': True}, {'k': 'MaxLength', 'n': 3}]}, [S(' abc '), S('abc'), S(' '), S('a')]),
    ({'k': 'ForEach', 'cs': [{'k': 'Composite', 'cs': [{'k': 'NotEmpty', 'strip': True}, {'k': 'MaxLength', 'n': 3}]}], 'single': True, 'tuple': False},
     [L([S(' abc ')]), L([S(' a ')]), L([S('ab'), S('')]), L([])]),
    ({'k': 'Composite', 'cs': [{'k': 'ForEach', 'cs': [{'k': 'Email', 'pat': None, 'pp': 'id'}], 'single': True, 'tuple': False},
                               {'k': 'MinLength', 'n': 1}]}, [L([S('x')]), L([S('a@b.c')]), L([]), T([S('a@b.c'), S('c@d.e')])]),
]


def gen_sequences(rng, n, max_depth):
    """ONE validator instance used for a sequence of values (reject -> accept -> reject ...): every call is judged against the
    specification of that single call (a validator has no history)"""
    cases = []
    for w, vs in SEQ_SEEDS:
        cases.append({'kind': 'validate_seq', 'w': w, 'vs': vs, 'stream': 'sequence'})
        cases.append({'kind': 'validate_seq', 'w': w, 'vs': vs[1:] + vs[:1], 'stream': 'sequence'})
    while len(cases) < n:
        r = rng.random()
        if r < 0.25:
            ds = gen_direct(rng, rng.choice([2, 3]))
            w, vs = ds[0]['w'], [d['v'] for d in ds]      # the other draws only contribute their values
        else:
            w, g = make_tree(rng, max_depth, need_container=r < 0.7)
            vs = [g() for _ in range(rng.choice([2, 3, 3, 4]))]
        cases.append({'kind': 'validate_seq', 'w': w, 'vs': vs, 'stream': 'sequence'})
    return cases


CV_VALUES = ([B(True), B(False), N(), OBJ(0), L([]), L([I(1), S('a')]), T([I(1), I(2)]), D([], []), D([S('a')], [I(1)]), BY(b'1'),
              BY(b'true')] +
             [I(z) for z in INTS_SMALL + INTS_BIG[:8]] + [F(x) for x in FLOATS] +
             [S(s) for s in [' TRUE ', 'True', 'true', 'tRuE', 'yes', 'y', 'on', '1', '0', '01', '00', '-5', ' 12 ', '1_0', '+3', '1.5', '1e3',
                             'nan', 'Infinity', '-inf', '', ' ', 'a,b , c', 'a:1,b:2, a:3,c', ':', ',', ',,', 'a:b:c', ' k : v ,', '\u0130',
                             '\xdf', '\uff21', '\uff11', 'FALSE', 'false ', '\x1ffalse\x1f', 'none', '[]', '{}', '1,2', 'A:B', '\u3000x\u3000',
                             '0x10', '1e400', '١٢', '--1', '- 1', '1 2', 'K:1,k:2', 'a\n:\tb', '\xc4:\xd6']])


def gen_convert(rng, n):
    cases = []
    for v in CV_VALUES:
        for t in TT:
            cases.append({'kind': 'convert', 'v': v, 't': t, 'stream': 'convert'})
    while len(cases) < n:
        r = rng.random()
        if r < 0.3:
            v = num(rand_int(rng))
        elif r < 0.55:
            v = num(rand_float(rng))
        else:
            al = list('01-+_. ,:aTRUEfalsetrue') + ['\u3000', '\xc4', '\u0130']
            v = S(rand_str(rng, rng.randint(0, 7), al))
        cases.append({'kind': 'convert', 'v': v, 't': rng.choice(list(TT)), 'stream': 'convert'})
    return cases


def gen_digitlimit(rng, quick=True):
    """ints beyond CPython's int<->str digit limit.  convert_value is modelled there (str_of_int / int_of_canonical);
    the validators' rejection messages are not: those cases carry the verdict the property text demands (`expect`) and
    are judged on the implementation alone"""
    out = []
    big = rng.getrandbits(16000) | (1 << 15999)
    # a 4300-digit value costs coqc about a second (literal lists of that length): few in the quick tier
    if quick:
        pairs = [(10 ** 4300 - 1, 'int'), (10 ** 4300 - 1, 'str'), (10 ** 4300, 'str'), (10 ** 4300, 'float'), (-10 ** 4300, 'bool'),
                 (-10 ** 5000, 'list')]
        spairs = [('1' * 4300, 'int'), ('-' + '1' * 4301, 'int'), ('0' * 4301, 'int'), ('0' * 4301, 'bool')]
    else:
        pairs = [(z, t) for z in (10 ** 4300 - 1, -(10 ** 4300 - 1), 10 ** 4300, -10 ** 4300, 10 ** 5000, big) for t in TT]
        spairs = [(d, t) for d in ('1' * 4300, '1' * 4301, '-' + '1' * 4300, '-' + '1' * 4301, '0' * 4301, ' ' + '9' * 4300 + '\n', '1' * 5000)
                  for t in ('int', 'float', 'str', 'bool')]
    for z, t in pairs:
        out.append({'kind': 'convert', 'v': I(z), 't': t, 'stream': 'digitlimit'})
    for d, t in spairs:
        out.append({'kind': 'convert', 'v': S(d), 't': t, 'stream': 'digitlimit'})
    # validators on ints beyond the digit limit: the model prints the message of a rejection like the code does
    # (`reject` / `fmt_ok`), so these cases go through the correspondence like all others (finding C14-K9 lives here)
    B = 10 ** 5000
    VC = lambda w, v: V('validate', w, v, 'digitlimit')
    MIN5, MAX5 = {'k': 'Min', 'bound': I(5), 'incl': True}, {'k': 'Max', 'bound': I(5), 'incl': None}
    IE12 = {'k': 'IsEnum', 'members': [I(1), I(2)], 'int': True, 'convert': True, 'upper': True}
    out += [VC(MIN5, I(B)), VC(MIN5, I(-B)), VC(MAX5, I(B)), VC({'k': 'Min', 'bound': I(B), 'incl': True}, I(5)),
            VC({'k': 'Unix'}, I(B)), VC(IE12, I(B)),
            VC({'k': 'ForEach', 'cs': [MIN5], 'single': True, 'tuple': False}, L([I(7), I(-B)])),
            VC({'k': 'MinLength', 'n': 3}, L([I(B)]))]
    if not quick:
        out += [VC({'k': 'Max', 'bound': I(5), 'incl': False}, I(-B)), VC({'k': 'Max', 'bound': I(B), 'incl': True}, F(1e308)),
                VC({'k': 'Max', 'bound': I(-B), 'incl': True}, F(nan)), VC({'k': 'Unix'}, I(-big)),
                VC({'k': 'Composite', 'cs': [MIN5, {'k': 'Max', 'bound': I(9), 'incl': True}]}, I(B)),
                VC({'k': 'ForEach', 'cs': [MIN5], 'single': False, 'tuple': False}, L([I(B)])),
                VC({'k': 'ForEach', 'cs': [MIN5], 'single': False, 'tuple': False}, I(B)),
                VC({'k': 'MinLength', 'n': 1}, I(B)), VC({'k': 'MaxLength', 'n': 0}, T([I(B)])), VC({'k': 'MaxLength', 'n': 1}, L([I(B)])),
                VC({'k': 'NotEmpty', 'strip': True}, I(B)), VC({'k': 'NotEmpty', 'strip': True}, L([I(B)])),
                VC({'k': 'IsUuid', 'convert': True}, I(B)), VC({'k': 'Iso'}, I(B)), VC({'k': 'Iso'}, L([I(B)])),
                VC({'k': 'MatchPattern', 'pat': r'[0-9]+$'}, I(B)), VC({'k': 'Email', 'pat': None, 'pp': 'id'}, I(B)),
                VC({'k': 'Unix'}, L([I(B)])), VC(IE12, L([I(B)])),
                {'kind': 'validate_seq', 'w': MIN5, 'vs': [I(-B), I(7), I(4), I(B)], 'stream': 'digitlimit'}]
    return out


def load_corpus():
    """minimised past disagreements / false alarms, run first on every check"""
    path = os.path.join(ROOT, 'corpus', 'C14.json')
    if not os.path.exists(path):
        return []
    out = []
    for e in json.load(open(path))['cases']:
        c = dict(e['case'])
        c['stream'] = 'corpus'
        out.append(c)
    return out


def gen_roundtrip(rng, n):
    cases = [{'kind': 'roundtrip', 'x': B(b), 'stream': 'roundtrip'} for b in (True, False)]
    for z in INTS_SMALL + INTS_BIG:
        cases.append({'kind': 'roundtrip', 'x': I(z), 'stream': 'roundtrip'})
    for x in FLOATS:
        cases.append({'kind': 'roundtrip', 'x': F(x), 'stream': 'roundtrip'})
    while len(cases) < n:
        cases.append({'kind': 'roundtrip', 'x': num(rand_int(rng) if rng.random() < 0.4 else rand_float(rng)), 'stream': 'roundtrip'})
    return cases


INT_STR_SEEDS = ['\x1f2', '2\x1f', '\x1c2\x1c', '\x1d2', '\x1e2', '\x852', '\xa02\xa0', ' 2 ', '\t-3\n', '\u30002', '2\u3000',
                 '\x1d', '-', '- 1', '1 2', '', '-0', '007', '\x0b12\x0c', '\u20282\u2029', '\u205f2\u202f', '\u16802', '+2', '1_0',
                 '\uff11', '2\x00', '\u200b2', '\x1f-2\x1f', ' \x1f2']


def gen_prims(rng, n):
    P = lambda **kw: dict(kind='prim', stream='prims', **kw)
    cases = [P(op='ws'), P(op='num_ws')]
    digits_ws = list('0123456789') * 2 + ['-'] + WS
    for t in INT_STR_SEEDS:
        cases.append(P(op='int_str', s=[ord(ch) for ch in t], closed=all(ch in digits_ws for ch in t)))
    for z in (10 ** 4300 - 1, -(10 ** 4300 - 1), 10 ** 4300) if n < 5000 else (10 ** 4299, 10 ** 4300 - 1, -(10 ** 4300 - 1), 10 ** 4300, -10 ** 4300):
        cases.append(P(op='show', z=I(z)[1]))
    for t in ('1' * 4300, '-' + '1' * 4301, '0' * 4301) if n < 5000 else \
            ('1' * 4300, '1' * 4301, '-' + '1' * 4300, '-' + '1' * 4301, '0' * 4301, '\t' + '0' * 4300 + ' ', '\x1f' + '1' * 4301):
        cases.append(P(op='int_str', s=[ord(ch) for ch in t], closed=True))
    for z in INTS_SMALL + INTS_BIG:
        cases.append(P(op='show', z=str(z)))
        cases.append(P(op='float_of_int', z=str(z)))
        cases.append(P(op='float_of_int', z=str(-z)))
    for x in FLOATS:
        cases.append(P(op='int_of_float', f=fj(x)))
    for s in EMAIL_SEEDS:
        cases.append(P(op='email', s=[ord(c) for c in s]))
    m = n // 8
    for _ in range(m):
        cases.append(P(op='show', z=str(rand_int(rng))))
        # rounding of int -> float: random mantissas around the half-way points
        k = rng.choice([54, 55, 60, 64, 100, 1024])
        base = rng.getrandbits(53) | (1 << 52)
        sh = k - 53
        z = (base << sh) + rng.choice([0, 1, (1 << (sh - 1)) - 1, 1 << (sh - 1), (1 << (sh - 1)) + 1, (1 << sh) - 1])
        cases.append(P(op='float_of_int', z=str(rng.choice([1, -1]) * z)))
        cases.append(P(op='int_of_float', f=fj(rand_float(rng))))
        cases.append(P(op='parse', s=[ord(c) for c in rand_str(rng, rng.randint(0, 6), list('0123456789-'))]))
        cases.append(P(op='strip', s=[ord(c) for c in rand_str(rng, rng.randint(0, 6), WS[:12] + NOT_WS[:6])]))
        if rng.random() < 0.7:
            t = rand_str(rng, rng.randint(0, 2), WS) + rand_str(rng, rng.randint(0, 3), digits_ws) + rand_str(rng, rng.randint(0, 2), WS)
            cases.append(P(op='int_str', s=[ord(ch) for ch in t], closed=True))
        else:
            t = rand_str(rng, rng.randint(0, 5), digits_ws + ['+', '_', '\uff11', '\u0661', '.', 'e', 'x'])
            cases.append(P(op='int_str', s=[ord(ch) for ch in t], closed=False))
        a = rng.choice([rand_int(rng), rand_float(rng), rng.random() < 0.5])
        b = rng.choice([rand_int(rng), rand_float(rng), a, float(a) if abs(a) < 1e300 else a])
        cases.append(P(op='cmp', a=num(a), b=num(b)))
        pat, al = rng.choice(PATTERNS)
        cases.append(P(op='regex', mode=rng.choice(['MFull', 'MSearch', 'MPrefix']), pat=pat,
                       s=[ord(c) for c in rand_str(rng, rng.randint(0, 7), list(al))]))
        cases.append(P(op='email', s=[ord(c) for c in rand_str(rng, rng.randint(0, 9), EMAIL_ALPHA)]))
        cases.append(P(op='ascii_case', s=[ord(c) for c in rand_str(rng, rng.randint(0, 6), list('aZ09@[`{~\x7f') + ['\xe9', '\x80'])]))
    return cases


# cases per stream: (quick, thorough); quick stays within ~60 s wall on a loaded machine, thorough is ~15x larger
VOLUME = {'bounds': (900, 16800), 'lengths': (350, 6000), 'notempty': (300, 4200), 'email': (400, 7200), 'uuid': (200, 3000),
          'enum': (450, 7200), 'pattern': (300, 4800), 'iso': (160, 2400), 'unix': (300, 4800), 'nested': (600, 10800), 'sequence': (220, 3600),
          'convert': (900, 18000), 'roundtrip': (400, 6000), 'prims': (800, 14400)}


def gen_cases(rng, tier, scale):
    q = tier == 'quick'
    n = {k: max(1, int((v[0] if q else v[1]) * scale)) for k, v in VOLUME.items()}
    cases = []
    cases += gen_bounds(rng, n['bounds'])
    cases += gen_lengths(rng, n['lengths'])
    cases += gen_notempty(rng, n['notempty'])
    cases += gen_email(rng, n['email'])
    cases += gen_uuid(rng, n['uuid'])
    cases += gen_enum(rng, n['enum'])
    cases += gen_pattern(rng, n['pattern'])
    cases += gen_iso(rng, n['iso'])
    cases += gen_unix(rng, n['unix'])
    cases += gen_nested(rng, n['nested'], 3 if q else 4)
    cases += gen_sequences(rng, n['sequence'], 2 if q else 3)
    cases += gen_convert(rng, n['convert'])
    cases += gen_roundtrip(rng, n['roundtrip'])
    cases += gen_prims(rng, n['prims'])
    cases += gen_digitlimit(rng, q)
    return cases


# ---------- judging ----------------------------------------------------------------------------------------------
def case_size(c):
    return len(json.dumps({k: v for k, v in c.items() if not k.startswith('_')}))


def is_exc(o, path):
    return o[0] == 'exc' and o[1][:len(path)] == path


TYPE_TAG = {'bool': ('bool',), 'int': ('int', 'bool'), 'float': ('float',), 'str': ('str',), 'list': ('list',), 'dict': ('dict',)}


def judge_call(o, op, m_out, s_ver, m_outp):
    """one validate call: implementation outcome o (and op of validate_param) against model and specification
    -> (correspondence_ok, property_ok, what, observation)"""
    i_out, i_outp = enc_outcome(o), enc_outcome(op)
    corr = i_out == m_out and i_outp == m_outp
    what = ''
    if not corr:
        what = 'model and implementation disagree'
        if m_out[:3] == [1, 1, 99] or -7 in m_out:
            what = 'oracle table incomplete (harness)'
    obs = ('accepted' if o[0] == 'ok' else 'rejected' if is_exc(o, VEXC) else 'leak:' + o[2]) + \
        '/' + {0: 'outside', 1: 'reject', 2: 'accept'}.get(s_ver[0], '?')
    shown = o[:1] + o[2:] if o[0] == 'exc' else o
    if s_ver[0] == 1 and not is_exc(o, VEXC):
        return corr, False, f'the value does not satisfy the documented predicate, yet the call gave {shown}', obs
    if s_ver[0] == 2 and (o[0] != 'ok' or enc_value(o[1]) != s_ver[1:]):
        return corr, False, f'the value satisfies the documented predicate, the call should return the documented result but gave {shown}', obs
    if s_ver[0] != 0 and op[0] != o[0]:
        return corr, False, 'validate_param and validate disagree', obs
    return corr, True, what, obs


def judge(c, impl, model):
    """-> (correspondence_ok, property_ok, what)"""
    if impl is None or 'error' in impl:
        return False, True, f'implementation worker failed: {impl}'
    k = c['kind']
    if k == 'roundtrip':
        o = impl['out']
        ok = o[0] == 'ok' and enc_value(o[1]) == enc_value(c['x'])
        # oracle hypotheses of C14_convert_inverts_str_float (repr of a float: stripped, lower-case, float(repr(x)) == x)
        hyp = c['x'][0] != 'float' or (impl.get('norm_same') is True and enc_float(impl.get('float_back')) == enc_float(c['x'][1]))
        return hyp, ok, ('' if hyp else 'float(repr(x)) round trip / normal form of repr(x) differs from what the theorem assumes') if ok \
            else f'convert_value(str(x), type(x)) does not give x back: {o}'
    if k == 'validate' and c.get('nomodel'):
        o = impl['out']
        c['_obs'] = 'accepted' if o[0] == 'ok' else 'rejected' if is_exc(o, VEXC) else 'leak:' + o[2]
        ok = (c['_obs'] == 'accepted' and enc_value(o[1]) == enc_value(c['v'])) if c['expect'] == 'accept' else c['_obs'] == 'rejected'
        return True, ok, '' if ok else f'the property text demands {c["expect"]} (ValidatorException for a rejection), the call gave {c["_obs"]}'
    if model is None:
        return False, True, 'model evaluation failed'
    if k == 'validate':
        m_out, s_ver, m_outp = sections(model)
        corr, prop, what, c['_obs'] = judge_call(impl['out'], impl['outp'], m_out, s_ver, m_outp)
        return corr, prop, what
    if k == 'validate_seq':
        secs = sections(model)
        if len(secs) != 3 * len(c['vs']) or len(impl['outs']) != len(c['vs']):
            return False, True, 'harness: wrong number of results for the sequence'
        corr_all, obs = True, []
        for n_, v in enumerate(c['vs']):
            corr, prop, what, ob = judge_call(impl['outs'][n_], impl['outps'][n_], *secs[3 * n_:3 * n_ + 3])
            obs.append(ob)
            corr_all = corr_all and corr
            if not prop:
                c['_obs'] = obs
                c['_failing_call'] = n_
                return corr_all, False, f'call {n_ + 1} of {len(c["vs"])} on the same validator instance (value {json.dumps(v)[:120]}): {what}'
        c['_obs'] = obs
        return corr_all, True, '' if corr_all else 'model and implementation disagree'
    if k == 'convert':
        m_out, s_out = sections(model)
        o = impl['out']
        i_out = enc_outcome(o)
        typed = (o[0] == 'ok' and o[1][0] in TYPE_TAG[c['t']]) or is_exc(o, CONVERR)
        if not typed:
            return i_out == m_out, False, f'neither an instance of {c["t"]} nor ConversionError: {o[:1] + o[2:] if o[0] == "exc" else o}'
        if i_out != s_out:
            return i_out == m_out, False, f'not the documented result of convert_value: {o}'
        corr = i_out == m_out
        return corr, True, '' if corr else ('oracle table incomplete (harness)' if (-7 in m_out or m_out[:3] == [1, 1, 99])
                                            else 'model and implementation disagree')
    # primitives: pure correspondence of the hand-written CPython primitives
    op = c['op']
    if op == 'ws':
        want = [cp for lo, hi in zip(model[0::2], model[1::2]) for cp in range(lo, hi + 1)]
        ok = impl['strip'] == want and impl['isspace_same'] and impl['regex_same']
        return ok, True, '' if ok else 'whitespace set differs from CPython'
    if op == 'num_ws':
        want = [cp for lo, hi in zip(model[0::2], model[1::2]) for cp in range(lo, hi + 1)]
        ok = impl['int'] == want and impl['float'] == want
        return ok, True, '' if ok else 'the whitespace int()/float() skip differs from CPython'
    if op == 'int_str':
        # the modelled part of int(str): int_of_canonical (digit limit included).  Where it answers it must agree with CPython;
        # on strings over whitespace / ASCII digits / '-' (closed=True) int() reads nothing else, so there it must also answer
        r = impl['r']
        if model[0] == 1:
            ok = r[0] == 'ok' and [1] + enc_Z(int(r[1], 16) if 'x' in r[1] else int(r[1])) == model
        elif model[0] == 2:
            ok = r[0] == 'exc' and [2, len(r[1])] + r[1] == model
        else:
            ok = not (c.get('closed') and r[0] == 'ok')
        return ok, True, '' if ok else 'the modelled part of int(str) differs from CPython'
    if op == 'show':
        r = impl['r']
        ok = model == ([0] + r[1] if r[0] == 'ok' else [1, len(r[1])] + r[1])
        return ok, True, '' if ok else 'str(int) differs from CPython'
    if op == 'strip':
        ok = impl['r'] == model
    elif op == 'parse':
        r = impl['r']
        # parse_dec recognises a subset of what int() reads; where it answers, it must agree
        ok = (model[0] == 0) or (r[0] == 'ok' and [1] + enc_Z(int(r[1])) == model)
        s = ''.join(map(chr, c['s']))
        canonical = len(s) > 0 and (s.isdigit() or (s[0] == '-' and s[1:].isdigit() and len(s) > 1)) and s.isascii()
        ok = ok and (model[0] == 1) == canonical
    elif op == 'float_of_int':
        r = impl['r']
        ok = model == ([0] + enc_float(r[1]) if r[0] == 'ok' else [1, len(r[1])] + r[1])
    elif op == 'int_of_float':
        r = impl['r']
        ok = model == ([0] + enc_Z(int(r[1])) if r[0] == 'ok' else [1, len(r[1])] + r[1])
    elif op == 'cmp':
        ok = impl['r'] == model
    elif op == 'regex':
        ok = [impl['r']] == model
    elif op == 'email':
        ok = model == [impl['r'], impl['r']]
    elif op == 'ascii_case':
        n = model[1]
        ok = bool(model[0]) == impl['ascii'] and (not impl['ascii'] or (model[2:2 + n] == impl['lower'] and model[2 + n:] == impl['upper']))
    else:
        ok = False
    return ok, True, '' if ok else f'primitive {op} differs from CPython'


def evaluate(ck, cases):
    impl = ck.run_impl('w_validators', cases, timeout=1500)
    idx, terms = [], []
    for i, (c, r) in enumerate(zip(cases, impl)):
        if r is None or 'error' in r:
            continue
        try:
            t = coq_term(c, r)
        except Exception as ex:
            r['error'] = f'cannot render the case for Coq: {ex!r}'
            continue
        if t is not None:
            idx.append(i)
            terms.append(t)
    model = [None] * len(cases)
    if ck.model_ok and terms:
        # terms with thousands of literals (values at the int<->str digit limit) cost coqc a second each: own small shards,
        # evaluated next to the ordinary ones.  The ordinary terms are dealt round-robin to one shard per core so that the
        # expensive streams (big ints in bounds / convert) are spread evenly.
        import threading
        import re as _re
        is_heavy = lambda t: len(t) >= 12000 or _re.search(r'0x[0-9a-f]{3000}', t) is not None
        light = [(i, t) for i, t in zip(idx, terms) if not is_heavy(t)]
        heavy = [(i, t) for i, t in zip(idx, terms) if is_heavy(t)]
        nsh = max(1, min(NPROC, len(light) // 100))
        light = [light[j] for k in range(nsh) for j in range(k, len(light), nsh)]

        def job(part, chunk):
            res = ck.coq_eval(PRE, [t for _, t in part], chunk=chunk, timeout=1500)
            for (i, _), m in zip(part, res):
                model[i] = m
        ths = [threading.Thread(target=job, args=(part, chunk))
               for part, chunk in ((light, max(100, -(-len(light) // nsh))), (heavy, 2)) if part]
        [t.start() for t in ths]
        [t.join() for t in ths]
    return impl, model


def has_huge_int(j):
    if isinstance(j, list):
        if j[:1] == ['int'] and len(j) == 2 and isinstance(j[1], str):
            return abs(pint(j[1])) >= DIGIT_LIMIT
        return any(has_huge_int(x) for x in j)
    if isinstance(j, dict):
        return any(has_huge_int(x) for x in j.values())
    return False


def matcher(finding, case):
    """narrow syntactic predicates of the open findings"""
    m = finding.get('matcher', {})
    if m.get('id') == 'C14-K9-reject-message-digit-limit':
        # a value the documented predicate rejects, a ValueError instead of the ValidatorException, and an int of more than
        # 4300 digits in the value or among the bounds (the message of the rejection has to print it)
        obs = case.get('_obs')
        obs = obs[-1] if isinstance(obs, list) and obs else obs
        vals = [case.get('v')] + list(case.get('vs', []))
        return (case.get('kind') in ('validate', 'validate_seq') and obs == 'leak:ValueError/reject'
                and (any(has_huge_int(x) for x in vals) or has_huge_int(case.get('w'))))
    return False


def run(tier, seed, replay=None):
    ck = Check('C14', tier, seed, UNITS, MODEL, PROPS)
    ck.prepare()
    t_prep = time.time() - ck.t0
    found = [f for f in ck.findings if 'witness' in f]
    witnesses = [dict(f['witness'], stream='known-findings') for f in found]
    cases = load_corpus() + gen_cases(ck.rng, tier, 1) if replay is None else [dict(replay['case'])]
    t1 = time.time()
    impl, model = evaluate(ck, witnesses + cases)      # one batch: the witnesses of the known findings ride along
    w_res = {f['id']: (w, i, m) for f, w, i, m in zip(found, witnesses, impl, model)}
    impl, model = impl[len(witnesses):], model[len(witnesses):]

    def still_fails(f):
        w, i, m = w_res[f['id']]
        corr, prop, what = judge(w, i, m)
        return not prop

    ck.replay_known_findings(still_fails)
    hist, kinds, outcomes, disagreements = {}, {}, {}, {}

    def consume(cases, impl, model):
        for c, i, m in zip(cases, impl, model):
            st = c.get('stream', 'replay')
            hist[st] = hist.get(st, 0) + 1
            corr, prop, what = judge(c, i, m)
            if c['kind'] == 'validate_seq':
                kinds[c['w']['k']] = kinds.get(c['w']['k'], 0) + 1
                oc = 'sequence/' + str(len(c['vs']))
            elif c['kind'] == 'validate':
                kinds[c['w']['k']] = kinds.get(c['w']['k'], 0) + 1
                ver = {0: 'outside-domain', 1: 'reject', 2: 'accept'}.get(sections(m)[1][0], '?') if m else 'no-model'
                oc = ver + '/' + (i['out'][0] if i and 'out' in i else 'lost') + (':' + i['out'][2] if i and 'out' in i and i['out'][0] == 'exc' else '')
            elif c['kind'] == 'convert':
                oc = 'convert:' + c['t'] + '/' + (i['out'][0] if i and 'out' in i else 'lost')
            else:
                oc = c['kind']
            outcomes[oc] = outcomes.get(oc, 0) + 1
            key = json.dumps({k: v for k, v in c.items() if not k.startswith('_') and k != 'stream'}, sort_keys=True)
            ck.note_case(key, nontrivial=(c['kind'] != 'prim'))
            if corr and prop:
                ck.traces_validated += 1
            if not prop:
                if c['kind'] == 'validate_seq':      # shrink: the calls after the failing one are irrelevant
                    c = dict(c, vs=c['vs'][:c['_failing_call'] + 1])
                ck.violation(what, c, stream=st, extra={'impl': {k: v for k, v in (i or {}).items() if k != 'oracles'}, 'model': m},
                             matcher=matcher)
            elif not corr:
                disagreements.setdefault(st, []).append({'case': c, 'impl': i, 'model': m, 'what': what})

    consume(cases, impl, model)
    # a proof / translation obligation is broken and the ordinary volume shows no failing input: search harder - in the quick
    # tier only as far as the time budget (~90 s for the whole run) allows, at the rate the first pass has shown
    if replay is None and ck.scale() > 1 and not ck.violations:
        extra = ck.scale() - 1
        if tier == 'quick':
            spent = max(time.time() - t1, 1.0)
            left = QUICK_BUDGET_S - (time.time() - ck.t0)
            extra = max(0.0, min(extra, 0.8 * left / spent))
        if extra >= 0.25:
            more = gen_cases(ck.rng, tier, extra)
            impl2, model2 = evaluate(ck, more)
            consume(more, impl2, model2)
            cases, impl, model = cases + more, impl + impl2, model + model2
            ck.notes.append(f'search intensified: {len(more)} additional cases (factor {extra:.2f})')
        else:
            ck.notes.append('search not intensified: time budget of the quick tier used up')
    t_eval = time.time() - t1
    ck.violations.sort(key=lambda v: case_size(v['case']))
    for st in sorted(set(hist) | set(disagreements)):
        ds = sorted(disagreements.get(st, []), key=lambda d: case_size(d['case']))
        ck.oblige(f'correspondence:validators/{st}', 'correspondence', not ds,
                  json.dumps(ds[0], default=str)[:1500] if ds else f'{hist.get(st, 0)} cases agree')
    ck.coverage.update({'stream_histogram': hist, 'validator_kind_histogram': kinds, 'outcome_histogram': outcomes,
                        'disagreements': sum(len(v) for v in disagreements.values()),
                        'phase_seconds': {'regenerate+build+proofs': round(t_prep, 1), 'implementation+model evaluation': round(t_eval, 1)},
                        'int_domain': 'all ints; the int<->str digit limit of CPython (4300 digits) is modelled - str(int), int(str) and the '
                                      'messages of the rejections - and exercised by the stream digitlimit through the correspondence'})
    pick = [x for x in zip(cases, impl, model) if x[0]['kind'] != 'prim']
    ck.samples = [{'case': c, 'impl': {k: v for k, v in (i or {}).items() if k != 'oracles'}, 'model': m}
                  for c, i, m in pick[:3] + pick[-3:]]
    ck.assumptions = [
        'stdlib oracles (str of floats/containers/objects, str.lower/upper outside ASCII, int(str) outside the canonical decimals, int(bytes), '
        'float(str), uuid.UUID, datetime.fromisoformat, datetime + timedelta) are measured on the real stdlib per case; the theorems assume '
        'only their documented raise-sets (Proofs/ValidatorsGood.oracles_ok)',
        'values do not override __eq__/__str__/__len__/__iter__/__lt__; Composite/ForEach children are re-iterable sequences',
        'members of an IntEnum are opaque values in the model (in Python they are ints): no case hands a converted IntEnum member on to a '
        'further validator, and the specification makes no claim there (outside-domain)',
        "CPython's int<->str digit limit (4300) is part of the model: str(int), int(str), and the messages of the rejections, which are "
        "f-strings over the value / the bound evaluated before the exception is raised (finding C14-K9 is inside the model)",
        'the float str() round trip: C14_convert_inverts_str_float is stated under the oracle hypotheses "repr(x) is stripped and lower-case and '
        'float(repr(x)) == x"; the stream roundtrip checks these hypotheses and the round trip itself against CPython for every float it draws',
        'Python `re` decides membership in the regular language of the pattern (checked per case against the derivative matcher, '
        'which is proved to decide the language: C14_regex_matcher_correct)',
        'whitespace: str.strip()/isspace()/\\s and the (smaller) set int()/float() skip are compared with CPython over all code points on every run']
    return ck.finish(
        rule='streams corpus (past false alarms), bounds (every bound x include_boundary x values adjacent to the bound: bound, +-1, +-ulp, +-0.0, '
             '+-inf, NaN, huge ints, bools), lengths (limit-1/limit/limit+1 for every Sized kind), notempty (every whitespace class), email (seed '
             'addresses, single edits, random), uuid, enum (IntEnum / Enum x int, float, str, bytes, members), pattern, iso, unix, nested (random '
             'ForEach/Composite trees of depth <= 3 (quick) / 4 with values shaped for the children; one fifth: a Composite with converting '
             'children handed DIRECTLY to ForEach / to another Composite), sequence (ONE validator instance - every kind, also nested - called on a '
             'sequence of values reject/accept/reject..., validate and validate_param alternating, every call judged on its own), convert (value x '
             'target), roundtrip, prims (CPython primitives of the model one by one), digitlimit (ints / digit strings at 4300 / 4301 digits through '
             'convert_value and the model; validators on such ints against the property text alone); distinct = canonical JSON of the case; non-trivial = every case '
             'except the primitive self-checks',
        checker_cmd='make -C coq Props/C14.vo && coqc -Q coq PV coq/Props/C14.v (Print Assumptions under every theorem)',
        trusted_base=['Coq 8.16.1 kernel (coqc; vm_compute for model evaluation and shapes_good)',
                      'translator/t_validators.py (Python ast -> Gen/Validators.v, fail closed)',
                      'Model/ValidatorsBase.v (CPython primitives: strip, whitespace sets, exact int/float comparison, float(int), int(float), len, iteration)',
                      'Model/Validators.v semantics of the validator families over the shapes record; Model/ValidatorsRegex.v',
                      'Spec/ValidatorsSpec.v (the documented predicates, written from the property text)',
                      'harness/w_validators.py, harness/c14.py (correspondence glue, oracle measurement)',
                      'CPython 3.12 stdlib: re, uuid, enum, datetime, int/float parsing'])
