"""C18 - utility decorators are transparent, keep metadata, and have exactly their documented effect.
Proof: coq/Props/C18.v over the wrapper bodies regenerated into Gen/Wrappers.v (translator/t_wrappers.py).
Correspondence `wrappers`: decorated callable vs undecorated twin on generated signatures, argument tuples, callee
outcomes (incl. BaseException subclasses), stacks of 1-3 decorators (every ordered pair), sync and async, captured
stdout/warnings, num_calls, metadata; `classes`: trace_class/timer_class on every member kind x access path;
`metadata`: every decorator of the package x {def, async def}."""
import copy, itertools, json
from lib import *

UNITS = ['Wrappers', 'Pedantic']
MODEL = ['Model/WrapperEval.vo']
PROPS = 'Props/C18.v'
PRE = ('From Coq Require Import List ZArith Bool String.\n'
       'From PV Require Import Base.Exn Model.WrapperSem Spec.WrapperSpec Model.WrapperStack Model.WrapperKw Model.WrapperEval.\n'
       'Import ListNotations.\nOpen Scope string_scope.')

NAMES = ['self', 'p0', 'p1', 'p2', 'p3', 'q0', 'q1', 'q2', 'x0', 'x1', 'x2', 'old0', 'old1', 'old2', 'cls',
         'func', 'args', 'kwargs', 'wrapper', 'f', 'result', 'value', 'other', 'k', 'v', 'return_value', 'decorated_func',
         'call', 'original_result', 'other_func', 'start_time', 'async_wrapper', 'param_dict', 'result_kwargs']
# names the wrappers use themselves (locals, parameters of helpers): a caller may use them as keywords too
COLLIDE = NAMES[15:]
DN = {'trace': 'NTrace', 'timer': 'NTimer', 'count_calls': 'NCountCalls', 'deprecated': 'NDeprecated',
      'trace_if_returns': 'NTraceIfReturns', 'does_same_as_function': 'NDoesSame', 'rename_kwargs': 'NRenameKwargs',
      'overrides': 'NOverrides', 'require_kwargs': 'NRequireKwargs', 'mock': 'NMock', 'unimplemented': 'NUnimplemented'}
FULL = list(DN)
PASS = {'trace', 'timer', 'count_calls', 'deprecated', 'trace_if_returns', 'overrides'}      # unconditionally transparent
KEEPS = {'trace', 'timer', 'trace_if_returns', 'does_same_as_function', 'mock', 'overrides'}   # dedicated coroutine wrapper
ALL_DECOS = ['trace', 'timer', 'count_calls', 'deprecated', 'trace_if_returns', 'does_same_as_function', 'rename_kwargs',
             'overrides', 'require_kwargs', 'mock', 'unimplemented', 'pedantic', 'validate', 'in_subprocess', 'retry']
STATEMENT_WRAPPERS = {'trace', 'timer', 'count_calls', 'deprecated', 'trace_if_returns', 'does_same_as_function', 'rename_kwargs',
                      'require_kwargs', 'mock', 'unimplemented', 'pedantic', 'validate', 'in_subprocess'}
STATEMENT_CORO = {'pedantic', 'validate', 'trace', 'timer', 'trace_if_returns', 'does_same_as_function', 'mock'}
FILTERS = ['always', 'default', 'error', 'ignore', 'once', 'module']
FA = {'always': 'FaAlways', 'default': 'FaDefault', 'error': 'FaError', 'ignore': 'FaIgnore'}
EXC_POOL = [[0, 1], [0, 2], [0, 5], [0, 0, 3], [0, 0], [0, 14], [0, 20], [0, 20, 0], [0, 16, 0], [0, 3, 1],
            [1], [2], [3], [4], [4, 0]]
MEMBER = {'func': 'MFunc', 'static': 'MStatic', 'classm': 'MClassM', 'prop': 'MProp'}
ACCESS = {'inst': 'AInst', 'class': 'AClass', 'subinst': 'ASubInst', 'subclass': 'ASubClass'}


# ---------------------------------------------------------------------------------------------------------
# rendering of cases as Coq terms
# ---------------------------------------------------------------------------------------------------------
def cval(code):
    return 'VNone' if code is None else f'(VObj {code})'


def cexn(path):
    return coq_list([coq_nat(x) for x in path])


def cout(o):
    return f'ORet {cval(o[1])}' if o[0] == 'ret' else f'ORaise {cexn(o[1])}'


def csig(sig):
    pl = coq_list([f'("{n}", {coq_bool(d)})' for n, d in sig['pos']])
    kl = coq_list([f'("{n}", {coq_bool(d)})' for n, d in sig['kwonly']])
    return f'{{| sg_pos := {pl}; sg_varargs := {coq_bool(sig["varargs"])}; sg_kwonly := {kl}; sg_varkw := {coq_bool(sig["varkw"])} |}}'


def cfspec(is_async, sig, outs, tail, named=True):
    return (f'{{| f_iscoro := {coq_bool(is_async)}; f_sig := {csig(sig)}; f_outs := {coq_list([cout(o) for o in outs])}; '
            f'f_tail := {cout(tail)}; f_named := {coq_bool(named)} |}}')


def cbad(c):
    """objects whose __repr__ raises.  case['ideal_repr'] (never sent to the implementation) pretends every repr is harmless.
    (Whether a class's own __repr__ ends up traced - then printing self recurses - is decided in Coq from the regenerated
    skip list of the shortcut: eval_class gets the shortcut's name and the own_repr flag.)"""
    if c.get('ideal_repr'):
        return '[]'
    bad = [(int(k), v) for k, v in sorted((c.get('badrepr') or {}).items(), key=lambda kv: int(kv[0]))]
    if c.get('recv_badrepr'):            # repr of the callable (bound method / partial of it) shows the receiver: code 999
        bad.append((999, c['recv_badrepr']))
    return coq_list([f'({coq_nat(n)}, {cexn(e)})' for n, e in bad])



def all_levels(case):
    """outermost first: the levels added by the second decoration, then the stack"""
    return list(case.get('redeco', [])) + list(case['stack'])


def kw_shape(case, i):
    """what DecoratedFunction(func) can observe when require_kwargs is the level i of all_levels(case): facts about the
    rendered source text and about getfullargspec of the callable it wraps.  The decision taken from them (does the test
    count the receiver) is NOT made here: it is the regenerated Gen/Pedantic.v protocol, see Model/WrapperKw.v.
    case['ideal_kw'] (never sent to the implementation) pretends that the receiver of a method is always recognised."""
    lv = all_levels(case)
    at_lines = len(case['stack']) if case.get('apply', '@') == '@' else 0       # '@' characters before the first def
    rk_text = bool(at_lines) and any(l['d'] == 'require_kwargs' for l in case['stack'])   # '@require_kwargs' in source
    first_self = bool(case.get('method')) and all(l['d'] == 'overrides' for l in lv[i + 1:])  # wraps the def itself
    if case.get('ideal_kw'):
        first_self = bool(case.get('method'))
    return (f'{{| ks_name := "f"; ks_first_self := {coq_bool(first_self)}; ks_star_args := {coq_bool(case["sig"]["varargs"])}; '
            f'ks_staticmethod := false; ks_setter := false; ks_rk_text := {coq_bool(rk_text)}; ks_n_at := {coq_nat(at_lines)} |}}')


def clspec(l, case, i):
    rules = coq_list([f'("{a}", "{b}")' for a, b in l.get('rules', [])])
    return (f'{{| l_name := {DN[l["d"]]}; l_rv := {cval(l.get("rv"))}; l_rules := {rules}; l_shape := {kw_shape(case, i)}; '
            f'l_dir := {coq_bool(bool(l.get("dir", True)))} |}}')


def ccall(c, method):
    a = ([50] if method else []) + list(c['a'])
    return f'({coq_list([cval(x) for x in a])}, {coq_list([f'("{n}", {cval(x)})' for n, x in c["k"]])})'


NO_OTHER = {'async': False, 'sig': {'pos': [], 'varargs': True, 'kwonly': [], 'varkw': True}, 'outs': [], 'tail': ['ret', None]}


def coq_case(c):
    kind = c.get('kind', 'stack')
    if kind == 'meta':
        return f'eval_meta "{c["deco"]}"'
    if kind == 'class':
        sig = class_sig(c)
        f = cfspec(c['async'] and c['member'] != 'prop', sig, c['outs'], c['tail'])
        a = [50 if x == 'inst' else 51 if x == 'subinst' else x for x in c['a']]
        self_ = 51 if c['access'] == 'subinst' else 50
        k = coq_list([f'("{n}", {cval(x)})' for n, x in c["k"]])
        own = coq_bool(c.get('own_repr') == 'repr' and not c.get('ideal_repr'))
        member = coq_bool(c.get('own_repr') == 'calls_member' and not c.get('ideal_repr'))
        return (f'eval_class {cbad(c)} "{c["deco"]}" {own} {member} {DN[c["deco"][:-6]]} {f} {MEMBER[c["member"]]} {ACCESS[c["access"]]} (VObj {self_}) (VCls 0) (VCls 1) '
                f'{coq_list([cval(x) for x in a])} {k}')
    o = c.get('other') or NO_OTHER
    nre = len(c.get('redeco', []))
    named = not c.get('nameless') or bool(c.get('ideal_named'))
    return (f'eval_case {cbad(c)} {coq_list([clspec(l, c, nre + i) for i, l in enumerate(c["stack"])])} '
            f'{cfspec(c["async"], c["sig"], c["outs"], c["tail"], named)} '
            f'{cfspec(o["async"], o["sig"], o["outs"], o["tail"])} {FA[c.get("filter", "default")]} '
            f'{coq_list([ccall(x, c.get("method")) for x in c["calls"]])} '
            f'{coq_list([clspec(l, c, i) for i, l in enumerate(c.get("redeco", []))])} '
            f'{coq_list([ccall(x, c.get("method")) for x in c.get("calls2", [])])}')


def class_sig(c):
    if c['member'] == 'prop':
        return {'pos': [['self', False]], 'varargs': False, 'kwonly': [], 'varkw': False}
    first = {'func': 'self', 'static': None, 'classm': 'cls'}[c['member']]
    s = copy.deepcopy(c['sig'])
    if first:
        s['pos'] = [[first, False]] + s['pos']
    return s


# ---------------------------------------------------------------------------------------------------------
# parsing of the model / spec output
# ---------------------------------------------------------------------------------------------------------
class Cursor:
    def __init__(self, xs):
        self.xs, self.i = xs, 0

    def take(self, n=1):
        r = self.xs[self.i:self.i + n]
        if len(r) != n:
            raise ValueError('short output')
        self.i += n
        return r

    def expect(self, v):
        if self.take()[0] != v:
            raise ValueError(f'expected separator {v} at {self.i - 1}')

    def peek(self):
        return self.xs[self.i] if self.i < len(self.xs) else None


def canon_res(r):
    r = list(r)
    if r[0] == 6 and r[2] >= 5000:
        r[2] = 5000
    return r


def parse_journal(cur, stops):
    out = []
    while cur.peek() is not None and cur.peek() not in stops:
        callee, loglen, ncnt = cur.take(3)
        cnt = cur.take(ncnt)
        na = cur.take()[0]
        a = [cur.take(2) for _ in range(na)]
        nk = cur.take()[0]
        k = []
        for _ in range(nk):
            n, v0, v1 = cur.take(3)
            k.append([n, [v0, v1]])
        out.append({'callee': callee, 'loglen': loglen, 'cnt': cnt, 'a': a, 'k': k})
    return out


def parse_stack_output(xs, c):
    n1, n2 = len(c['calls']), len(c.get('calls2', []))
    k1 = sum(1 for l in c['stack'] if l['d'] == 'count_calls')
    k2 = k1 + sum(1 for l in c.get('redeco', []) if l['d'] == 'count_calls')
    cur = Cursor(xs)
    m = {}
    head = cur.take()[0]
    if head == 9:
        m['deco_error'] = cur.take()[0]
    else:
        m['results'], m['counts'] = [], []
        for _ in range(n1):
            m['results'].append(canon_res(cur.take(3)))
            m['counts'].append(cur.take(k1))
        cur.expect(-6)
        for _ in range(n2):
            m['results'].append(canon_res(cur.take(3)))
            m['counts'].append(cur.take(k2))
        cur.expect(-1)
        m['journal'] = parse_journal(cur, (-2,))
        cur.expect(-2)
        ev = []
        while cur.peek() != -3:
            ev.append(cur.take()[0])
        m['events'] = [e for e in ev if e < 1000]
        cur.expect(-3)
        m['filter_after'] = cur.take()[0]
        cur.expect(-4)
        m['attrs'], m['iscoro'], m['attrs2'], m['iscoro2'] = cur.take(4)
    cur.expect(-5)
    s = {}
    head = cur.take()[0]
    if head == 9:
        s['deco_error'] = cur.take()[0]
    elif head == 1:
        cur.take()
        s['no_claim'] = True
    else:
        s['iscoro'] = cur.take()[0]
        s['results'] = [canon_res(cur.take(3)) for _ in range(n1)]
        cur.expect(-6)
        s['results'] += [canon_res(cur.take(3)) for _ in range(n2)]
        cur.expect(-1)
        s['journal'] = parse_journal(cur, ())
    return m, s


def parse_class_output(xs):
    cur = Cursor(xs)
    sides = []
    for last in (False, False, True):
        reach = cur.take()[0]
        d = {'reach': reach}
        if reach:
            d['result'] = canon_res(cur.take(3))
            cur.expect(-1)
            d['journal'] = parse_journal(cur, (-5,))
        sides.append(d)
        if not last:
            cur.expect(-5)
    return sides


def bind(sig, a, k, base):
    """the bound view of a call that CPython accepts (what the body sees); None when it does not bind"""
    pos, kw = sig['pos'], dict((n, v) for n, v in k)
    if len(a) > len(pos) and not sig['varargs']:
        return None
    named = []
    for i, (n, d) in enumerate(pos):
        if i < len(a):
            if n in kw:
                return None
            v = a[i]
        elif n in kw:
            v = kw.pop(n)
        elif d:
            v = [0, base + i]
        else:
            return None
        named.append([n, v])
    va = a[len(pos):]
    for i, (n, d) in enumerate(sig['kwonly']):
        if n in kw:
            v = kw.pop(n)
        elif d:
            v = [0, base + 10 + i]
        else:
            return None
        named.append([n, v])
    if kw and not sig['varkw']:
        return None
    return [named, va, [[n, v] for n, v in kw.items()]]


def nm(n):
    return NAMES[n] if 0 <= n < len(NAMES) else '?'


def canon_model_journal(j, sigs):
    """model journal (raw call) -> [callee, loglen, cnt, bound view]"""
    out = []
    for e in j:
        sig, base = sigs[e['callee']]
        out.append([e['callee'], e['loglen'], e['cnt'], bind(sig, e['a'], [[nm(n), v] for n, v in e['k']], base)])
    return out


def canon_impl_journal(j):
    return [[e[0], e[1], e[2], [[[nm(n), v] for n, v in e[3]], e[4], [[nm(n), v] for n, v in e[5]]]] for e in j]


def strip_stamps(j):
    return [[e[0], e[3]] for e in j]


# ---------------------------------------------------------------------------------------------------------
# generators
# ---------------------------------------------------------------------------------------------------------
def gen_sig(rng, method=False, rich=True, collide=None):
    """collide: use the wrappers' own local names (func, args, kwargs, result ...) as parameter / keyword names"""
    npos = rng.choice([0, 1, 1, 2, 2, 3])
    ndef = rng.randint(0, npos) if rng.random() < 0.5 else 0
    nkw = rng.choice([0, 0, 1, 2]) if rich else 0
    varargs, varkw = rich and rng.random() < 0.25, rich and rng.random() < 0.3
    collide = rng.random() < 0.35 if collide is None else collide
    pn, qn, extras = ['p%d' % i for i in range(npos)], ['q%d' % i for i in range(nkw)], ['x0', 'x1', 'x2']
    if collide:
        pool = [n for n in COLLIDE if not (n == 'args' and varargs) and not (n == 'kwargs' and varkw)]
        rng.shuffle(pool)
        pn, qn, extras = pool[:npos], pool[npos:npos + nkw], pool[npos + nkw:npos + nkw + 3]
        if not method and rng.random() < 0.5:
            extras[0] = rng.choice(['self', 'cls'])
    pos = [[pn[i], i >= npos - ndef] for i in range(npos)]
    return {'pos': ([['self', False]] if method else []) + pos, 'varargs': varargs,
            'kwonly': [[qn[i], rng.random() < 0.5] for i in range(nkw)], 'varkw': varkw, 'extras': extras}


def tok(rng):
    return rng.randint(1, 39)


def gen_call(rng, sig, method, style='valid', keyword_only=False):
    """a call that binds (style valid) or misses by one thing (style near)"""
    pos = sig['pos'][1:] if method else sig['pos']
    npos = 0 if keyword_only else rng.randint(0, len(pos))
    a = [tok(rng) for _ in range(npos)]
    if sig['varargs'] and npos == len(pos) and not keyword_only and rng.random() < 0.5:
        a += [tok(rng) for _ in range(rng.randint(1, 2))]
    k = []
    for i, (n, d) in enumerate(pos):
        if i >= npos and (not d or rng.random() < 0.5):
            k.append([n, tok(rng)])
    for n, d in sig['kwonly']:
        if not d or rng.random() < 0.5:
            k.append([n, tok(rng)])
    if sig['varkw'] and rng.random() < 0.5:
        k += [[n, tok(rng)] for n in sig.get('extras', ['x0', 'x1', 'x2'])[:rng.randint(1, 2)]]
    rng.shuffle(k)
    if style == 'near':
        what = rng.choice(['surplus', 'unknown', 'missing', 'twice'])
        if what == 'surplus':
            a = a + [tok(rng)] * (len(pos) - len(a) + 1)
        elif what == 'unknown':
            k.append([(sig.get('extras', []) + ['x0', 'x1', 'x2'])[2], tok(rng)])
        elif what == 'missing' and k:
            k.pop(rng.randrange(len(k)))
        elif what == 'twice' and a and pos:
            k.append([pos[0][0], tok(rng)])
    return {'a': a, 'k': k}


def gen_out(rng, i, p_raise=0.3):
    if rng.random() < p_raise:
        return ['raise', rng.choice(EXC_POOL)]
    if rng.random() < 0.12:
        return ['ret', None]
    return ['ret', 100 + 10 * rng.randint(0, 8) + rng.randint(0, 9)]


def gen_level(rng, d, sig, method, style):
    l = {'d': d}
    if d in ('trace_if_returns', 'mock'):
        l['rv'] = rng.choice([None, tok(rng), 100 + rng.randint(0, 89)])
    if d == 'rename_kwargs':
        names = [n for n, _ in sig['pos'] if n != 'self'] + [n for n, _ in sig['kwonly']] + [(sig.get('extras') or ['x0'])[0]]
        rules = []
        for j in range(rng.randint(1, 2)):
            rules.append(['old%d' % j, rng.choice(names)])
        if style != 'valid' and rng.random() < 0.4:
            rules.append([rng.choice(names), rng.choice(names)])     # a real parameter name is renamed away
        if rng.random() < 0.15:
            rules.append(['old0', rng.choice(names)])               # two rules for one keyword: the last one counts
        l['rules'] = rules
    if d == 'overrides':
        l['dir'] = False if (style != 'valid' and rng.random() < 0.5) else rng.choice([True, 'inherited'])
    return l


REPR_EXC = [[0, 1], [0, 2], [0, 20], [0, 5], [1], [4]]


def add_bad_repr(rng, case, where=None):
    """give one or two of the objects that travel through the call a __repr__ that raises"""
    if any(l['d'] == 'require_kwargs' for l in all_levels(case)) or case.get('nameless'):
        return          # (the message of PedanticCallWithArgsException formats the arguments too: not modelled)
    calls = list(case['calls']) + list(case.get('calls2', []))
    argc = [x for c in calls for x in c['a'] if isinstance(x, int)] + [kv[1] for c in calls for kv in c['k']]
    resc = [o[1] for o in case['outs'] if o[0] == 'ret' and o[1] is not None]
    if 'other' in case:
        resc += [o[1] for o in case['other']['outs'] if o[0] == 'ret' and o[1] is not None]
    pool = argc if where == 'arg' else resc if where == 'result' else argc + resc
    if pool:
        case['badrepr'] = {str(x): rng.choice(REPR_EXC) for x in rng.sample(pool, min(len(pool), rng.choice([1, 1, 2])))}


def gen_stack_case(rng, names, style, is_async=None, tier='quick', redeco=None, collide=None, sig=None, all_keywords=False,
                   nameless=None, badrepr=None, bound=None):
    """redeco: names of the decorators applied (by call) to the USED callable after the first part of the history;
    nameless: what is decorated is functools.partial(f) / an instance with __call__; badrepr: 'arg' | 'result' | 'any'"""
    if bound is None and nameless is None and sig is None and redeco is None and rng.random() < 0.05:
        bound = rng.choice(['named', 'named', 'partial'])
    if bound:
        # the BOUND METHOD obj.f of an object whose __repr__ raises is decorated by call ('partial': functools.partial of it)
        names = [d for d in names if d not in ('overrides', 'require_kwargs', 'does_same_as_function')] or ['timer']
        redeco = [d for d in (redeco or []) if d not in ('overrides', 'require_kwargs', 'does_same_as_function')]
        nameless = 'partial' if bound == 'partial' else False
    if nameless is None and sig is None and redeco is None and rng.random() < 0.06:
        nameless = rng.choice(['partial', 'partial', 'object'])
    if nameless:
        # require_kwargs and overrides are about named function objects by their own definition (DecoratedFunction accepts
        # functions and methods only; overrides looks the function's NAME up in the base class): outside the domain
        names = [d for d in names if d not in ('overrides', 'require_kwargs')] or ['trace']
        redeco = [d for d in (redeco or []) if d not in ('overrides', 'require_kwargs')]
    method = rng.random() < 0.3 if (sig is None and not nameless) else False
    if bound:
        method = True
    is_async = rng.random() < 0.45 if is_async is None else is_async
    sig = gen_sig(rng, method, collide=collide) if sig is None else sig
    if redeco is None:
        redeco = []
        if rng.random() < 0.25:
            redeco = [rng.choice(['count_calls', 'count_calls'] + [d for d in FULL if d != 'does_same_as_function'])
                      for _ in range(rng.choice([1, 1, 2]))]
    case = {'kind': 'stack', 'stream': style, 'async': is_async, 'method': method, 'sig': sig,
            'apply': '@' if rng.random() < 0.8 else 'call'}
    if bound:
        case['bound'], case['apply'], case['recv_badrepr'] = True, 'call', rng.choice(REPR_EXC)
    if nameless:
        if nameless == 'object':
            case['async'] = is_async = False          # iscoroutinefunction does not look into __call__
        case['nameless'], case['apply'] = nameless, 'call'
    case['stack'] = [gen_level(rng, d, sig, method, style) for d in names]
    if nameless:
        for l in case['stack']:
            if l['d'] == 'overrides':
                l['dir'] = True       # (a missing name is a different question when there is no name at all)
    if redeco:
        case['redeco'] = [gen_level(rng, d, sig, method, 'valid') for d in redeco]
    everything = names + list(redeco)
    listed = [r[0] for l in all_levels(case) for r in l.get('rules', [])]

    def gen_calls(n):
        calls = []
        for _ in range(n):
            kw_only = all_keywords or ('require_kwargs' in everything and not (style != 'valid' and rng.random() < 0.5))
            c = gen_call(rng, sig, method, 'near' if (style == 'near' and rng.random() < 0.5) else 'valid', keyword_only=kw_only)
            if all_keywords and sig['varkw']:
                have = {kv[0] for kv in c['k']}
                c['k'] += [[n2, tok(rng)] for n2 in sig.get('extras', []) if n2 not in have]
            # use a listed keyword: rename one keyword of the call to an alias whose rule maps it back
            for l in all_levels(case):
                if l['d'] == 'rename_kwargs' and rng.random() < (0.5 if style == 'valid' else 0.8):
                    for rule in l['rules']:
                        for kv in c['k']:
                            if kv[0] == rule[1] and rule[0].startswith('old') and not any(k2[0] == rule[0] for k2 in c['k']) \
                                    and rng.random() < 0.7:
                                kv[0] = rule[0]
                                break
            if style != 'valid' and listed and rng.random() < 0.2:
                c['k'].append([rng.choice(listed), tok(rng)])      # possibly colliding after the renaming
                seen = set()
                c['k'] = [kv for kv in c['k'] if not (kv[0] in seen or seen.add(kv[0]))]
            calls.append(c)
        return calls
    ncalls = rng.choice([1, 1, 2, 3, 4] if tier == 'quick' else [1, 2, 3, 5, 8])
    case['calls'] = gen_calls(ncalls)
    n2 = 0
    if redeco:
        n2 = rng.choice([1, 2, 3])
        case['calls2'] = gen_calls(n2)
    case['outs'] = [gen_out(rng, i) for i in range(ncalls + n2)]
    case['tail'] = ['ret', None]
    # make == interesting: trace_if_returns / mock values equal to, identical to, or different from the results
    for l in all_levels(case):
        if l['d'] == 'trace_if_returns' and rng.random() < 0.6:
            rets = [o[1] for o in case['outs'] if o[0] == 'ret' and o[1] is not None]
            if rets:
                r = rng.choice(rets)
                l['rv'] = rng.choice([r, r + 10 if r + 10 < 200 else r - 10])      # same object | equal but distinct
    if 'does_same_as_function' in everything:
        o = {'async': is_async if rng.random() < 0.85 else not is_async, 'sig': sig if rng.random() < 0.8 else gen_sig(rng, method),
             'outs': [], 'tail': ['ret', None]}
        for out in case['outs']:
            mode = rng.choice(['equal', 'equal', 'same', 'differ', 'raise']) if style != 'valid' else rng.choice(['equal', 'equal', 'same'])
            if out[0] == 'raise':
                o['outs'].append(gen_out(rng, 0))
            elif mode == 'same':
                o['outs'].append(list(out))
            elif mode == 'equal':
                o['outs'].append(['ret', None if out[1] is None else (out[1] + 10 if out[1] + 10 < 200 else out[1] - 10)])
            elif mode == 'differ':
                o['outs'].append(['ret', None if out[1] is not None and rng.random() < 0.3 else (out[1] or 100) + 1])
            else:
                o['outs'].append(['raise', rng.choice(EXC_POOL)])
        if style == 'valid':
            o['async'] = is_async
        case['other'] = o
    if 'deprecated' in everything:
        case['filter'] = rng.choice(['default', 'error', 'ignore', 'always'])
    if badrepr or (badrepr is None and not nameless and rng.random() < 0.1):
        add_bad_repr(rng, case, badrepr if badrepr in ('arg', 'result') else None)
    return case


def valid_stack(names):
    return names.count('does_same_as_function') <= 1


def collision_sigs():
    """every local name of the wrappers as a keyword: through **kwargs, and as named parameters"""
    half = len(COLLIDE) // 2
    named = [n for n in COLLIDE if n not in ('args', 'kwargs')]
    return [{'pos': [], 'varargs': False, 'kwonly': [], 'varkw': True, 'extras': list(COLLIDE) + ['self', 'cls']},
            {'pos': [[n, False] for n in named[:4]], 'varargs': False, 'kwonly': [[n, False] for n in named[4:half]],
             'varkw': False, 'extras': []},
            {'pos': [[n, True] for n in named[half:half + 3]], 'varargs': False, 'kwonly': [[n, False] for n in named[half + 3:]],
             'varkw': True, 'extras': ['args', 'kwargs', 'self']}]


def gen_stack_cases(rng, tier, scale):
    cases = []
    # every single decorator and every ordered pair, sync and async, valid and near-miss
    singles = [[d] for d in FULL]
    pairs = [[a, b] for a in FULL for b in FULL if valid_stack([a, b])]
    reps = 1 if tier == 'quick' else 4
    for names in singles * 3 + pairs:
        for is_async in (False, True):
            for style in ('valid', 'near'):
                for _ in range(reps * scale):
                    cases.append(gen_stack_case(rng, names, style, is_async, tier))
    # every decorator called with keywords named like the wrappers' own locals
    for names in singles:
        for is_async in (False, True):
            for sg in collision_sigs():
                for _ in range(scale):
                    cases.append(gen_stack_case(rng, names, 'valid', is_async, tier, redeco=[], sig=copy.deepcopy(sg), all_keywords=True))
    # decoration as an operation inside the history: decorate, call, decorate the used callable again, call
    for names in singles:
        for re in (['count_calls'], ['count_calls', 'timer'], ['trace'], ['deprecated', 'count_calls']):
            for is_async in (False, True):
                for _ in range(scale):
                    cases.append(gen_stack_case(rng, names, 'valid', is_async, tier, redeco=re))
    # messages: values whose __repr__ raises, callables without __name__ / __qualname__, under every decorator
    for names in singles:
        for is_async in (False, True):
            for _ in range(scale):
                for where in ('arg', 'result'):
                    cases.append(gen_stack_case(rng, names, 'valid', is_async, tier, redeco=[], badrepr=where))
                cases.append(gen_stack_case(rng, names, 'valid', is_async, tier, redeco=[], nameless='partial'))
                if names[0] not in ('overrides', 'require_kwargs', 'does_same_as_function'):
                    # a bound method of an object whose __repr__ raises (named: must never be repr'd), and a partial of it
                    cases.append(gen_stack_case(rng, names, 'valid', is_async, tier, redeco=[], bound='named', badrepr=False))
                    cases.append(gen_stack_case(rng, names, 'valid', is_async, tier, redeco=[], bound='partial', badrepr=False))
            for _ in range(scale):
                cases.append(gen_stack_case(rng, names, 'valid', False, tier, redeco=[], nameless='object'))
    n_rand = (1000 if tier == 'quick' else 24000) * scale
    for _ in range(n_rand):
        h = rng.choice([1, 2, 2, 3, 3, 4])
        names = [rng.choice(FULL) for _ in range(h)]
        if not valid_stack(names):
            continue
        u = rng.random()
        style = 'valid' if u < 0.45 else 'near' if u < 0.9 else 'malformed'
        c = gen_stack_case(rng, names, style, None, tier)
        if valid_stack([l['d'] for l in all_levels(c)]):
            cases.append(c)
    return cases


def gen_class_cases(rng, tier, scale):
    cases = []
    reps = (1 if tier == 'quick' else 6) * scale
    for deco in ('trace_class', 'timer_class'):
        for member in ('func', 'static', 'classm', 'prop'):
            for access in ('inst', 'class', 'subinst', 'subclass'):
                for is_async in (False, True):
                    for _ in range(reps):
                        sig = gen_sig(rng, False, rich=rng.random() < 0.5, collide=rng.random() < 0.5)
                        sig['extras'] = [n for n in sig['extras'] if n not in ('self', 'cls')] + ['x0']
                        c = gen_call(rng, sig, False, 'valid' if rng.random() < 0.8 else 'near', keyword_only=rng.random() < 0.4)
                        if member == 'func' and access in ('class', 'subclass'):
                            c['a'] = [rng.choice(['inst', 'subinst'] if access == 'class' else ['subinst'])] + c['a']
                        if member == 'prop':
                            c = {'a': [], 'k': []}
                        cases.append({'kind': 'class', 'stream': 'classes', 'deco': deco, 'member': member, 'access': access,
                                      'async': is_async and member != 'prop', 'sig': sig, 'a': c['a'], 'k': c['k'],
                                      'outs': [gen_out(rng, 0)], 'tail': ['ret', None]})
    for deco in ('trace_class', 'timer_class'):
        for own in ('repr', 'str', 'calls_member'):
            for access in ('inst', 'subinst', 'class'):
                for is_async in (False, True):
                    for _ in range(scale):
                        sig = gen_sig(rng, False, rich=False, collide=False)
                        c = gen_call(rng, sig, False, 'valid')
                        if access == 'class':
                            c['a'] = [rng.choice(['inst', 'subinst'])] + c['a']
                        cases.append({'kind': 'class', 'stream': 'classes', 'deco': deco, 'member': 'func', 'access': access,
                                      'async': is_async, 'sig': sig, 'a': c['a'], 'k': c['k'], 'own_repr': own,
                                      'outs': [gen_out(rng, 0)], 'tail': ['ret', None]})
    return cases


def gen_meta_cases():
    return [{'kind': 'meta', 'stream': 'metadata', 'deco': d, 'async': a} for d in ALL_DECOS for a in (False, True)]


# ---------------------------------------------------------------------------------------------------------
# judging
# ---------------------------------------------------------------------------------------------------------
def size(c):
    if c.get('kind') == 'class':
        return (0, len(c['a']) + len(c['k']), len(c['sig']['pos']))
    if c.get('kind') == 'meta':
        return (0, 0, 0)
    calls = list(c['calls']) + list(c.get('calls2', []))
    return (len(all_levels(c)), len(calls), sum(len(x['a']) + len(x['k']) for x in calls))


def reaches(names, i):
    """every call of the decorated callable reaches level i"""
    return all(d in PASS or d == 'rename_kwargs' for d in names[:i])


STATS = {}


def stat(k):
    STATS[k] = STATS.get(k, 0) + 1


def model_obs(c, m, sigs):
    """the model's prediction in the shape of an observation of the implementation"""
    def meta(attrs, iscoro):
        d = {x: bool(attrs) for x in ('name', 'qualname', 'doc', 'module')}
        d.update({'iscoro': bool(iscoro), 'twin_iscoro': bool(c['async']), 'wrapped': True})
        return d
    return {'results': m['results'], 'counts': m['counts'], 'journal': canon_model_journal(m['journal'], sigs),
            'events': m['events'], 'meta': meta(m['attrs'], m['iscoro']), 'meta2': meta(m['attrs2'], m['iscoro2'])}


def stack_props(c, obs, twin, s, sigs, count_stats=True):
    """the statement on one observation (of the implementation, or of the model)"""
    prop = []
    names = [l['d'] for l in c['stack']]
    names2 = [l['d'] for l in all_levels(c)]
    n1, n2 = len(c['calls']), len(c.get('calls2', []))
    ij = obs['journal']

    def st(k):
        if count_stats:
            stat(k)
    for mm, nn, when in ((obs['meta'], names, ''), (obs['meta2'], names2, ' (after the second decoration)')):
        bad = [x for x in ('name', 'qualname', 'doc', 'module') if not mm[x]]
        if bad:
            prop.append(f'decorated callable lost __{bad[0]}__ of the function it wraps{when}')
        if not mm['wrapped']:
            prop.append(f'__wrapped__ chain does not lead to the decorated function{when}')
        if all(d in KEEPS for d in nn) and mm['twin_iscoro'] and not mm['iscoro']:
            prop.append(f'a coroutine function is no longer a coroutine function after decoration{when}')
        if not mm['twin_iscoro'] and mm['iscoro'] and all(d in FULL for d in nn):
            prop.append(f'a plain function became a coroutine function{when}')
    if 'no_claim' not in s:
        st('stack cases judged against the Coq spec (spec_ok)')
        sj = canon_model_journal(s['journal'], sigs)
        if obs['results'] != s['results']:
            k = next(i for i, (x, y) in enumerate(zip(obs['results'], s['results'])) if x != y)
            who = names if k < n1 else names2
            prop.append(f'call {k}: the caller gets {describe(obs["results"][k])}, the documented effect of {"/".join(who)} is {describe(s["results"][k])}')
        elif strip_stamps(ij) != strip_stamps(sj):
            prop.append(f'body invocations {json.dumps(strip_stamps(ij))[:300]} differ from the documented '
                        f'{json.dumps(strip_stamps(sj))[:300]} (callee 0 = decorated function, 1 = other_func; bound arguments by identity)')
    # relational: decorated vs twin, when every level is transparent on every call of the history
    if transparent_history(c):
        st('stack cases judged decorated-vs-twin (every level transparent on every call)')
        tj = canon_impl_journal(twin['journal'])
        if obs['results'] != twin['results']:
            k = next(i for i, (x, y) in enumerate(zip(obs['results'], twin['results'])) if x != y)
            prop.append(f'call {k}: decorated gives {describe(obs["results"][k])}, the undecorated twin {describe(twin["results"][k])}')
        elif strip_stamps(ij) != strip_stamps(tj):
            prop.append(f'decorated runs the body as {json.dumps(strip_stamps(ij))[:300]}, the twin as '
                        f'{json.dumps(strip_stamps(tj))[:300]}')
    # count_calls: every wrapper object counts the calls it received since it was created
    nre = len(names2) - len(names)
    cpos2 = [i for i, d in enumerate(names2) if d == 'count_calls']          # positions, outermost first
    for col, i in enumerate(cpos2):
        fresh = i < nre                                                        # created by the second decoration
        r1 = (not fresh) and reaches(names, i - nre)
        r2 = reaches(names2, i)
        col1 = col - sum(1 for q in cpos2 if q < nre)                          # column in the phase 1 rows
        if r1:
            st('count_calls histories checked against 1..n')
            got = [row[col1] for row in obs['counts'][:n1]]
            if got != list(range(1, n1 + 1)):
                prop.append(f'count_calls (level {i - nre} of {"/".join(names)}): num_calls after each call is {got}, expected 1..{n1}')
        if n2 and r2 and (fresh or r1):
            st('count_calls histories checked across a second decoration')
            got = [row[col] for row in obs['counts'][n1:]]
            base = 0 if fresh else n1
            if got != list(range(base + 1, base + n2 + 1)):
                prop.append(f'count_calls (level {i} of {"/".join(names2)}, {"created after " + str(n1) + " calls of the callable it wraps" if fresh else "created at the start"}): '
                            f'num_calls after each later call is {got}, expected {base + 1}..{base + n2}')
    d1 = [i for i, d in enumerate(names) if d == 'deprecated']
    d2 = [i for i, d in enumerate(names2) if d == 'deprecated']
    if (d1 or d2) and all(reaches(names, i) for i in d1) and all(reaches(names2, i) for i in d2):
        st('deprecated histories checked for one warning per call')
        got, want = obs['events'].count(2), len(d1) * n1 + len(d2) * n2
        if got != want:
            prop.append(f'deprecated: {got} DeprecationWarnings, expected {want} ({n1} calls through {len(d1)} deprecated level(s)'
                        f'{", then " + str(n2) + " calls through " + str(len(d2)) if n2 else ""}), initial filter {c.get("filter", "default")}')
    body_runs = [e for e in ij if e[0] == 0]
    for d in ('mock', 'unimplemented'):
        if d in names and body_runs:
            prop.append(f'{d}: the body of the decorated function ran')
        elif d in names2 and len(body_runs) > n1:
            prop.append(f'{d}: the body of the decorated function ran after {d} was applied')
    return prop


PENDING = {}        # case key -> (idealisation flag, matcher id, ...): cases whose failure may be a registered defect
K12_ID = 'require_kwargs_applied_by_call_over_a_wrapper_of_a_method'
K13_ID = 'message_formats_a_value_whose_repr_fails'
K13B_ID = 'trace_class_repr_uses_traced_member_or_init_state'
ATTRIBUTE_ERROR, RECURSION_ERROR = 105, 10701


def repr_failure(r):
    """the result is the exception of a failing __repr__: the prepared instance of a value, or the interpreter's RecursionError"""
    return r is not None and r[0] == 6 and (2000 <= r[2] < 3000 or (r[1] == RECURSION_ERROR and r[2] == 5000))



def judge_stack(c, impl, out):
    """-> (correspondence problems, property problems)"""
    corr, prop = [], []
    if impl is None or 'error' in impl or out is None:
        return [f'no result: impl={str(impl)[:300]} model={"-" if out is None else "ok"}'], []
    try:
        m, s = parse_stack_output(out, c)
    except Exception as ex:
        return [f'unparsable model output: {ex}'], []
    twin, dec = impl.get('twin', {}), impl.get('dec', {})
    if 'deco_error' in twin:
        return [f'the undecorated twin does not load: {twin}'], []
    # --- decoration-time behaviour
    if 'deco_error' in dec or 'deco_error' in m:
        if dec.get('deco_error') != m.get('deco_error'):
            corr.append(f'decoration: implementation {dec.get("deco_error")} {dec.get("deco_error_repr", "")}, model {m.get("deco_error")}')
        want = s.get('deco_error')
        if dec.get('deco_error') != want:
            prop.append(f'decoration raises {dec.get("deco_error_repr", "nothing")}, the statement demands '
                        f'{"PedanticOverrideException" if want else "no exception"} (overrides raises iff the base class lacks the name)')
        stat('decoration-time outcomes (overrides)')
        return corr, prop
    if 'redeco_error' in dec:
        return [f'the second decoration raised: {dec["redeco_error"]}'], []
    sigs = {0: (c['sig'], 80), 1: ((c.get('other') or NO_OTHER)['sig'], 60)}
    obs = {'results': dec['results'], 'counts': dec['counts'], 'journal': canon_impl_journal(dec['journal']),
           'events': dec['events'], 'meta': dec['meta'], 'meta2': dec.get('meta2', dec['meta'])}
    mo = model_obs(c, m, sigs)
    # --- correspondence: implementation vs model
    flat = lambda o: [int(all(mm[x] for x in ('name', 'qualname', 'doc', 'module'))) for mm in (o['meta'], o['meta2'])]
    for what, a, b in (('results', obs['results'], mo['results']),
                       ('num_calls of every count_calls wrapper after each call', obs['counts'], mo['counts']),
                       ('journal of body invocations', obs['journal'], mo['journal']),
                       ('printed lines / warnings', obs['events'], mo['events']),
                       ('warning filter afterwards', dec['filter_after'], m['filter_after']),
                       ('iscoroutinefunction', [int(obs['meta']['iscoro']), int(obs['meta2']['iscoro'])],
                        [int(mo['meta']['iscoro']), int(mo['meta2']['iscoro'])]),
                       ('metadata copied', flat(obs), flat(mo))):
        if a != b:
            corr.append(f'{what}: implementation {json.dumps(a)[:300]} model {json.dumps(b)[:300]}')
    # --- property: implementation vs the statement
    prop = stack_props(c, obs, twin, s, sigs)
    # candidate for the registered require_kwargs defect: the regenerated model reproduces the implementation, some
    # keyword call (nothing positional but the receiver) got PedanticCallWithArgsException
    if prop and not corr and c.get('method') and any(l['d'] == 'require_kwargs' for l in all_levels(c)):
        calls = list(c['calls']) + list(c.get('calls2', []))
        if any(r == [6, 10104, 5000] and not call['a'] for r, call in zip(obs['results'], calls)):
            PENDING[case_key(c)] = ('ideal_kw', K12_ID, twin, sigs)
    # ... for the registered message defects: a value with a failing __repr__ / a callable without __name__ is involved,
    # the model reproduces the implementation, and the caller got exactly that failure
    if prop and not corr and (c.get('badrepr') or c.get('recv_badrepr')) and any(repr_failure(r) for r in obs['results']):
        PENDING[case_key(c)] = ('ideal_repr', K13_ID, twin, sigs)
    return corr, prop


def describe(r):
    if r[0] == 6:
        return f'exception class {r[1]} ({"the scripted instance of invocation %d" % r[2] if r[2] < 5000 else "a fresh instance"})'
    return {0: f'object {r[1]}', 1: 'None', 4: 'an un-awaited coroutine of the function', 5: 'an un-awaited coroutine of a wrapper',
            8: 'an object nobody passed in'}.get(r[0], str(r))


def transparent_history(c):
    calls = list(c['calls']) + list(c.get('calls2', []))
    for i, l in enumerate(all_levels(c)):
        d = l['d']
        if d in PASS:
            if d == 'overrides' and not l.get('dir', True):
                return False
            continue
        if d == 'rename_kwargs':
            listed = {r[0] for r in l['rules']}
            if any(kv[0] in listed for call in calls for kv in call['k']):
                return False
            continue
        if d == 'require_kwargs':
            if any(call['a'] for call in calls):
                return False
            continue
        return False
    return True


def judge_class(c, impl, out):
    corr, prop = [], []
    if impl is None or 'error' in impl or out is None:
        return [f'no result: impl={str(impl)[:300]} model={"-" if out is None else "ok"}'], []
    try:
        md, mo, mideal = parse_class_output(out)
    except Exception as ex:
        return [f'unparsable model output: {ex}'], []
    twin, dec = impl.get('twin', {}), impl.get('dec', {})
    if 'deco_error' in twin or 'deco_error' in dec:
        return [f'class does not load: {twin} {dec}'], []
    sigs = {0: (class_sig(c), 80)}
    for label, side, mm in (('decorated class', dec, md), ('undecorated class', twin, mo)):
        if not mm['reach']:
            if side['result'] is not None:
                corr.append(f'{label}: the access reaches the function, the model says it does not')
            continue
        if side['result'] is None:
            corr.append(f'{label}: the access does not reach the function, the model says it does')
            continue
        if canon_res(side['result']) != mm['result']:
            corr.append(f'{label}: result {side["result"]} model {mm["result"]}')
        ij = strip_stamps(canon_impl_journal(side['journal']))
        mj = strip_stamps(canon_model_journal(mm['journal'], sigs))
        if ij != mj:
            corr.append(f'{label}: body invocations {json.dumps(ij)[:300]} model {json.dumps(mj)[:300]}')
    a, b = dec['result'], twin['result']
    if (a is None) != (b is None) or (a is not None and canon_res(a) != canon_res(b)):
        prop.append(f'{c["deco"]}: {c["member"]} member through {c["access"]}: decorated class gives '
                    f'{describe(a) if a else "no call"}, undecorated class {describe(b) if b else "no call"}')
    elif strip_stamps(canon_impl_journal(dec['journal'])) != strip_stamps(canon_impl_journal(twin['journal'])):
        prop.append(f'{c["deco"]}: {c["member"]} member through {c["access"]}: the function receives '
                    f'{json.dumps(strip_stamps(canon_impl_journal(dec["journal"])))[:250]} instead of '
                    f'{json.dumps(strip_stamps(canon_impl_journal(twin["journal"])))[:250]}')
    # is this exactly the registered defect?  The model (routing of for_all_methods, regenerated) reproduces what the
    # implementation did, and the decorator itself, given the arguments the undecorated class routes, is transparent
    nost = lambda d: (d.get('reach'), d.get('result'), [(e['callee'], e['a'], e['k']) for e in d.get('journal', [])])
    if prop and not corr and nost(mideal) == nost(mo) and nost(md) != nost(mo):
        if c['member'] in ('static', 'classm') and c['access'] in ('inst', 'subinst'):
            EXPLAINED[case_key(c)] = 'for_all_methods_static_or_class_method_through_instance'
        elif c['member'] == 'classm' and c['access'] == 'subclass':
            EXPLAINED[case_key(c)] = 'for_all_methods_classmethod_through_subclass'
    if prop and not corr and (c.get('own_repr') or c.get('badrepr')) and repr_failure(dec['result']) \
            and case_key(c) not in EXPLAINED:
        PENDING[case_key(c)] = ('ideal_repr', K13B_ID if c.get('own_repr') == 'calls_member' else K13_ID, None, None)
    return corr, prop


def judge_meta(c, impl, out):
    corr, prop = [], []
    if impl is None or 'error' in impl or 'deco_error' in impl or out is None:
        return [f'no result: impl={str(impl)[:300]} model={"-" if out is None else "ok"}'], []
    found, all_wrap, attr_t, attr_f, coro_t, coro_f = out[:6]
    in_stmt, in_coro = out[7:9]
    name = c['deco']
    attrs = all(impl[x] for x in ('name', 'qualname', 'doc', 'module'))
    if not found:
        corr.append(f'{name} is not in Gen.Wrappers.all_decos')
        return corr, prop
    m_attr, m_coro = (attr_t, coro_t) if c['async'] else (attr_f, coro_f)
    if int(attrs) != m_attr:
        corr.append(f'{name}/{"async" if c["async"] else "sync"}: metadata preserved {attrs}, model {m_attr}')
    if int(impl['iscoro']) != m_coro:
        corr.append(f'{name}/{"async" if c["async"] else "sync"}: iscoroutinefunction {impl["iscoro"]}, model {m_coro}')
    if in_stmt != int(name in STATEMENT_WRAPPERS) or in_coro != int(name in STATEMENT_CORO):
        corr.append(f'{name}: Spec lists differ from the harness lists')
    if name in STATEMENT_WRAPPERS or name in ('overrides', 'retry'):
        bad = [x for x in ('name', 'qualname', 'doc', 'module') if not impl[x]]
        if bad:
            prop.append(f'@{name} on {"an async def" if c["async"] else "a def"}: __{bad[0]}__ is not preserved')
        if name != 'overrides' and not impl['wrapped']:
            prop.append(f'@{name} on {"an async def" if c["async"] else "a def"}: no __wrapped__ leading to the function')
    if name in STATEMENT_CORO and c['async'] and not impl['iscoro']:
        prop.append(f'@{name} on an async def: the result is not a coroutine function')
    if name in STATEMENT_CORO and not c['async'] and impl['iscoro']:
        prop.append(f'@{name} on a def: the result became a coroutine function')
    return corr, prop


# ---------------------------------------------------------------------------------------------------------
# known findings
# ---------------------------------------------------------------------------------------------------------
EXPLAINED = {}      # case -> matcher id of the registered defect that fully explains its property failure


def case_key(c):
    return json.dumps({k: v for k, v in c.items() if not k.startswith('ideal_')}, sort_keys=True)


def matcher(f, case):
    """an open finding covers a failing case only if the judge established that the failure IS the registered defect:
    the regenerated model reproduces the implementation's outcome on the case, and with the registered mechanism
    idealised away the property holds on the model (so a lost @wraps, a second invocation ... on the same input is
    not covered)"""
    return isinstance(case, dict) and EXPLAINED.get(case_key(case)) == f.get('matcher', {}).get('id')


def shrink_candidates(c):
    """smaller variants of a stack case: the second decoration dropped, one level removed, one call kept, one keyword dropped"""
    out = []
    if c.get('kind', 'stack') != 'stack':
        return out

    def tidy(d):
        if not any(l['d'] == 'does_same_as_function' for l in all_levels(d)):
            d.pop('other', None)
        if not d.get('redeco'):
            d.pop('redeco', None)
            if not d.get('calls2'):
                d.pop('calls2', None)
        return d
    if c.get('redeco') or c.get('calls2'):
        d = copy.deepcopy(c)
        d.pop('redeco', None)
        d.pop('calls2', None)
        out.append(tidy(d))
        d = copy.deepcopy(c)          # everything decorated at the start instead
        d['calls'] = d['calls'] + d.pop('calls2', [])
        d['stack'] = d.pop('redeco', []) + d['stack']
        d['apply'] = 'call'
        out.append(tidy(d))
    for key in ('redeco', 'stack'):
        if len(c.get(key, [])) > (1 if key == 'stack' else 0):
            for i in range(len(c[key])):
                d = copy.deepcopy(c)
                d[key].pop(i)
                out.append(tidy(d))
    for key in ('calls', 'calls2'):
        if len(c.get(key, [])) > 1:
            off = 0 if key == 'calls' else len(c['calls'])
            for i in range(len(c[key])):
                d = copy.deepcopy(c)
                d[key] = [c[key][i]]
                out.append(d)
                d2 = copy.deepcopy(d)          # ... with the outcome that call had
                d2['outs'] = c['outs'][:off] + [c['outs'][off + i]] + c['outs'][off + len(c[key]):] if off + i < len(c['outs']) else c['outs']
                if 'other' in d2:
                    oo = c['other']['outs']
                    d2['other']['outs'] = oo[:off] + oo[off + i:off + i + 1] + oo[off + len(c[key]):]
                out.append(d2)
    for key in ('calls', 'calls2'):
        for i, call in enumerate(c.get(key, [])):
            for j in range(len(call['k'])):
                d = copy.deepcopy(c)
                d[key][i]['k'].pop(j)
                out.append(d)
    return out


def run(tier, seed, replay=None):
    ck = Check('C18', tier, seed, UNITS, MODEL, PROPS)
    ck.prepare()

    if tier == 'thorough' and getattr(ck, 'props_ok', False):
        rc, out, err, dt = sh(['coqchk', '-silent', '-o', '-Q', '.', 'PV', 'PV.Props.C18'], cwd=COQ, timeout=2400)
        ck.oblige('coqchk:Props.C18', 'proof', rc == 0 and 'Axioms: <none>' in (out + err), (out + err)[-600:] if rc or 'Axioms: <none>' not in (out + err)
                  else f'coqchk -o: no axioms, {dt:.0f}s')

    def evaluate(cases):
        impl = ck.run_impl('w_wrappers', cases, timeout=900)
        model = ck.coq_eval(PRE, [coq_case(c) for c in cases], chunk=150) if ck.model_ok else [None] * len(cases)
        res = []
        for c, i, m in zip(cases, impl, model):
            kind = c.get('kind', 'stack')
            try:
                corr, prop = (judge_stack if kind == 'stack' else judge_class if kind == 'class' else judge_meta)(c, i, m)
            except Exception as ex:
                corr, prop = [f'judge failed: {ex!r}'], []
            res.append((corr, prop, i, m))
        # is a failure exactly a registered defect?  Re-evaluate the MODEL with the registered mechanism idealised away
        # (the receiver of a method always recognised by the keyword-only test / every repr harmless / the callable
        # named): if the statement then holds on the model, the defect is that mechanism and nothing else
        cand = [c for c in cases if case_key(c) in PENDING and case_key(c) not in EXPLAINED]
        if cand and ck.model_ok:
            outs = ck.coq_eval(PRE, [coq_case(dict(c, **{PENDING[case_key(c)][0]: True})) for c in cand], chunk=150)
            for c, out in zip(cand, outs):
                flag, fid, twin, sigs = PENDING.pop(case_key(c))
                try:
                    if c.get('kind') == 'class':
                        md, mo, _ = parse_class_output(out)
                        nost = lambda d: (d.get('reach'), d.get('result'), [(e['callee'], e['a'], e['k']) for e in d.get('journal', [])])
                        if nost(md) == nost(mo):
                            EXPLAINED[case_key(c)] = fid
                    else:
                        mi, si = parse_stack_output(out, c)      # model and documented effect, both idealised
                        if 'deco_error' not in mi and not stack_props(c, model_obs(c, mi, sigs), twin, si, sigs, count_stats=False):
                            EXPLAINED[case_key(c)] = fid
                except Exception:
                    pass
        return res

    def still_fails(f):
        r = evaluate([f['witness']])[0]
        return bool(r[1])
    ck.replay_known_findings(still_fails)

    if replay is not None:
        cases = [replay['case']]
    else:
        scale = ck.scale()
        cases = gen_meta_cases() + gen_class_cases(ck.rng, tier, scale) + gen_stack_cases(ck.rng, tier, scale)
    results = evaluate(cases)
    disagreements, hist = [], {}
    streams = {}
    found = []
    for c, (corr, prop, i, m) in zip(cases, results):
        kind = c.get('kind', 'stack')
        st = c.get('stream', kind)
        streams[st] = streams.get(st, 0) + 1
        if kind == 'stack':
            for l in c['stack']:
                hist[l['d']] = hist.get(l['d'], 0) + 1
            hist['height=%d' % len(c['stack'])] = hist.get('height=%d' % len(c['stack']), 0) + 1
            hist['async' if c['async'] else 'sync'] = hist.get('async' if c['async'] else 'sync', 0) + 1
            for o in c['outs']:
                key = 'out:' + ('return' if o[0] == 'ret' else 'BaseException' if o[1][:1] != [0] else 'Exception')
                hist[key] = hist.get(key, 0) + 1
        key = json.dumps(c, sort_keys=True)
        ck.note_case(key, nontrivial=(kind != 'stack' or (len(c['calls']) >= 1 and (len(c['stack']) >= 2 or c['stream'] != 'valid'
                                                                                    or any(o[0] == 'raise' for o in c['outs'])))))
        if not corr and not prop:
            ck.traces_validated += 1
        if prop:
            found.append((c, prop, i, m))
        elif corr:
            disagreements.append({'case': c, 'what': corr[:3], 'impl': i, 'model': m})
    # shrink the smallest unknown violation of the stack stream
    found.sort(key=lambda t: size(t[0]))
    shrunk = {}
    unknown = [t for t in found if not any(f['status'] == 'open' and matcher(f, t[0]) for f in ck.findings)]
    if unknown and replay is None and unknown[0][0].get('kind', 'stack') == 'stack':
        cur = unknown[0]
        for _ in range(20):
            cands = shrink_candidates(cur[0])
            if not cands:
                break
            rs = evaluate(cands)
            better = sorted([(cc, r[1], r[2], r[3]) for cc, r in zip(cands, rs) if r[1]], key=lambda t: size(t[0]))
            if not better or size(better[0][0]) >= size(cur[0]):
                break
            cur = better[0]
        if cur is not unknown[0]:
            found.insert(0, cur)
    for c, prop, i, m in found:
        ck.violation(prop[0], c, stream=c.get('stream', c.get('kind', 'stack')), extra={'impl': i, 'model': m, 'all': prop[:4]},
                     matcher=matcher)
    for st in sorted(set(c.get('stream', 'stack') for c in cases)):
        ds = [d for d in disagreements if d['case'].get('stream', 'stack') == st]
        ds.sort(key=lambda d: size(d['case']))
        name = 'wrappers' if st in ('valid', 'near', 'malformed') else st
        ck.oblige(f'correspondence:{name}:{st}', 'correspondence', not ds,
                  json.dumps(ds[0], default=str)[:1800] if ds else f'{streams.get(st, 0)} cases agree')
    floor = {'valid': 0.3, 'near': 0.3}
    ck.coverage.update({'streams': streams, 'histogram': hist, 'property_checks': dict(STATS), 'disagreements': len(disagreements),
                        'property_failures_incl_known': len(found)})
    idx = [0, len(cases) // 2, len(cases) - 1] if cases else []
    ck.samples = [{'case': cases[k], 'impl': results[k][2], 'model': results[k][3]} for k in idx]
    ck.assumptions = ['values passed around are fresh lists [n] (builtin ==, no user __eq__), identity observed with `is` inside the worker',
                      'generated functions are defined with @decorator syntax in a module that has a linecache entry (inspect.getsource works)',
                      'coroutines are driven by hand (send(None) until StopIteration); bodies suspend once through a custom awaitable',
                      'StopIteration is not used as a scripted exception (PEP 479 rewrites it inside coroutines)',
                      'at most one count_calls and one does_same_as_function level per stack (the model has one counter and one other function)']
    return ck.finish(
        rule='stack cases: all 11 single decorators and all ordered pairs x {def, async def} x {valid, near-miss} plus random stacks of height 1-4; '
             'each with a generated signature (positional, defaults, *args, keyword-only, **kwargs, methods), a history of 1-4 calls '
             '(1-8 thorough), scripted outcomes (return object / None / Exception and BaseException subclasses); classes: '
             '{trace_class, timer_class} x 4 member kinds x 4 access paths x {def, async def}; metadata: 15 decorators x {def, async def}. '
             'distinct = whole case; non-trivial = class/metadata case, or a stack of height >= 2, a near-miss/malformed case, or a raising outcome',
        checker_cmd='make -C coq Props/C18.vo && coqc -Q coq PV coq/Props/C18.v (Print Assumptions under every theorem)',
        trusted_base=['Coq 8.16.1 kernel (coqc; vm_compute for model evaluation and the finite metadata/translation obligations)',
                      'translator/t_wrappers.py (Python ast -> Gen/Wrappers.v, statement-by-statement compilation of every wrapper body)',
                      'Model/WrapperSem.v (semantics of the effect language: call/await, try/except, warning filter, functools.wraps flag)',
                      'harness/w_wrappers.py, harness/c18.py (rendering of cases, identity codes, CPython argument binding re-implemented for the bound view)',
                      'CPython 3.12: functools.wraps, inspect.iscoroutinefunction, warnings, coroutine protocol'])
