"""Names and codes shared by harness/w_pedantic.py (implementation worker) and harness/p_common.py
(drivers of C03 / C04 / C05): parameter names <-> the `pname` numbers of coq/Base/PyCall.v, exception
class codes (coq/Model/PedanticEval.v: exn_code) and receiver object codes (obj_code)."""

PNAMES = ['self', 'cls', 'a', 'b', 'c', 'd', 'e', 'args', 'kwargs', 'xs', 'kw', 'k', 'm', 'n', 'this', 'x', 'y', 'z', 'v',
          # 19.. : identifiers that the decorators themselves use for their own parameters / locals on the way from the wrapper to
          # the body (FunctionCall(func=, args=, kwargs=, context=), assert_value_matches_type(value=, type_=, err=, type_vars=,
          # key=, msg=), pedantic(func=, require_docstring=), GeneratorWrapper(wrapped=, ...)) and a few everyday names: the NAME of
          # a user's parameter is an input of the call protocol (a keyword of the user travels through **kwargs of every layer)
          'context', 'decorated_func', 'func', 'call', 'value', 'type_', 'err', 'type_vars', 'key', 'msg', 'f', 'wrapped',
          'result', 'require_docstring', 'wrapper', 'params', 'signature', 'name', 'instance', 'expected_type']
VOCAB = list(range(19, len(PNAMES)))          # codes of the names above


def pname(code):
    return PNAMES[code]


def pcode(name):
    return PNAMES.index(name)


pcode_safe = pcode


def exc_code(path):
    """mirror of exn_code: the first class of the list the path derives from"""
    p = list(path)

    def der(c):
        return p[:len(c)] == c
    for c, code in (([0, 0, 0], 1), ([0, 0, 4], 2), ([0, 0, 3], 3), ([0, 0], 4), ([0, 2], 5), ([0, 3, 0], 6), ([0, 20], 20),
                    ([0, 21], 21), ([0, 1], 7), ([0, 7], 8), ([0], 9), ([4], 22), ([3], 23)):
        if der(c):
            return code
    return 10


def path_code(p):
    return 0 if not p else (p[0] + 1 + 7 * path_code(p[1:]))


def obj_code(v):
    if v[0] == 'inst':
        return 2 * v[2]
    if v[0] == 'class' and isinstance(v[1], list):
        return 2 * path_code(v[1][1]) + 1
    return -9
