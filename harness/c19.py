"""C19 - docstring checking at decoration time.

Proof: coq/Props/C19.v over the program regenerated from check_docstring.py / fn_deco_pedantic.py (Gen/Docstring.v).
Correspondence (stream `docstring`): signature + consistent Google-style docstring generated together from ck.rng,
then every single edit of it (drop / add / rename a documented parameter, change one documented type at a random
depth, drop / add / alter / untype the Returns entry, untype a parameter), equivalent respellings, and a malformed
stream.  Decoration is performed by importing a generated module from the run's scratch directory (harness/w_docstring.py).
The model and the specification (Spec/DocstringSpec.v: consistentb) are evaluated inside Coq on the *parsed* docstring as
docstring_parser returns it and on the reified annotations.
Layout `inherit` of the same stream (gen_inherit_cases): a chain of classes B <- (M <-) K; methods of K override documented /
undocumented methods of B with the same or a changed signature and have a faithful docstring of their own / none / an empty
one / the base's docstring kept verbatim / a single edit of their own; K (sometimes B too) is decorated by
pedantic_class_require_docstring, pedantic_require_docstring, pedantic(require_docstring=True) or plain pedantic, every
variant once in DECORATOR form and once in CALL form (the decorator applied after the class object exists: to the class, to
K.m, K.__dict__['m'] or the bound K().m, result rebound or dropped).  The whole chain (every class, all own methods with
their own __doc__) is handed to Model/DocstringClass.v, which selects the functions a decoration reaches; judged by the
specification on the override's OWN signature and OWN docstring (a docstring inherited from the base is not a docstring).  Stream `typing`: the model of typing (eval of documented
type expressions, ==, _update_context) against CPython on random type expressions."""
import ast, json
from lib import *

UNITS = ['Docstring']
MODEL = ['Model/DocstringEval.vo']
PROPS = 'Props/C19.v'
PRE = ('From Coq Require Import List ZArith Bool String.\n'
       'From PV Require Import Base.Exn Model.DocstringTyping Model.Docstring Model.DocstringClass Spec.DocstringSpec Model.DocstringEval.\n'
       'Import ListNotations.\nOpen Scope string_scope.\nOpen Scope list_scope.')

PDOC = [1, 0, 0, 1]
TYPEERR = [1, 0, 2]
OK = [0]
USER = ['Foo', 'Bar', 'Baz', 'Qux']
BUILTIN = ['int', 'str', 'float', 'bool', 'bytes']
UNKNOWN = ['Missing', 'Nope']
GEN1 = ['List', 'Set', 'FrozenSet', 'Type', 'Iterable', 'Sequence', 'list', 'set', 'frozenset', 'type']
GEN2 = ['Dict', 'Mapping', 'dict']
TUP = ['Tuple', 'tuple']
PNAMES = ['a', 'b', 'c', 'd', 'x', 'y', 'data', 'items', 'key', 'value', 'n', 'flag']
FLAGS = ['applies', 'consistent', 'sig_ok', 'scope_ok', 'ctx_covers', 'doc_typed', 'doc_evaluable', 'no_typing_dot', 'doc_wf', 'no_hiding']
# user classes that are CALLED like a non-class export of typing (they shadow it in the module, and in pedantic's eval once collected)
HIDERS = ['List', 'Type', 'Any', 'Sequence', 'Union', 'Optional', 'Dict', 'Tuple']
TYPING_NAMES = {'List', 'Set', 'FrozenSet', 'Type', 'Iterable', 'Sequence', 'Dict', 'Mapping', 'Tuple', 'Callable', 'Union', 'Optional', 'Any'}
_RC = {'alias': {}, 'tp': ''}     # render context: user class -> its name in this module; prefix of typing names in annotations


# ------------------------------------------------------------------------------------------------
# abstract types: ('n', name) ('none',) ('sub', head, [args]) ('tupvar', head, arg) ('call', args|None, ret)
#                 ('union', [members]) ('opt', x) ('pipe', [members])
def rt(t):
    """text of a type expression (user classes under their name in the current module; typing names with the current prefix)"""
    k = t[0]

    def nm(x):
        if x in _RC['alias']:
            return _RC['alias'][x]
        return _RC['tp'] + x if x in TYPING_NAMES else x
    if k == 'n':
        return nm(t[1])
    if k == 'none':
        return 'None'
    if k == 'sub':
        return f'{nm(t[1])}[{", ".join(rt(a) for a in t[2])}]' if t[2] else f'{nm(t[1])}[()]'
    if k == 'tupvar':
        return f'{nm(t[1])}[{rt(t[2])}, ...]'
    if k == 'call':
        return f'{nm("Callable")}[{"..." if t[1] is None else "[" + ", ".join(rt(a) for a in t[1]) + "]"}, {rt(t[2])}]'
    if k == 'union':
        return f'{nm("Union")}[{", ".join(rt(a) for a in t[1])}]'
    if k == 'opt':
        return f'{nm("Optional")}[{rt(t[1])}]'
    if k == 'pipe':
        return ' | '.join(('(' + rt(a) + ')') if a[0] == 'pipe' else rt(a) for a in t[1])
    if k == 'raw':
        return t[1]
    raise ValueError(t)


def rt_ann(t):
    """text of an annotation: typing names through the alias `_t` when the module defines classes that hide them"""
    old = _RC['tp']
    _RC['tp'] = '_t.' if _RC['alias'] else ''
    try:
        return rt(t)
    finally:
        _RC['tp'] = old


def rt_ret(t):
    """text of a Returns type: docstring_parser only recognises `<type>: <text>` when the type has no blank or ends in `]`"""
    s = rt(t)
    return s if (' ' not in s or s.endswith(']')) else s.replace(' ', '')


def children(t):
    k = t[0]
    if k == 'sub':
        return list(t[2])
    if k == 'tupvar':
        return [t[2]]
    if k == 'call':
        return (list(t[1]) if t[1] is not None else []) + [t[2]]
    if k in ('union', 'pipe'):
        return list(t[1])
    if k == 'opt':
        return [t[1]]
    return []


def rebuild(t, ch):
    k = t[0]
    if k == 'sub':
        return ('sub', t[1], list(ch))
    if k == 'tupvar':
        return ('tupvar', t[1], ch[0])
    if k == 'call':
        return ('call', None if t[1] is None else list(ch[:-1]), ch[-1])
    if k in ('union', 'pipe'):
        return (k, list(ch))
    if k == 'opt':
        return ('opt', ch[0])
    return t


def tsize(t):
    return 1 + sum(tsize(c) for c in children(t))


def tdepth(t):
    return 1 + max([tdepth(c) for c in children(t)] + [0])


def paths(t, pre=()):
    out = [pre]
    for i, c in enumerate(children(t)):
        out += paths(c, pre + (i,))
    return out


def get_at(t, p):
    for i in p:
        t = children(t)[i]
    return t


def set_at(t, p, new):
    if not p:
        return new
    ch = children(t)
    ch[p[0]] = set_at(ch[p[0]], p[1:], new)
    return rebuild(t, ch)


def gen_leaf(rng, allow_none=False):
    r = rng.random()
    if r < 0.45:
        return ('n', rng.choice(BUILTIN))
    if r < 0.85:
        return ('n', rng.choice(USER))
    if r < 0.92:
        return ('n', 'Any')
    if r < 0.95 and allow_none:
        return ('none',)
    if r < 0.97:
        return ('n', rng.choice(['List', 'Dict', 'list', 'dict', 'tuple', 'object']))
    return ('n', rng.choice(BUILTIN + USER))


def distinct(ms):
    seen, out = set(), []
    for m in ms:
        if rt(m) not in seen:
            seen.add(rt(m)); out.append(m)
    return out


def gen_type(rng, depth, pipes=True):
    if depth <= 0 or rng.random() < 0.3:
        return gen_leaf(rng)
    r = rng.random()
    if r < 0.28:
        return ('sub', rng.choice(GEN1), [gen_type(rng, depth - 1, pipes)])
    if r < 0.40:
        return ('sub', rng.choice(GEN2), [gen_type(rng, depth - 1, pipes), gen_type(rng, depth - 1, pipes)])
    if r < 0.50:
        return ('sub', rng.choice(TUP), [gen_type(rng, depth - 1, pipes) for _ in range(rng.choice([0, 1, 2, 2, 3]))])
    if r < 0.57:
        return ('tupvar', rng.choice(TUP), gen_type(rng, depth - 1, pipes))
    if r < 0.67:
        return ('call', None if rng.random() < 0.25 else [gen_type(rng, depth - 1, pipes) for _ in range(rng.choice([0, 1, 2]))],
                gen_leaf(rng, True) if rng.random() < 0.5 else gen_type(rng, depth - 1, pipes))
    if r < 0.80:
        return ('opt', gen_type(rng, depth - 1, pipes))
    ms = distinct([gen_type(rng, depth - 1, pipes) for _ in range(rng.choice([2, 2, 3]))] + ([('none',)] if rng.random() < 0.3 else []))
    if len(ms) < 2:
        ms = distinct(ms + [('n', 'int'), ('n', 'str')])[:2]
    if pipes and r > 0.90:
        return ('pipe', ms)
    return ('union', ms)


def respell(rng, t):
    """a type expression with the same denotation, spelled differently"""
    ch = [respell(rng, c) for c in children(t)]
    t = rebuild(t, ch)
    r = rng.random()
    if t[0] == 'opt' and r < 0.6:
        x = t[1]
        if x[0] == 'none':
            return t
        return rng.choice([('union', [x, ('none',)]), ('union', [('none',), x]), ('pipe', [x, ('none',)]), ('pipe', [('none',), x])])
    if t[0] == 'union' and r < 0.6:
        ms = list(t[1])
        c = rng.random()
        if c < 0.4:
            rng.shuffle(ms)
            return ('union', ms)
        if c < 0.6:
            return ('union', ms + [rng.choice(ms)])
        if c < 0.8 and len(ms) >= 3:
            return ('union', [('union', ms[:2])] + ms[2:])
        if len([m for m in ms if m[0] == 'none']) <= 1:
            return ('pipe', ms)
    if t[0] == 'pipe' and r < 0.5:
        ms = list(t[1])
        rng.shuffle(ms)
        return rng.choice([('union', ms), ('pipe', ms)])
    return t


def mutate_type(rng, t):
    """replace / alter one sub-expression at a random depth (the denotation usually changes; the oracle decides)"""
    ps = paths(t)
    # prefer deep positions: weight by depth + 1
    p = rng.choices(ps, weights=[len(q) + 1 for q in ps])[0]
    old = get_at(t, p)
    k = old[0]
    opts = []
    if k == 'n':
        pool = [x for x in BUILTIN + USER if x != old[1]]
        opts += [('n', rng.choice(pool))] * 4 + [('n', rng.choice(UNKNOWN))]
        opts += [('opt', old), ('sub', 'List', [old])]
    if k == 'none':
        opts += [('n', 'int'), ('n', 'NoneType')]
    if k == 'sub':
        alt = {'List': ['Set', 'list', 'Sequence'], 'Set': ['List', 'FrozenSet', 'set'], 'FrozenSet': ['Set', 'frozenset'],
               'Type': ['type', 'List'], 'Iterable': ['Sequence', 'List'], 'Sequence': ['Iterable', 'List'],
               'list': ['List', 'set'], 'set': ['Set', 'list'], 'frozenset': ['FrozenSet', 'set'], 'type': ['Type', 'list'],
               'Dict': ['Mapping', 'dict'], 'Mapping': ['Dict', 'dict'], 'dict': ['Dict', 'Mapping'],
               'Tuple': ['tuple'], 'tuple': ['Tuple']}
        opts += [('sub', rng.choice(alt[old[1]]), old[2])] * 3
        if old[2]:
            opts += [old[2][0], ('opt', old)]
        if old[1] in TUP:
            opts += [('sub', old[1], old[2] + [('n', 'int')])]
            if len(old[2]) == 1:
                opts += [('tupvar', old[1], old[2][0])]
            if len(old[2]) >= 2:
                opts += [('sub', old[1], old[2][:-1]), ('sub', old[1], old[2][::-1])]
        if old[1] in GEN2:
            opts += [('sub', old[1], old[2][::-1])]
    if k == 'tupvar':
        opts += [('sub', old[1], [old[2]]), ('tupvar', 'tuple' if old[1] == 'Tuple' else 'Tuple', old[2]), ('sub', 'List', [old[2]])]
    if k == 'call':
        if old[1] is None:
            opts += [('call', [], old[2]), ('call', [('n', 'int')], old[2])]
        else:
            opts += [('call', None, old[2]), ('call', old[1] + [('n', 'int')], old[2])]
            if old[1]:
                opts += [('call', old[1][1:], old[2])]
            if len(old[1]) >= 2:
                opts += [('call', old[1][::-1], old[2])]
        opts += [('call', old[1], ('opt', old[2]))]
    if k == 'opt':
        opts += [old[1]] * 3 + [('union', distinct([old[1], ('n', 'int')]) if rt(old[1]) != 'int' else [old[1], ('n', 'str')])]
    if k in ('union', 'pipe'):
        ms = old[1]
        if len(ms) > 2:
            opts += [(k, ms[1:]), (k, ms[:-1])]
        else:
            opts += [ms[0], ms[1]]
        extra = [x for x in [('n', 'bytes'), ('n', 'Qux'), ('none',)] if rt(x) not in [rt(m) for m in ms]]
        if extra:
            opts += [(k, ms + [extra[0]])] * 2
        opts += [(k, ms[::-1])]      # same denotation
    if not opts:
        opts = [('n', 'int')]
    new = rng.choice(opts)
    return set_at(t, p, new), len(p)


def malform_type(rng, t):
    """something that is not a type at all: eval raises TypeError / SyntaxError / AttributeError"""
    c = rng.random()
    if c < 0.08:
        return ('raw', rt(t) + ' or')
    if c < 0.14:
        return ('raw', 'int.foo')
    if c < 0.2:
        return ('raw', rt(t) + ']')
    if c < 0.35:
        return ('raw', 'Dict[' + rt(t) + ']')
    if c < 0.5:
        return ('raw', 'int[' + rt(t) + ']')
    if c < 0.6:
        return ('raw', 'List[' + rt(t) + '][int]')
    if c < 0.7:
        return ('raw', 'Optional[' + rt(t) + ', int]')
    if c < 0.8:
        return ('raw', 'typing.List[' + rt(t) + ']')
    if c < 0.9:
        return ('raw', 'Union')
    return ('raw', 'List[' + rt(t) + ', ' + rt(t) + ']')


# ------------------------------------------------------------------------------------------------
# signatures and docstrings
def gen_func(rng, name, tier, method=False):
    maxp = 5 if tier == 'quick' else 8
    n = rng.choice([0, 1, 1, 2, 2, 2, 3, 3, 4, maxp])
    depth = rng.choice([0, 1, 1, 2, 2, 3] if tier == 'quick' else [0, 1, 2, 2, 3, 3, 4])
    names = rng.sample(PNAMES, n)
    params = []
    kinds = ['pos'] * n
    if n >= 2 and rng.random() < 0.3:
        # pos..., *args, kwonly..., **kw
        i = rng.randrange(1, n)
        kinds[i] = 'varargs'
        for j in range(i + 1, n):
            kinds[j] = 'kwonly'
        if rng.random() < 0.5:
            kinds[-1] = 'varkw' if kinds[-1] != 'varargs' else 'varargs'
    seen_default = False
    for nm, kd in zip(names, kinds):
        t = ('none',) if rng.random() < 0.02 else gen_type(rng, depth)
        d = False
        if kd == 'pos' and (seen_default or rng.random() < 0.2):
            d = seen_default = True
        if kd == 'kwonly' and rng.random() < 0.3:
            d = True
        params.append({'name': nm, 'kind': kd, 'ann': t, 'default': d})
    r = rng.random()
    ret = 'absent' if r < 0.1 else 'none' if r < 0.3 else gen_type(rng, depth)
    doc_params = [[p['name'], respell(rng, p['ann']) if rng.random() < 0.35 else p['ann']] for p in params]
    if rng.random() < 0.3:
        rng.shuffle(doc_params)
    doc = {'raw': 'text', 'params': doc_params,
           'returns': None if ret in ('absent', 'none') else [respell(rng, ret) if rng.random() < 0.35 else ret]}
    # the kind of `def`: a coroutine function (async def) has the same signature, annotations and __doc__ as the plain function with the
    # same header - the property makes no difference, docstring checking applies to it in the same way
    return {'name': name, 'params': params, 'ret': ret, 'doc': doc, 'method': method, 'async': rng.random() < 0.3}


def render_func(f, deco, indent=''):
    ps = ['self'] if f['method'] else []
    star_done = False
    for p in f['params']:
        a = '' if p['ann'] is None else ': ' + rt_ann(p['ann'])
        if p['kind'] == 'varargs':
            ps.append('*' + p['name'] + a); star_done = True; continue
        if p['kind'] == 'varkw':
            ps.append('**' + p['name'] + a); continue
        if p['kind'] == 'kwonly' and not star_done:
            ps.append('*'); star_done = True
        ps.append(p['name'] + a + (' = None' if p['default'] else ''))
    r = '' if f['ret'] == 'absent' else ' -> None' if f['ret'] == 'none' else ' -> ' + rt_ann(f['ret'])
    lines = [indent + d for d in deco] + [f'{indent}{"async " if f.get("async") else ""}def {f["name"]}({", ".join(ps)}){r}:']
    d = f['doc']
    b = indent + '    '
    if d['raw'] == 'empty':
        lines.append(b + '""""""')
    elif d['raw'] == 'text':
        lines.append(b + f'"""Summary of {f["name"]}.')
        if d['params']:
            lines += ['', b + 'Args:']
            for nm, t in d['params']:
                lines.append(b + '    ' + (f'{nm}: the {nm}' if t is None else f'{nm} ({rt(t)}): the {nm}'))
        if d['returns'] is not None:
            lines += ['', b + d.get('section', 'Returns') + ':']
            if not d['returns']:
                lines.append(b + '    the result')
            else:
                lines.append(b + '    ' + rt_ret(d['returns'][0]) + ': the result')
        lines.append(b + '"""')
    lines.append(b + 'return None')
    return '\n'.join(lines)


HEAD_REAL = 'from typing import *\nfrom pedantic import pedantic, pedantic_require_docstring, pedantic_class_require_docstring\n'
HEAD_TWIN = ('from typing import *\n'
             'def pedantic(func=None, require_docstring=False):\n    return func if func is not None else (lambda f: f)\n'
             'def pedantic_require_docstring(func=None):\n    return func if func is not None else (lambda f: f)\n'
             'def pedantic_class_require_docstring(cls):\n    return cls\n')
DECO = {'require': ['@pedantic_require_docstring'], 'pedantic': ['@pedantic'], 'kw': ['@pedantic(require_docstring=True)']}


CALL = {'require': 'pedantic_require_docstring({x})', 'pedantic': 'pedantic({x})', 'kw': 'pedantic(require_docstring=True)({x})'}
CALL_KW = {'require': 'pedantic_require_docstring(func={x})', 'pedantic': 'pedantic(func={x})', 'kw': 'pedantic({x}, require_docstring=True)'}


def render_inherit_body(c):
    """layout `inherit`: a chain of classes, the last ones decorated - in decorator form, or in call form once the class exists.
    c['classes']: [{'name', 'base', 'decorated', 'form', 'methods'}] in definition order; the methods of a decorated class are
    the entries of c['funcs'] it owns (c['funcs'] is the decoration order), those of a plain class are in 'methods'."""
    mode = c['mode']
    out, calls = [], []
    for k in c['classes']:
        ms = [f for f in c['funcs'] if f['owner'] == k['name']] if k['decorated'] else k['methods']
        body = [f for f in ms if not f.get('inherited')]
        deco_form = k['decorated'] and k['form'] == 'deco'
        if deco_form and mode == 'class':
            out.append('@pedantic_class_require_docstring')
        out.append(f'class {k["name"]}' + (f'({k["base"]})' if k['base'] else '') + ':')
        fdeco = DECO[mode] if deco_form and mode != 'class' else []
        out.append('\n\n'.join(render_func(f, fdeco, '    ') for f in body) if body else '    pass')
        out.append('')
        if k['decorated'] and k['form'] == 'call':
            n = k['name']
            if mode == 'class':
                calls.append((f'{n} = ' if c.get('rebind', True) else '') + f'pedantic_class_require_docstring({n})')
            else:
                for f in ms:
                    x = {'cls': f'{n}.{f["name"]}', 'dict': f'{n}.__dict__[{f["name"]!r}]', 'inst': f'{n}().{f["name"]}'}[c.get('via', 'cls')]
                    stmt = (CALL_KW if c.get('kwstyle') else CALL)[mode].format(x=x)
                    calls.append((f'{n}.{f["name"]} = ' if c.get('rebind', True) and c.get('via', 'cls') != 'inst' else '') + stmt)
    return '\n'.join(out + calls) + '\n'


def render_case(c):
    _RC['alias'] = dict(c.get('alias') or {})
    try:
        names = [_RC['alias'].get(u, u) for u in USER]
        body = ''.join(f'class {u}:\n    pass\n\n' for u in names)
        if c.get('layout') == 'inherit':
            body += render_inherit_body(c)
        elif c['mode'] == 'class':
            body += '@pedantic_class_require_docstring\nclass ' + c['cls_name'] + ':\n'
            body += '\n\n'.join(render_func(f, [], '    ') for f in c['funcs']) + '\n'
        else:
            body += '\n\n'.join(render_func(f, DECO[c['mode']]) for f in c['funcs']) + '\n'
        extra = 'import typing as _t\n' if _RC['alias'] else ''
        c['src'] = extra + HEAD_REAL + '\n' + body
        c['twin'] = extra + HEAD_TWIN + '\n' + body
        c['scope_names'] = names + ['NoneType']
    finally:
        _RC['alias'] = {}
    return c


def fresh_name(rng, used):
    return rng.choice([n for n in PNAMES + ['extra', 'other'] if n not in used])


def edits_of(rng, f, tier):
    """every kind of single edit of the (consistent) docstring of f: list of (kind, new doc, expected, depth)"""
    d = f['doc']
    out = []
    ps = d['params']

    def doc(params=None, returns='keep', raw='text'):
        return {'raw': raw, 'params': [list(p) for p in (ps if params is None else params)],
                'returns': d['returns'] if returns == 'keep' else returns}
    if ps:
        i = rng.randrange(len(ps))
        out.append(('drop_param', doc(ps[:i] + ps[i + 1:]), 'pdoc', 0))
        i = rng.randrange(len(ps))
        new = fresh_name(rng, [p[0] for p in ps])
        out.append(('rename_param', doc(ps[:i] + [[new, ps[i][1]]] + ps[i + 1:]), 'pdoc', 0))
        if len(ps) >= 2:   # rename onto the name of another documented parameter
            i, j = rng.sample(range(len(ps)), 2)
            out.append(('rename_param_clash', doc(ps[:i] + [[ps[j][0], ps[i][1]]] + ps[i + 1:]), 'pdoc', 0))
        i = rng.randrange(len(ps))
        nt, dep = mutate_type(rng, ps[i][1])
        out.append(('change_type', doc(ps[:i] + [[ps[i][0], nt]] + ps[i + 1:]), 'oracle', dep))
        # the last annotated parameter (signature order), deepest position
        last = f['params'][-1]['name']
        i = [p[0] for p in ps].index(last)
        nt, dep = mutate_type(rng, ps[i][1])
        out.append(('change_type_last', doc(ps[:i] + [[ps[i][0], nt]] + ps[i + 1:]), 'oracle', dep))
        i = rng.randrange(len(ps))
        out.append(('untype_param', doc(ps[:i] + [[ps[i][0], None]] + ps[i + 1:]), 'pdoc', 0))
    stars = {p['name']: ('*' if p['kind'] == 'varargs' else '**') for p in f['params'] if p['kind'] in ('varargs', 'varkw')}
    for i, (nm, t) in enumerate(ps):
        if nm in stars:   # the Google form `*args (int)`: documents a parameter called "*args", not the annotated "args"
            out.append(('star_prefixed_name', doc(ps[:i] + [[stars[nm] + nm, t]] + ps[i + 1:]), 'pdoc', 0))
    i = rng.randrange(len(ps) + 1)
    new = fresh_name(rng, [p[0] for p in ps])
    out.append(('add_param', doc(ps[:i] + [[new, gen_type(rng, 1)]] + ps[i:]), 'pdoc', 0))
    if ps:   # a surplus entry that re-uses a documented name
        i = rng.randrange(len(ps))
        out.append(('add_param_duplicate', doc(ps[:i] + [list(ps[i])] + ps[i:]), 'pdoc', 0))
    if d['returns'] is None:
        t = rng.choice([('none',), ('n', 'int'), gen_type(rng, 1)])
        out.append(('add_returns', doc(returns=[t]), 'pdoc', 0))
        if rng.random() < 0.3:
            out.append(('add_returns_untyped', doc(returns=[]), 'pdoc', 0))
    else:
        out.append(('drop_returns', doc(returns=None), 'pdoc', 0))
        nt, dep = mutate_type(rng, d['returns'][0])
        out.append(('alter_returns', doc(returns=[nt]), 'oracle', dep))
        out.append(('untype_returns', doc(returns=[]), 'pdoc', 0))
        # the Returns section rewritten as a Yields section (docstring_parser exposes it through the same Docstring.returns):
        # with the same type (a Yields entry standing in for Returns: outside the property's domain, correspondence only) ...
        out.append(('returns_to_yields_same', dict(doc(), section='Yields'), 'model', 0))
        # ... and with the first type argument of the return annotation (the item type): no entry equals the annotation
        ch = children(f['ret']) if isinstance(f['ret'], tuple) and f['ret'][0] != 'call' else []
        if ch:
            out.append(('returns_to_yields_first_arg', dict(doc(returns=[ch[0]]), section='Yields'), 'oracle', 0))
        if ch and rng.random() < 0.5:
            out.append(('alter_returns_first_arg', doc(returns=[ch[0]]), 'oracle', 0))
    return out


def malformed_of(rng, f):
    d = f['doc']
    ps = d['params']
    out = []

    def doc(params=None, returns='keep', raw='text'):
        return {'raw': raw, 'params': [list(p) for p in (ps if params is None else params)],
                'returns': d['returns'] if returns == 'keep' else returns}
    out.append(('raw_none', doc(raw='none'), 'by-mode', 0))
    out.append(('raw_empty', doc(raw='empty'), 'by-mode', 0))
    out.append(('no_sections', doc(params=[], returns=None), 'oracle', 0))
    if ps:
        i = rng.randrange(len(ps))
        out.append(('malformed_type', doc(ps[:i] + [[ps[i][0], malform_type(rng, ps[i][1])]] + ps[i + 1:]), 'oracle', 0))
    if d['returns']:
        out.append(('malformed_returns', doc(returns=[malform_type(rng, d['returns'][0])]), 'oracle', 0))
    return out


def gen_cases(rng, tier, scale):
    cases = []
    n_sig = int((80 if tier == 'quick' else 1400) * scale)
    for s in range(n_sig):
        r = rng.random()
        mode = 'require' if r < 0.5 else 'pedantic' if r < 0.68 else 'kw' if r < 0.8 else 'class'
        if mode == 'class':
            funcs = [gen_func(rng, nm, tier, method=True) for nm in rng.sample(['run', 'get', 'put', 'make'], rng.choice([1, 2, 3]))]
        else:
            funcs = [gen_func(rng, 'f', tier)]
        base = {'stream': 'docstring', 'mode': mode, 'cls_name': 'K', 'sig': s}
        if rng.random() < 0.15:
            # one or two of the user classes are called like typing exports; annotations spell typing names through `_t.`
            hs = rng.sample(HIDERS, rng.choice([1, 1, 2]))
            base['alias'] = dict(zip(rng.sample(USER, len(hs)), hs))
        cases.append(dict(base, kind='consistent', funcs=funcs, expect='ok', depth=0))
        # the same signature with the docstring respelled (Optional[X] / Union[X, None] / X | None, member order, duplicates,
        # nested unions) and reordered: still consistent
        for _ in range(3):
            fs = []
            for g in funcs:
                ps = [[n, respell(rng, t) if rng.random() < 0.7 else t] for n, t in g['doc']['params']]
                rng.shuffle(ps)
                rs = g['doc']['returns']
                fs.append(dict(g, doc={'raw': 'text', 'params': ps, 'returns': None if rs is None else [respell(rng, rs[0])]}))
            cases.append(dict(base, kind='consistent_respelled', funcs=fs, expect='ok', depth=0))
        k = rng.randrange(len(funcs))
        variants = [(kd, dc, ex, dep, 'near-miss') for kd, dc, ex, dep in edits_of(rng, funcs[k], tier)]
        variants += [(kd, dc, ex, dep, 'malformed') for kd, dc, ex, dep in malformed_of(rng, funcs[k]) if rng.random() < 0.5 or kd.startswith('malformed') or (kd == 'no_sections' and mode == 'pedantic')]
        for kd, dc, ex, dep, sub in variants:
            fs = [dict(g) for g in funcs]
            fs[k] = dict(funcs[k], doc=dc)
            cases.append(dict(base, kind=kd, funcs=fs, expect=ex, depth=dep, sub=sub, edited=k))
    for c in cases:
        render_case(c)
    return cases


# ------------------------------------------------------------------------------------------------
# layout `inherit`: methods of subclasses that override (documented / undocumented) methods of a base class, decorated in
# decorator form and in call form (after the class object exists).  The docstring of a function is ITS OWN __doc__: what a
# base class documents for a method of the same name is not the docstring of the override.
def faithful_doc(rng, params, ret):
    dps = [[p['name'], respell(rng, p['ann']) if rng.random() < 0.3 else p['ann']] for p in params]
    if rng.random() < 0.3:
        rng.shuffle(dps)
    return {'raw': 'text', 'params': dps, 'returns': None if ret in ('absent', 'none') else [ret]}


def vary_signature(rng, f, how):
    """a signature for an override of f: the same one, or f's with one change -> (params, ret)"""
    ps = [dict(p) for p in f['params']]
    ret = f['ret']
    if how == 'retype' and not ps:
        how = 'add'
    if how in ('rename', 'drop') and not ps:
        how = 'ret'
    if how == 'rename':
        i = rng.randrange(len(ps))
        ps[i]['name'] = fresh_name(rng, [p['name'] for p in ps])
    elif how == 'retype':
        i = rng.randrange(len(ps))
        for _ in range(8):
            t = gen_type(rng, rng.choice([0, 1, 2]))
            if rt(t) != rt(ps[i]['ann']):
                break
        else:
            t = ('n', 'bytes') if rt(ps[i]['ann']) != 'bytes' else ('n', 'int')
        ps[i]['ann'] = t
    elif how == 'add':
        ps.insert(0, {'name': fresh_name(rng, [p['name'] for p in ps]), 'kind': 'pos', 'ann': gen_type(rng, 1), 'default': False})
    elif how == 'drop':
        i = rng.randrange(len(ps))
        del ps[i]
    elif how == 'ret':
        ret = gen_type(rng, 1) if ret in ('absent', 'none') else 'none'
    return ps, ret


def gen_inherit_cases(rng, tier, scale):
    cases = []
    n_fam = int((18 if tier == 'quick' else 300) * scale)
    for s in range(n_fam):
        r = rng.random()
        mode = 'class' if r < 0.4 else 'require' if r < 0.65 else 'kw' if r < 0.8 else 'pedantic'
        small = rng.random() < 0.3          # a minimal family: one method with at most one parameter, nothing else in the classes
        names = rng.sample(['run', 'get', 'put', 'make'], 1 if small else rng.choice([1, 2, 2, 3]))
        base_funcs = [dict(gen_func(rng, nm, tier, method=True), owner='B') for nm in names]
        for _ in range(12):
            if not small or len(base_funcs[0]['params']) <= 1:
                break
            base_funcs = [dict(gen_func(rng, names[0], tier, method=True), owner='B')]
        tname = rng.choice(names)
        bt = next(f for f in base_funcs if f['name'] == tname)       # the base method the target override overrides
        # a class between the base and the decorated class: empty, or overriding the target without a docstring (plain)
        middle = None
        if rng.random() < 0.3 and not small:
            ms = []
            if rng.random() < 0.5:
                ms = [dict(bt, owner='M', doc={'raw': 'none', 'params': [], 'returns': None})]
            middle = {'name': 'M', 'base': 'B', 'decorated': False, 'form': 'deco', 'methods': ms}
        # the other methods of the decorated class: overrides of the remaining base methods and new methods, faithfully documented
        others = []
        for f in base_funcs:
            if f['name'] != tname and rng.random() < 0.5:
                ps, ret = vary_signature(rng, f, rng.choice(['same', 'same', 'rename', 'retype', 'add', 'drop', 'ret']))
                others.append(dict(f, owner='K', params=ps, ret=ret, doc=faithful_doc(rng, ps, ret)))
        if rng.random() < 0.3 and not small:
            others.append(dict(gen_func(rng, 'extra', tier, method=True), owner='K'))
        pos = rng.randrange(len(others) + 1)
        how = rng.choice(['rename', 'retype', 'add', 'drop', 'ret'])
        vps, vret = vary_signature(rng, bt, how)
        nodoc = {'raw': 'none', 'params': [], 'returns': None}
        same = dict(bt, owner='K')
        varied = dict(bt, owner='K', params=vps, ret=vret, doc=faithful_doc(rng, vps, vret))
        # (kind, target override, expectation, documentation of the base method or None = as generated)
        variants = [('consistent_override_same_signature', dict(same, doc=faithful_doc(rng, bt['params'], bt['ret'])), 'ok', None),
                    ('consistent_override_' + how, varied, 'ok', None),
                    ('override_without_docstring', dict(same, doc=nodoc), 'by-mode', None),
                    ('override_without_docstring_' + how, dict(varied, doc=nodoc), 'by-mode', None),
                    ('override_keeps_base_docstring_' + how, dict(varied, doc=dict(bt['doc'])), 'oracle', None),
                    ('consistent_override_base_undocumented', dict(same, doc=faithful_doc(rng, bt['params'], bt['ret'])), 'ok', nodoc),
                    ('override_without_docstring_base_undocumented', dict(same, doc=nodoc), 'by-mode', nodoc)]
        tgt = rng.choice([same, varied])
        eds = edits_of(rng, tgt, tier)
        for kd, dc, ex, dep in rng.sample(eds, min(2, len(eds))):
            variants.append(('override_' + kd, dict(tgt, doc=dc), ex, None))
        if rng.random() < 0.5:
            variants.append(('override_empty_docstring', dict(same, doc={'raw': 'empty', 'params': [], 'returns': None}), 'by-mode', None))
        base_decorated = mode == 'class' and rng.random() < 0.3
        via = rng.choice(['cls', 'cls', 'dict', 'inst'])
        kwstyle = rng.random() < 0.3
        rebind = rng.random() < 0.7
        for kd, target, ex, bdoc in variants:
            if rng.random() < 0.5:       # the spelling of the call form varies inside a family too
                via, kwstyle, rebind = rng.choice(['cls', 'cls', 'dict', 'inst']), rng.random() < 0.3, rng.random() < 0.7
            kfuncs = others[:pos] + [target] + others[pos:]
            bfs = [dict(f, doc=bdoc) if (bdoc is not None and f['name'] == tname) else f for f in base_funcs]
            bdec = base_decorated and bdoc is None
            classes = [{'name': 'B', 'base': None, 'decorated': bdec, 'form': 'deco', 'methods': None if bdec else bfs}]
            if middle:
                classes.append(middle)
            for form in ('deco', 'call'):
                cl = classes + [{'name': 'K', 'base': 'M' if middle else 'B', 'decorated': True, 'form': form, 'methods': None}]
                funcs = (bfs if bdec else []) + kfuncs
                c = {'stream': 'docstring', 'layout': 'inherit', 'mode': mode, 'form': form, 'kind': kd, 'via': via, 'kwstyle': kwstyle,
                     'rebind': rebind, 'cls_name': 'K', 'sig': s, 'expect': ex, 'depth': 0, 'sub': 'inherit',
                     'edited': (len(bfs) if bdec else 0) + pos, 'classes': cl, 'funcs': funcs}
                cases.append(c)
        # an attribute K only INHERITS (defined in the plain base B, documented or not), K's own methods faithfully documented:
        #   class decorator - reaches the own dict of K only (for_all_methods: `for attr in cls.__dict__`); whether an undocumented
        #     method K merely inherits should count against K is not something the property states: compared with the model only
        #   function decorator in call form on K.aux - the function object getattr finds is B's, judged with its own docstring
        aux = dict(gen_func(rng, 'aux', tier, method=True), owner='B')
        kown = others[:pos] + [dict(same, doc=faithful_doc(rng, bt['params'], bt['ret']))] + others[pos:]
        for documented in (True, False):
            a = aux if documented else dict(aux, doc=nodoc)
            cl = [{'name': 'B', 'base': None, 'decorated': False, 'form': 'deco', 'methods': base_funcs + [a]}] + ([middle] if middle else [])
            cl = cl + [{'name': 'K', 'base': 'M' if middle else 'B', 'decorated': True, 'form': 'call' if mode != 'class' else rng.choice(['deco', 'call']),
                        'methods': None}]
            c = {'stream': 'docstring', 'layout': 'inherit', 'mode': mode, 'form': cl[-1]['form'],
                 'kind': 'inherited_attribute_' + ('documented' if documented else 'undocumented'), 'via': 'inst' if via == 'inst' else 'cls',
                 'kwstyle': kwstyle, 'rebind': rebind, 'cls_name': 'K', 'sig': s, 'expect': 'by-mode', 'depth': 0, 'sub': 'inherit',
                 'edited': len(kown) if mode != 'class' else 0, 'classes': cl, 'funcs': kown + ([dict(a, owner='K', inherited=True)] if mode != 'class' else [])}
            if mode == 'class' and not documented:
                c['corr_only'] = True
            cases.append(c)
    for c in cases:
        render_case(c)
    return cases


# ------------------------------------------------------------------------------------------------
# typing stream: random type expression texts (valid, near-valid and malformed)
def gen_expr_text(rng, depth):
    r = rng.random()
    if r < 0.55:
        t = gen_type(rng, depth)
        if rng.random() < 0.3:
            t = respell(rng, t)
        if rng.random() < 0.25:
            t, _ = mutate_type(rng, t)
        return rt(t)
    # raw grammar, anything goes
    def g(d):
        c = rng.random()
        if d <= 0 or c < 0.3:
            return rng.choice(['int', 'str', 'None', 'None', '...', 'Foo', 'Bar', 'Any', 'List', 'Union', 'Optional', 'Tuple', 'Callable',
                               'list', 'dict', 'tuple', 'type', 'Missing', 'Dict', 'object', 'Type', 'Set', 'NoneType'])
        if c < 0.6:
            h = rng.choice(['List', 'Dict', 'Union', 'Optional', 'Tuple', 'Callable', 'list', 'dict', 'tuple', 'type', 'Set', 'Type', 'Mapping',
                            'int', 'Foo', 'Any', 'Iterable', 'Sequence', 'FrozenSet', 'frozenset', 'set'])
            k = rng.choice([1, 1, 2, 2, 3, 0])
            if k == 0:
                return h + '[()]'
            return h + '[' + ', '.join(g(d - 1) for _ in range(k)) + ']'
        if c < 0.7:
            return '[' + ', '.join(g(d - 1) for _ in range(rng.choice([0, 1, 2]))) + ']'
        if c < 0.78:
            return '(' + ', '.join(g(d - 1) for _ in range(2)) + ')'
        if c < 0.95:
            return '(' + g(d - 1) + ' | ' + g(d - 1) + ')'
        return g(d - 1) + '[' + g(d - 1) + ']'
    return g(depth)


def gen_typing_cases(rng, tier, scale):
    n = int((1200 if tier == 'quick' else 20000) * scale)
    out = []
    for _ in range(n):
        depth = rng.choice([1, 2, 2, 3] if tier == 'quick' else [1, 2, 3, 3, 4])
        e1 = gen_expr_text(rng, depth)
        c = rng.random()
        e2 = gen_expr_text(rng, depth)
        if c < 0.5:
            # a pair that is likely to be equal: respell / mutate the same type
            t = gen_type(rng, depth)
            e1 = rt(respell(rng, t))
            e2 = rt(respell(rng, t)) if rng.random() < 0.6 else rt(mutate_type(rng, t)[0])
        ctx = [u for u in USER + ['int', 'list'] if rng.random() < 0.6] + [h for h in HIDERS if rng.random() < 0.08]
        out.append({'stream': 'typing', 'ctx': ctx, 'e1': e1, 'e2': e2})
    return out


# ------------------------------------------------------------------------------------------------
# Coq rendering
class OutOfFragment(Exception):
    pass


def cstr(s):
    if any(ord(ch) < 32 or ord(ch) > 126 for ch in s):
        raise OutOfFragment('non printable text')
    return '"' + s.replace('"', '""') + '"'


def cty(j):
    k = j[0]
    if k == 'none':
        return 'TNone'
    if k == 'ell':
        return 'TEllipsis'
    if k == 'any':
        return 'TAny'
    if k == 'cls':
        return f'(TCls {cstr(j[1])})'
    if k == 'bare':
        return f'(TBare {cstr(j[1])})'
    if k in ('union', 'pipe', 'tup', 'lst'):
        return f'({ {"union": "TUnion", "pipe": "TPipe", "tup": "TTup", "lst": "TLst"}[k]} {coq_list([cty(x) for x in j[1]])})'
    if k == 'gen':
        return f'(TGen ({"GTyping" if j[1] == "typing" else "GBuiltin"} {cstr(j[2])}) {coq_list([cty(x) for x in j[3]])})'
    raise OutOfFragment('object outside the vocabulary: ' + str(j[1:])[:60])


def texpr_of(node):
    if isinstance(node, ast.Constant):
        if node.value is None:
            return 'ENone'
        if node.value is Ellipsis:
            return 'EEllipsis'
        raise OutOfFragment('constant ' + repr(node.value)[:30])
    if isinstance(node, ast.Name):
        return f'(EName {cstr(node.id)})'
    if isinstance(node, ast.Subscript):
        return f'(ESub {texpr_of(node.value)} {texpr_of(node.slice)})'
    if isinstance(node, ast.Tuple):
        return f'(ETuple {coq_list([texpr_of(e) for e in node.elts])})'
    if isinstance(node, ast.List):
        return f'(EList {coq_list([texpr_of(e) for e in node.elts])})'
    if isinstance(node, ast.BinOp) and isinstance(node.op, ast.BitOr):
        return f'(EOr {texpr_of(node.left)} {texpr_of(node.right)})'
    if isinstance(node, ast.Attribute) and isinstance(node.value, ast.Name) and (node.value.id == 'typing' or node.attr == 'foo'):
        # `typing` is not a name in any of the namespaces involved (NameError); no object of the vocabulary has an attribute `foo`
        return f'(EAttr (EName {cstr(node.value.id)}) {cstr(node.attr)})'
    raise OutOfFragment('expression node ' + type(node).__name__)


def texpr_of_text(text):
    """the expression eval() would compile (eval strips leading blanks); SyntaxError -> EInvalidSyntax"""
    try:
        tree = ast.parse(text.lstrip(' \t'), mode='eval')
    except SyntaxError:
        return 'EInvalidSyntax'
    except (ValueError, RecursionError, MemoryError) as ex:
        raise OutOfFragment('unparsable: ' + type(ex).__name__)
    return texpr_of(tree.body)


def cdtype(text):
    return f'{{| dt_text := {cstr(text)}; dt_expr := {texpr_of_text(text)} |}}'


def cfcase(require, fn):
    ann = coq_list([f'({cstr(k)}, {cty(v)})' for k, v in fn['ann']])
    d = fn['doc']
    raw = {'none': 'RawNone', 'empty': 'RawEmpty', 'text': 'RawText'}[d['raw']]
    ps = coq_list([f'({cstr(n)}, {"None" if t is None else "Some " + cdtype(t)})' for n, t in d['params']])
    rs = 'None' if d['returns'] is None else f'(Some {coq_list([cdtype(t) for t in d["returns"]])})'
    return (f'{{| f_require := {coq_bool(require)}; f_parser := true; f_ann := {ann}; '
            f'f_doc := {{| d_raw := {raw}; d_params := {ps}; d_returns := {rs} |}} |}}')


def cdoc(d):
    raw = {'none': 'RawNone', 'empty': 'RawEmpty', 'text': 'RawText'}[d['raw']]
    ps = coq_list([f'({cstr(n)}, {"None" if t is None else "Some " + cdtype(t)})' for n, t in d['params']])
    rs = 'None' if d['returns'] is None else f'(Some {coq_list([cdtype(t) for t in d["returns"]])})'
    return f'{{| d_raw := {raw}; d_params := {ps}; d_returns := {rs} |}}'


def cklass(chain, name):
    k = next(x for x in chain if x['name'] == name)
    ms = [f'{{| m_name := {cstr(m["name"])}; m_ann := {coq_list([f"({cstr(a)}, {cty(v)})" for a, v in m["ann"]])}; m_doc := {cdoc(m["doc"])} |}}'
          for m in k['methods']]
    return f'(Klass {coq_list(ms)} {"None" if not k["base"] else "(Some " + cklass(chain, k["base"]) + ")"})'


def coq_chain_case(c, impl):
    """layout `inherit`: the whole chain of classes goes to the model, which selects the decorated functions itself"""
    ds = []
    for k in c['classes']:
        if k['decorated']:
            how = 'None' if c['mode'] == 'class' else f'(Some {coq_list([cstr(f["name"]) for f in c["funcs"] if f["owner"] == k["name"]])})'
            ds.append(f'({cklass(impl["chain"], k["name"])}, {how})')
    return (f'eval_chain_case {coq_list([cstr(u) for u in (c.get("scope_names") or USER + ["NoneType"])])} '
            f'{coq_bool(c["mode"] != "pedantic")} {coq_list(ds)}')


def coq_docstring_case(c, impl):
    if c.get('layout') == 'inherit':
        try:
            return coq_chain_case(c, impl)
        except OutOfFragment:
            raise
        except Exception as ex:
            raise OutOfFragment('chain of classes not reified: ' + repr(ex)[:80])
    require = c['mode'] != 'pedantic'
    return f'eval_case {coq_list([cstr(u) for u in (c.get("scope_names") or USER + ["NoneType"])])} {coq_list([cfcase(require, fn) for fn in impl["funcs"]])}'


def coq_typing_case(c, impl):
    def opt(r):
        return 'None' if r['value'] is None else f'(Some {cty(r["value"])})'
    names = sorted(set(c['ctx'] + USER + BUILTIN + ['NoneType', 'list', 'object']))
    t = f'eval_typing_case {coq_list([cstr(n) for n in c["ctx"]])} {texpr_of_text(c["e1"])} {texpr_of_text(c["e2"])} {opt(impl["e1"])} {opt(impl["e2"])}'
    if impl['e1']['value'] is not None and 'upd' in impl and impl.get('hashable', True):
        t += f' ++ [-4] ++ eval_upd_case {cty(impl["e1"]["value"])} {coq_list([cstr(n) for n in names])}'
    return t, names


# ------------------------------------------------------------------------------------------------
def split_model(m):
    i = m.index(-1)
    whole, rest = m[:i], m[i + 1:]
    funcs = []
    while rest:
        j = rest.index(-2)
        blk, rest = rest[:j], rest[j + 1:]
        funcs.append({'flags': dict(zip(FLAGS, blk[:len(FLAGS)])), 'alone': blk[len(FLAGS):]})
    return whole, funcs


def expected_for(fl, raw, returns_kind=None):
    """what the property demands for one function, from the specification evaluated in Coq:
    'ok' / 'pdoc' / None (outside the quantifier of the property: correspondence only)"""
    if not (fl['sig_ok'] and fl['scope_ok']):
        return None
    if not fl['applies']:
        return 'ok'
    if raw != 'text':
        return 'pdoc'
    if fl['consistent']:
        if returns_kind not in (None, 'returns', 'return'):
            return None      # a Yields entry with the type of the annotation stands in for the Returns entry: not judged
        return 'ok' if fl['no_typing_dot'] else None
    # since eaebe0b a documented type that cannot be evaluated at all (not an expression, wrong number of type arguments ...)
    # is a differently typed entry like any other: PedanticDocstringException is demanded
    return 'pdoc'


def judge_docstring(c, impl, model):
    """-> (corr_problems, violation or None, stats)"""
    corr = []
    if impl is None or 'error' in impl:
        return [f'implementation worker failed: {impl}'], None, {}
    if model is None:
        return ['model evaluation failed'], None, {}
    whole, mf = split_model(model)
    if len(mf) != len(impl['funcs']):
        return ['model / implementation function count differs'], None, {}
    if impl['outcome'] != whole:
        corr.append(f'decoration: implementation {impl["outcome"]} ({impl["exc"]}), model {whole}')
    exps = []
    for fi, fm in zip(impl['funcs'], mf):
        if fi['alone'] != fm['alone']:
            corr.append(f'function {fi["name"]} alone: implementation {fi["alone"]} ({fi["alone_exc"]}), model {fm["alone"]}')
        if bool(fm['flags']['consistent']) != fi['py_consistent']:
            corr.append(f'function {fi["name"]}: specification says consistent={fm["flags"]["consistent"]}, Python says {fi["py_consistent"]}')
        if bool(fm['flags']['doc_evaluable']) != fi['py_evaluable']:
            corr.append(f'function {fi["name"]}: specification says evaluable={fm["flags"]["doc_evaluable"]}, Python says {fi["py_evaluable"]}')
        exps.append(expected_for(fm['flags'], fi['doc']['raw'], fi['doc'].get('returns_kind')))
    flags = [fm['flags'] for fm in mf]
    c['_flags'] = flags
    c['_impl'] = impl['outcome']
    viol = None
    # the decoration (in order) must stop at the first function the property rejects
    demanded = 'ok'
    for e in exps:
        if e is None:
            demanded = None
            break
        if e == 'pdoc':
            demanded = 'pdoc'
            break
    if c.get('corr_only'):
        demanded = None      # the property does not say what is demanded here: implementation against model only
    if demanded is not None:
        want = OK if demanded == 'ok' else PDOC
        if impl['outcome'] != want:
            got = 'no exception' if impl['outcome'] == OK else f'{impl["exc"]}'
            if demanded == 'ok':
                viol = f'decoration of a function whose docstring is consistent with its signature (or to which the check does not apply) raised {got}: {impl["msg"]}'
            else:
                k = min(len(exps), len(impl['funcs'])) - 1
                k = next((j for j, e in enumerate(exps) if e == 'pdoc'), k)
                where = c['kind'] + (f', {c["mode"]} in {"call" if c.get("form") == "call" else "decorator"} form' if c.get('layout') == 'inherit' else '')
                if impl['funcs'][k]['doc']['raw'] != 'text' and c['mode'] != 'pedantic':
                    viol = (f'a docstring is required and function {impl["funcs"][k]["name"]} has none of its own ({where}): '
                            f'decoration raised {got} instead of PedanticDocstringException')
                else:
                    viol = f'docstring inconsistent with the signature ({where}): decoration raised {got} instead of PedanticDocstringException'
    if viol and any(f.get('async') for f in c['funcs']):
        viol += ' [coroutine functions (async def) in the module: ' + ', '.join(f['name'] for f in c['funcs'] if f.get('async')) + ']'
    # self checks of the generator
    gen = None
    edited = mf[c.get('edited', 0)]['flags'] if c['stream'] == 'docstring' and mf and 0 <= c.get('edited', 0) < len(mf) else None
    if c.get('expect') == 'ok' and c['kind'].startswith('consistent') and not c.get('alias') and not all(f['consistent'] for f in flags):
        gen = 'a case generated as consistent is not consistent according to the specification'
    if c.get('expect') == 'pdoc' and not c.get('alias') and edited and edited['consistent']:
        gen = f'edit {c["kind"]} did not make the docstring inconsistent according to the specification'
    return corr, viol, {'demanded': demanded, 'gen': gen}


def intended_roundtrip(c, impl):
    """docstring_parser must return what the generator wrote (otherwise the case is not what it claims to be)"""
    _RC['alias'] = dict(c.get('alias') or {})
    try:
        return _intended_roundtrip(c, impl)
    finally:
        _RC['alias'] = {}


def _intended_roundtrip(c, impl):
    for f, fi in zip(c['funcs'], impl['funcs']):
        d = f['doc']
        want_p = [[n, None if t is None else rt(t)] for n, t in d['params']] if d['raw'] == 'text' else []
        want_r = (None if d['returns'] is None else [rt_ret(t) for t in d['returns']]) if d['raw'] == 'text' else None
        if fi['doc']['params'] != want_p or fi['doc']['returns'] != want_r or fi['doc']['raw'] != d['raw']:
            return f'{fi["doc"]} != intended {[want_p, want_r, d["raw"]]}'
    return None


def judge_typing(c, impl, model, names):
    if impl is None or 'error' in impl:
        return [f'implementation worker failed: {impl}']
    if model is None:
        return ['model evaluation failed']
    probs = []
    m = list(model)
    upd = None
    if -4 in m:
        k = m.index(-4)
        m, upd = m[:k], m[k + 1:]
    i = m.index(-1)
    o1, rest = m[:i], m[i + 1:]
    j = rest.index(-1)
    o2, tail = rest[:j], rest[j + 1:]
    eq12, eq21, same1, same2, wf1, wf2 = tail
    if o1 != impl['e1']['outcome']:
        probs.append(f'eval({c["e1"]!r}): implementation {impl["e1"]["outcome"]} {impl["e1"].get("exc")}, model {o1}')
    elif not same1:
        probs.append(f'eval({c["e1"]!r}): implementation value {impl["e1"]["value"]}, the model computes a different object')
    if o2 != impl['e2']['outcome']:
        probs.append(f'eval({c["e2"]!r}): implementation {impl["e2"]["outcome"]} {impl["e2"].get("exc")}, model {o2}')
    elif not same2:
        probs.append(f'eval({c["e2"]!r}): implementation value {impl["e2"]["value"]}, the model computes a different object')
    if 'eq12' in impl and not probs:
        if [eq12, eq21] != [int(impl['eq12']), int(impl['eq21'])] or impl['ne12'] == impl['eq12']:
            probs.append(f'{c["e1"]!r} == {c["e2"]!r}: implementation {impl["eq12"]}/{impl["eq21"]}, model {eq12}/{eq21}')
    for w, o, e in ((wf1, o1, c['e1']), (wf2, o2, c['e2'])):
        # (C19_vocabulary_is_evaluable assumes a context without classes that hide typing names)
        if w and o not in (OK, [1, 0, 10]) and not set(c['ctx']) & set(HIDERS):
            probs.append(f'well-formed type expression {e!r} raises {o}')
    if upd is not None:
        real = [int(n in impl['upd']) for n in names]
        if real != upd or impl.get('upd_bad'):
            probs.append(f'_update_context({c["e1"]!r}): implementation adds {impl["upd"]} {impl.get("upd_bad")}, model bits {upd} over {names}')
    if 'upd_exc' in impl and impl.get('hashable', True):     # unhashable values (a list inside) are never annotations: not compared
        probs.append(f'_update_context({c["e1"]!r}) raised {impl["upd_exc"]}')
    return probs


# ------------------------------------------------------------------------------------------------
# known findings (all C19 findings are fixed in /repo: d123a44, 2108a61, eaebe0b; the matchers only serve entries that are re-opened)
def matcher(finding, case):
    m = finding.get('matcher', {}).get('id')
    flags = case.get('_flags') or []
    impl = case.get('_impl')
    if m == 'untyped_documented_parameter':
        # a documented parameter without a type; the leak is a TypeError
        untyped = any(not fl['doc_typed'] for fl in flags)
        return bool(untyped and impl == TYPEERR)
    if m == 'late_shadowing_of_typing_name':
        # a class visible to the function is called like a non-class typing export, and an inconsistent docstring is accepted
        return bool(any(not fl['no_hiding'] for fl in flags) and impl == OK)
    if m == 'class_under_pipe_union_not_in_context':
        # an annotation mentions a class under `X | Y` that _update_context has not collected; a consistent docstring is rejected
        return bool(any((not fl['ctx_covers']) and fl['consistent'] for fl in flags) and impl == PDOC)
    return False


def case_size(c):
    return (len(c['funcs']), sum(len(f['params']) for f in c['funcs']), len(c.get('src', '')))


def run(tier, seed, replay=None):
    ck = Check('C19', tier, seed, UNITS, MODEL, PROPS)
    ck.prepare()
    viol_matcher = matcher

    def evaluate(cases):
        """run implementation and model on docstring cases -> list of (case, impl, model, fragment_problem)"""
        impl = ck.run_impl('w_docstring', cases, timeout=900)
        terms, idx, frag = [], [], [None] * len(cases)
        for k, (c, i) in enumerate(zip(cases, impl)):
            if i is None or 'error' in i:
                continue
            try:
                terms.append(coq_docstring_case(c, i)); idx.append(k)
            except OutOfFragment as ex:
                frag[k] = str(ex)
        res = ck.coq_eval(PRE, terms, chunk=150) if ck.model_ok else [None] * len(terms)
        model = [None] * len(cases)
        for k, r in zip(idx, res):
            model[k] = r
        return impl, model, frag

    def still_fails(f):
        c = dict(f['witness'])
        impl, model, frag = evaluate([c])
        corr, viol, _ = judge_docstring(c, impl[0], model[0])
        # a fixed finding has returned as soon as its witness violates the property again, whatever the shape
        return viol is not None and (f['status'] == 'fixed' or matcher(f, c))
    ck.replay_known_findings(still_fails)

    if replay is not None:
        cases = [replay['case']]
        tcases = []
        if cases[0].get('stream') == 'typing':
            tcases, cases = cases, []
    else:
        cases = gen_cases(ck.rng, tier, ck.scale())
        tcases = gen_typing_cases(ck.rng, tier, ck.scale())
        cases += gen_inherit_cases(ck.rng, tier, ck.scale())

    # ---- stream docstring
    impl, model, frag = evaluate(cases) if cases else ([], [], [])
    hist = {'kind': {}, 'mode': {}, 'outcome': {}, 'demanded': {}, 'params': {}, 'edit_depth': {}, 'sub': {}, 'hiding_classes': {},
            'layout': {}, 'inherit_form': {}, 'inherit_demanded': {}, 'def_kind_of_edited_function': {}}
    disagreements, gen_problems, roundtrip, out_of_fragment = [], [], [], 0

    def bump(h, k):
        hist[h][str(k)] = hist[h].get(str(k), 0) + 1
    for c, i, m, fr in zip(cases, impl, model, frag):
        if fr is not None:
            out_of_fragment += 1
            continue
        corr, viol, st = judge_docstring(c, i, m)
        key = json.dumps([c['mode'], c['kind'], c['src']])
        ck.note_case(key, nontrivial=(not c['kind'].startswith('consistent') or sum(len(f['params']) for f in c['funcs']) >= 1))
        bump('kind', c['kind']); bump('mode', c['mode']); bump('sub', c.get('sub', 'valid'))
        bump('layout', c.get('layout', 'flat'))
        ed = c.get('edited', 0)
        bump('def_kind_of_edited_function', (c.get('layout', 'flat') if c['mode'] != 'class' or c.get('layout') else 'class') + '/' + c['mode'] + '/'
             + ('async def' if 0 <= ed < len(c['funcs']) and c['funcs'][ed].get('async') else 'def'))
        if c.get('layout') == 'inherit':
            bump('inherit_form', c['mode'] + '/' + c['form'] + ('' if c['form'] == 'deco' or c['mode'] == 'class' else '/' + c.get('via', 'cls')))
            bump('inherit_demanded', c['kind'].split('_')[0] + ':' + str(st.get('demanded')))
        bump('hiding_classes', ','.join(sorted((c.get('alias') or {}).values())) or '-')
        bump('params', sum(len(f['params']) for f in c['funcs']))
        if c.get('expect') == 'oracle' and c['kind'].startswith(('change_type', 'alter')):
            bump('edit_depth', c.get('depth', 0))
        if i and 'outcome' in i:
            bump('outcome', i.get('exc') or 'accepted')
        bump('demanded', st.get('demanded'))
        if i and 'funcs' in i and replay is None:
            rt_ = intended_roundtrip(c, i)
            if rt_:
                roundtrip.append({'kind': c['kind'], 'what': rt_, 'src': c['src']})
        if st.get('gen'):
            gen_problems.append({'kind': c['kind'], 'what': st['gen'], 'src': c['src']})
        if viol:
            ck.violation(viol, c, stream='docstring', extra={'impl': i, 'model': m, 'class': c['kind'] + ':' + str(i.get('exc'))},
                         matcher=viol_matcher)
        elif corr:
            disagreements.append({'what': corr[0], 'kind': c['kind'], 'src': c['src'], 'impl': i, 'model': m})
        else:
            ck.traces_validated += 1
    ck.violations.sort(key=lambda v: case_size(v['case']))
    disagreements.sort(key=lambda d: len(d['src']))
    if cases:
        ck.oblige('correspondence:docstring', 'correspondence', not disagreements,
                  json.dumps(disagreements[0])[:1500] if disagreements else f'{ck.traces_validated} decorations agree')
    if replay is None:
        ck.oblige('generator:docstring', 'correspondence', not gen_problems and not roundtrip and out_of_fragment == 0,
                  json.dumps((gen_problems + roundtrip)[0])[:1200] if gen_problems or roundtrip else
                  f'{out_of_fragment} cases outside the fragment' if out_of_fragment else
                  'every consistent case is consistent, every structural edit is inconsistent, docstring_parser returns what was written')
        n_dem = sum(v for k, v in hist['demanded'].items() if k in ('ok', 'pdoc'))
        ck.oblige('generator:coverage-floor', 'correspondence', n_dem >= 0.8 * max(1, len(cases)) and hist['demanded'].get('pdoc', 0) >= 0.3 * len(cases) and hist['demanded'].get('ok', 0) >= 0.15 * len(cases),
                  f'{n_dem} of {len(cases)} cases inside the quantifier of the property, {hist["demanded"].get("pdoc", 0)} must be rejected, {hist["demanded"].get("ok", 0)} must be accepted')

    # ---- stream typing
    t_ok, t_dis, t_frag = 0, [], 0
    if tcases:
        timpl = ck.run_impl('w_docstring', tcases, timeout=900)
        terms, meta = [], []
        for c, i in zip(tcases, timpl):
            if i is None or 'error' in i:
                t_dis.append({'case': c, 'what': f'worker failed: {i}'})
                continue
            try:
                t, names = coq_typing_case(c, i)
            except OutOfFragment:
                t_frag += 1
                continue
            terms.append(t); meta.append((c, i, names))
        res = ck.coq_eval(PRE, terms, chunk=150) if ck.model_ok else [None] * len(terms)
        for (c, i, names), m in zip(meta, res):
            ck.note_case(json.dumps(['typing', c['ctx'], c['e1'], c['e2']]), nontrivial=('[' in c['e1'] or '|' in c['e1']))
            probs = judge_typing(c, i, m, names)
            if probs:
                t_dis.append({'case': c, 'what': probs[0], 'impl': i, 'model': m})
            else:
                t_ok += 1
                ck.traces_validated += 1
        t_dis.sort(key=lambda d: len(d['case']['e1']) + len(d['case']['e2']))
        ck.oblige('correspondence:typing', 'correspondence', not t_dis,
                  json.dumps(t_dis[0])[:1200] if t_dis else f'{t_ok} evaluations / comparisons / contexts agree')
        if replay is None:
            ck.oblige('generator:typing', 'correspondence', t_frag <= 0.2 * len(tcases), f'{t_frag} of {len(tcases)} outside the fragment')

    ck.coverage.update({'docstring_cases': len(cases), 'typing_cases': len(tcases), 'histograms': hist,
                        'disagreements': len(disagreements) + len(t_dis), 'typing_outside_fragment': t_frag,
                        'docstring_outside_fragment': out_of_fragment})
    pick = [k for k, c in enumerate(cases) if c['kind'] in ('consistent', 'change_type', 'rename_param')][:3]
    ck.samples = [{'kind': cases[k]['kind'], 'mode': cases[k]['mode'], 'src': cases[k]['src'], 'impl': impl[k], 'model': model[k]} for k in pick]
    ck.assumptions = [
        'class identity is the class name; generated modules define each class once',
        'layout inherit: linear chains of module-level classes (one base each); the docstring of a function is its own __doc__ - '
        'the property speaks of the docstring of the decorated function, not of documentation inherited from a base class',
        'the parsed docstring (docstring_parser.parse) and inspect.getfullargspec(f).annotations are the inputs of the model',
        'documented type texts are turned into expression syntax by Python\'s own ast.parse (what eval compiles)',
        'messages of exceptions are not compared, only classes']
    return ck.finish(
        rule='signature (0..5/8 parameters of all kinds, annotations up to depth 3/4 over typing + builtin generics, Optional/Union/X|Y, Callable, '
             'Tuple[X, ...], user classes) and a consistent Google-style docstring generated together (documented types partly respelled, order '
             'partly shuffled), then each single edit and a malformed stream, decorated by @pedantic_require_docstring / @pedantic / '
             '@pedantic(require_docstring=True) / @pedantic_class_require_docstring; distinct = (mode, kind, module text); non-trivial = an edit, '
             'or a consistent case with at least one parameter. Layout inherit: class chains B <- (M <-) K whose methods override documented / '
             'undocumented base methods (same / changed signature; own faithful docstring, none, empty, the base docstring kept, single edits), '
             'each variant decorated in decorator form and in call form (class object / K.m / K.__dict__[m] / K().m, rebound or not) with the '
             'four decorators. Typing stream: random type expression pairs',
        checker_cmd='make -C coq Props/C19.vo && coqc -Q coq PV coq/Props/C19.v (Print Assumptions under every theorem)',
        trusted_base=['Coq 8.16.1 kernel (coqc; vm_compute for model evaluation)',
                      'translator/t_docstring.py (Python ast -> Gen/Docstring.v) and the statement semantics Model/Docstring.v',
                      'Model/DocstringClass.v: which function objects a class / attribute decoration reaches (own dict, linear chain), '
                      'validated by the inherit layout of the correspondence stream; for_all_methods itself is pinned by a source lock',
                      'Model/DocstringTyping.v: hand-written model of typing objects, ==, eval of documented type expressions (validated by the typing stream only)',
                      'docstring_parser.parse: Google-style text -> (params, returns); the model starts from its result',
                      'harness/w_docstring.py, harness/c19.py: rendering of modules, reification of annotations, ast.parse of documented types',
                      'CPython 3.12: import system, inspect.getfullargspec, eval'])
