import argparse, importlib, json, os, sys
sys.path.insert(0, os.path.dirname(os.path.abspath(__file__)))


def main():
    ap = argparse.ArgumentParser()
    ap.add_argument('prop')
    ap.add_argument('--tier', default=os.environ.get('VERIF_TIER', 'quick'), choices=['quick', 'thorough'])
    ap.add_argument('--replay', default=None)
    a = ap.parse_args()
    seed = int(os.environ.get('VERIF_SEED', '0') or 0)
    mod = importlib.import_module(a.prop.lower())
    replay = json.load(open(a.replay)) if a.replay else None
    sys.exit(mod.run(a.tier, seed, replay))


if __name__ == '__main__':
    main()
