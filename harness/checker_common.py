"""Shared driver of the type-checker properties C01 / C02 / C06 / C08.

One run = regenerate Gen/CheckerTables.v from /repo, build model + proofs of the property, then
streams of generated cases evaluated three ways: implementation (I), model inside Coq (M), spec
`conforms` inside Coq (S).  I vs M = correspondence obligation; I vs S = the property on the
implementation.  Which judgements count as violations depends on the property (PROFILE)."""
import json
from lib import *
import universe as U
import gen_checker as G

UNITS = ['CheckerTables']
MODEL = ['Model/CheckerEval.vo']
PRE = ('From Coq Require Import List ZArith.\nFrom PV Require Import Base.Exn Base.Values Base.Ann Model.CheckerEval.\n'
       'Import ListNotations.')

BARE_T = ['List', 'Dict', 'Set', 'FrozenSet', 'Tuple', 'Type', 'Callable', 'Iterable', 'Sequence']
BARE_B = ['list', 'dict', 'set', 'frozenset', 'tuple', 'type']
OUT_NAMES = {0: 'returned', 1: 'PedanticTypeCheckException', 2: 'PedanticTypeVarMismatchException', 3: 'other PedanticException',
             4: 'non-Pedantic Exception', 5: 'BaseException', 9: 'decoration failed'}

PROFILE = {
    # volumes: (annotations quick, thorough), depth (quick, thorough), zoo sample (quick, thorough; None = all)
    'C01': dict(n=(700, 24000), depth=(4, 7), zoo=(0, 0), bare=False, obs_frac=0.24),
    'C02': dict(n=(700, 24000), depth=(4, 7), zoo=(0, 0), bare=False, obs_frac=0.24),
    'C06': dict(n=(120, 4000), depth=(3, 6), zoo=(0, 0), bare=True, obs_frac=0.05),
    'C08': dict(n=(250, 8000), depth=(4, 7), zoo=(5000, None), bare=True, obs_frac=0.10),
}


def size(v):
    return 1 + sum(size(x) for x in v[1]) if v[0] in ('list', 'tuple', 'set', 'frozenset', 'deque', 'keys', 'values', 'iter') else \
        1 + sum(size(a) + size(b) for a, b in v[1]) if v[0] in ('dict', 'defaultdict', 'ordereddict', 'items') else 1


def reorder_val(v):
    """the same value with every dict / defaultdict built in the opposite insertion order and every set / frozenset built from
    the reversed element list, at any depth (C02_iteration_order_independent_deep)"""
    k = v[0]
    if k in ('list', 'tuple', 'deque'):
        return [k, [reorder_val(x) for x in v[1]]] + v[2:]
    if k in ('set', 'frozenset'):
        return [k, [reorder_val(x) for x in reversed(v[1])]] + v[2:]
    if k in ('dict', 'defaultdict'):
        return [k, [[reorder_val(a), reorder_val(b)] for a, b in reversed(v[1])]] + v[2:]
    return v


def canon_val(v):
    """a reified value modulo the iteration order of sets / frozensets / dicts / defaultdicts at any depth"""
    k = v[0]
    if k in ('list', 'tuple', 'deque'):
        return [k, [canon_val(x) for x in v[1]]] + v[2:]
    if k in ('set', 'frozenset'):
        return [k, sorted((canon_val(x) for x in v[1]), key=json.dumps)] + v[2:]
    if k in ('dict', 'defaultdict'):
        return [k, sorted(([canon_val(a), canon_val(b)] for a, b in v[1]), key=json.dumps)] + v[2:]
    return v


def gen_cases(rng, pid, tier):
    P = PROFILE[pid]
    t = 0 if tier == 'quick' else 1
    cases = []
    for i in range(P['n'][t]):
        d = rng.choice(range(0, P['depth'][t] + 1))
        a = G.gen_ann(rng, d, top=True)
        v = G.gen_conf(rng, a)
        if v is None:
            continue
        obs = 'avmt'
        r = rng.random()
        if r < P['obs_frac'] / 4:
            obs = 'pedantic_star'
        elif r < P['obs_frac'] / 2:
            obs = 'pedantic'
        elif r < P['obs_frac'] and a[0] not in ('none', 'str'):
            obs = 'dataclass'
        grp = len(cases)
        cases.append({'stream': 'valid', 'ann': a, 'val': v, 'ctx': G.CTX, 'obs': obs, 'grp': grp})
        w = G.corrupt(rng, a, v)
        if w is not None:
            cases.append({'stream': 'near-miss', 'ann': a, 'val': w, 'ctx': G.CTX, 'obs': obs, 'grp': grp})
        a2 = G.respell(rng, a)
        if a2 != a:
            cases.append({'stream': 'respell', 'ann': a2, 'val': v, 'ctx': G.CTX, 'obs': obs, 'grp': grp, 'twin': grp})
            if w is not None:
                cases.append({'stream': 'respell', 'ann': a2, 'val': w, 'ctx': G.CTX, 'obs': obs, 'grp': grp, 'twin': grp + 1})
        if pid == 'C02':
            v2 = reorder_val(v)
            if v2 != v:
                cases.append({'stream': 'reorder', 'ann': a, 'val': v2, 'ctx': G.CTX, 'obs': obs, 'grp': grp, 'twin': grp})
            if w is not None and reorder_val(w) != w:
                cases.append({'stream': 'reorder', 'ann': a, 'val': reorder_val(w), 'ctx': G.CTX, 'obs': obs, 'grp': grp, 'twin': grp + 1})
        a3 = G.to_abc(rng, a)
        if a3 is not None:          # PEP 585 spelling of the abstract collections: outside the claimed vocabulary, still must be sound
            cases.append({'stream': 'abc-spelling', 'ann': a3, 'val': v, 'ctx': G.CTX, 'obs': 'avmt', 'grp': grp})
            if w is not None:
                cases.append({'stream': 'abc-spelling', 'ann': a3, 'val': w, 'ctx': G.CTX, 'obs': 'avmt', 'grp': grp})
        if rng.random() < 0.15:     # an arbitrary value: exercises the rejecting paths without any bias of `corrupt`
            cases.append({'stream': 'random-value', 'ann': a, 'val': rng.choice(G.SCALARS + G.CONTAINERS), 'ctx': G.CTX, 'obs': 'avmt', 'grp': grp})
    for c in cases:
        # the thread the call is made from is no input of the verdict: a share of the cases is observed from a thread
        # started for the call (implementation only; model and specification do not know threads)
        if c['stream'] in ('valid', 'near-miss', 'respell') and rng.random() < 0.10:
            c['thread'] = True
    state_cases(rng, pid, tier, cases)
    if P['bare']:
        vals = G.SCALARS + G.CONTAINERS
        forms = [['bare', n] for n in BARE_T] + [['cls', n] for n in BARE_B]
        # bare generics nested inside a complete one are incomplete too
        nested = [['gen', 'typing', 'List', [f]] for f in forms[:3] + forms[9:11]] + [['union', 'typing', [forms[0], ['cls', 'int']]],
                                                                                        ['gen', 'builtin', 'List', [['cls', 'list']]]]
        for f in forms + nested:
            for v in (vals if tier == 'thorough' else rng.sample(vals, 14)) + [['list', []], ['none'], ['tuple', []], ['dict', []]]:
                for obs in ('avmt', 'pedantic') if rng.random() < 0.25 else ('avmt',):
                    cases.append({'stream': 'bare', 'ann': f, 'val': v, 'ctx': G.CTX, 'obs': obs, 'grp': len(cases), 'nested': f in nested})
    return cases


FLAGS = {}


def source_flags():
    """what the translator found about the shape of the source on this run (emitted into Gen/CheckerTables.v; the committed
    baseline - all false - stands in when the translation failed)"""
    import re
    try:
        txt = open(os.path.join(COQ, 'Gen', 'CheckerTables.v'), encoding='utf-8').read()
    except OSError:
        return {}
    return {k: bool(re.search(k + r'\s*(?::\s*bool\s*)?:=\s*true\b', txt)) for k in ('plain_class_complete', 'newtype_test_by_class')}


def state_cases(rng, pid, tier, cases):
    """streams over what must NOT influence the verdict (gen_checker.py, last section): model and specification are evaluated
    on (annotation, final value, context) as always; the extra keys steer the implementation worker only.
      fwd-state        the ForwardRef objects of the annotation were evaluated by typing.get_type_hints in another namespace
      default-history  the value is a mutable DEFAULT, changed in place between calls that leave the parameter out
      class-deco       the user classes carry names of typing / collections exports and attribute annotations of any kind"""
    P = PROFILE[pid]
    t = 0 if tier == 'quick' else 1
    n, dmax = P['n'][t], min(P['depth'][t], 4)

    def pick_obs(a, star=True):
        r = rng.random()
        if r < 0.45:
            return 'avmt'
        if r < 0.70:
            return 'pedantic'
        if r < 0.80 and star:
            return 'pedantic_star'
        return 'dataclass' if a[0] not in ('none', 'str') else 'avmt'

    def thread():
        return {'thread': True} if rng.random() < 0.10 else {}
    for _ in range(max(8, n // 10)):
        g = G.gen_fwd_state(rng, rng.choice(range(0, dmax + 1)))
        if g is None:
            continue
        a, v, alt, v_alt = g
        obs, grp = pick_obs(a), len(cases)
        for val in (v, v_alt):
            if val is not None:
                cases.append(dict({'stream': 'fwd-state', 'ann': a, 'val': val, 'ctx': G.CTX, 'pre': alt, 'obs': obs, 'grp': grp}, **thread()))
    for _ in range(max(6, n // 12)):
        g = G.gen_default_history(rng, rng.choice(range(1, dmax + 1)))
        if g is None:
            continue
        a, v, w = g
        grp = len(cases)
        base = {'stream': 'default-history', 'obs': 'pedantic_default', 'ann': a, 'ctx': G.CTX, 'grp': grp}
        cases.append(dict(base, val0=v, val=w, **thread()))              # accepted with the default, then the default stops conforming
        cases.append(dict(base, val0=w, val=v, **thread()))              # rejected with the default, then the default is repaired
        if rng.random() < 0.3:
            cases.append(dict(base, val0=v, hist=[w], val=v))
            cases.append(dict(base, val0=w, hist=[v], val=w))
    names = G.class_names(FLAGS)
    for _ in range(max(10, n // 6)):
        a = G.gen_with(rng, rng.choice(range(0, dmax + 1)), G.has_user_cls)
        if a is None:
            continue
        v = G.gen_conf(rng, a)
        if v is None:
            continue
        w = G.corrupt(rng, a, v)
        deco, obs, grp = G.gen_class_deco(rng, names, G.user_paths(a, v, w)), pick_obs(a), len(cases)
        if not deco:
            continue
        cases.append(dict({'stream': 'class-deco', 'ann': a, 'val': v, 'ctx': G.CTX, 'clsdeco': deco, 'obs': obs, 'grp': grp}, **thread()))
        if w is not None:
            cases.append({'stream': 'class-deco', 'ann': a, 'val': w, 'ctx': G.CTX, 'clsdeco': deco, 'obs': obs, 'grp': grp})


STATE_KEYS = ('clsdeco', 'thread', 'hist')


def simpler_states(c):
    """the case with less of its state: one renamed class / one attribute annotation only, no thread, no intermediate history"""
    out = []
    for keep_thread in (False, True):
        if keep_thread and not c.get('thread'):
            continue
        b = {k: v for k, v in c.items() if k not in ('thread', 'hist', 'twin', 'twin_case')}
        if keep_thread:
            b['thread'] = True
        if c.get('clsdeco'):
            for p, d in c['clsdeco']:
                if d.get('name'):
                    out.append(dict(b, clsdeco=[[p, {'name': d['name']}]]))
                for at in d.get('attrs') or []:
                    out.append(dict(b, clsdeco=[[p, {'attrs': [at]}]]))
            out.append({k: v for k, v in b.items() if k != 'clsdeco'})
        elif not keep_thread and (c.get('thread') or c.get('hist')):
            out.append(b)
    return out


def shrink_state(ck, judge, found, limit=4):
    """replace the (at most `limit`, smallest first) failing inputs that carry state by the simplest variant that still fails;
    model and specification do not depend on the state, so their verdicts are reused"""
    def final_key(f):          # the order the failing inputs are reported in (smallest first = the replay)
        case = ck.violations[f[0]]['case']
        return (len(json.dumps(case.get('reified', case))), len(json.dumps(case, default=str)))
    found = sorted((f for f in found if f[0] < len(ck.violations)), key=final_key)[:limit]
    cand = [(f, c2) for f in found for c2 in simpler_states(f[1])]
    if not cand:
        return
    res = ck.run_impl('w_checker', [c2 for _, c2 in cand], timeout=600, shards=min(8, len(cand)))
    done = set()
    for ((vi, c, M, S, sup), c2), r in sorted(zip(cand, res), key=lambda x: len(json.dumps(x[0][1], default=str))):
        if vi in done or r is None or 'error' in r or 'out' not in r or r['out'] == 9:
            continue
        if 'twin' in c:
            continue          # a pair comparison: keep the pair as found
        what = judge(ck, c2, r, r['out'], M, S, sup)
        if what and ck.violations[vi].get('case', {}).get('grp') == c.get('grp'):
            v = ck.violations[vi]
            v['what'] = what + dimension_note(c2)
            v['case'] = dict(c2, reified={'ann': r['ann'], 'val': r['val']}, _I=r['out'], _M=M)
            v['impl'] = {'out': OUT_NAMES.get(r['out'], r['out']), 'exc': r.get('exc'), 'body_ran': r.get('body_ran')}
            done.add(vi)


def dimension_note(c):
    """the part of the case that is no (annotation, value) but was needed to see the failure"""
    out = []
    if c.get('pre'):
        out.append('typing.get_type_hints had evaluated the ForwardRef objects of the annotation in another namespace: '
                   + ', '.join(f'U{n} -> {cl[1] if isinstance(cl, list) else cl}' for n, cl in c['pre']))
    if c.get('obs') == 'pedantic_default':
        out.append(f'the value is the DEFAULT of the parameter, changed in place (from {json.dumps(c.get("val0"))[:120]}'
                   f'{" via " + json.dumps(c["hist"])[:80] if c.get("hist") else ""}) after earlier calls that left the parameter out')
    if c.get('clsdeco'):
        out.append('user classes of the case: ' + '; '.join(
            f'{"U" + "_".join(map(str, p))}' + (f' is named {d["name"]}' if d.get('name') else '') +
            (f' carries the attribute annotations {json.dumps(d["attrs"])}' if d.get('attrs') else '') for p, d in c['clsdeco']))
    if c.get('thread'):
        out.append('the call was made from another thread')
    return (' [' + ' | '.join(out) + ']') if out else ''


def coq_case(c, r):
    return f'eval_check {U.coq_ctx(c["ctx"])} {U.coq_ann(r["ann"])} {U.coq_val(r["val"])}'


def named_stream(ck, want):
    """named-tuple values (outside the model's value universe): fixed table judged on the implementation.
    want='sound': a non-conforming one must be rejected; want='complete': a conforming one must be accepted"""
    n = ck.run_impl('w_checker', [{'obs': 'named', 'size': 1}], shards=1)[0]['size']
    res = ck.run_impl('w_checker', [{'obs': 'named', 'i': i} for i in range(n)], shards=1)
    for i, r in enumerate(res):
        if r is None or 'error' in r:
            ck.oblige('impl-worker:named', 'correspondence', False, str(r))
            continue
        ck.note_case('named-%d' % i, nontrivial=True)
        bad = None
        if want == 'sound' and not r['conforms'] and r['out'] == 0:
            bad = 'a value that does not conform was accepted (impl-only table): ' + r['name']
        if want == 'sound' and not r['conforms'] and r['out'] not in (0, 1):
            bad = f'a non-conforming value (impl-only table) was rejected with {OUT_NAMES.get(r["out"])}: ' + r['name']
        if want == 'complete' and r['conforms'] and r['out'] != 0:
            bad = 'a conforming value was rejected (impl-only table): ' + r['name']
        if want == 'contain' and r['out'] in (4, 5):
            bad = f'{r.get("exc")} escaped: ' + r['name']
        if bad:
            ck.violation(bad, {'obs': 'named', 'i': i, 'stream': 'named', 'name': r['name'], '_out': r['out']}, stream='named', matcher=matcher,
                         extra={'impl': r})
    ck.coverage['named_tuple_table'] = {'cases': n, 'judged_as': want}


def replay_rows(ck, obs, n):
    """the rows of a fixed table: each from the main thread and from a thread started for the call; a replay runs its row only"""
    rc = (getattr(ck, 'replay_case', None) or {})
    if rc.get('obs') == obs:
        return [{k: v for k, v in rc.items() if k in ('obs', 'i', 'thread')}]
    return [{'obs': obs, 'i': i} for i in range(n)] + [{'obs': obs, 'i': i, 'thread': True} for i in range(n)]


def gclass_stream(ck):
    """generic @pedantic_class classes of several base layouts (C08: nothing but PedanticException from the machinery)"""
    n = ck.run_impl('w_checker', [{'obs': 'gclass', 'size': 1}], shards=1)[0]['size']
    todo = replay_rows(ck, 'gclass', n)
    res = ck.run_impl('w_checker', todo, shards=2 if len(todo) > n else 1)
    hist = {}
    for c, r in zip(todo, res):
        i = c['i']
        if r is None or 'error' in r:
            ck.oblige('impl-worker:gclass', 'correspondence', False, str(r))
            continue
        ck.note_case('gclass-%d%s' % (i, '-thread' if c.get('thread') else ''), nontrivial=True)
        hist[OUT_NAMES.get(r['out'], str(r['out']))] = hist.get(OUT_NAMES.get(r['out'], str(r['out'])), 0) + 1
        if r['out'] in (4, 5):
            ck.violation(f'{r.get("exc")} escaped from a method call on an instance of a generic @pedantic_class: ' + r['name'] + dimension_note(c),
                         dict(c, stream='gclass', name=r['name']), stream='gclass', extra={'impl': r})
    ck.coverage['generic_class_stream'] = {'cases': len(todo), 'outcomes': hist}


def abc_table_obligation(ck):
    """Base/Ann.v abc_instance (isinstance incl. ABC registration) against CPython, exhaustively: every origin x every value class"""
    r = ck.run_impl('w_checker', [{'obs': 'abc_table'}], shards=1)[0]
    rows = (r or {}).get('rows') or []
    terms = ['[' + '; '.join(f'(if abc_instance T{o} {U.coq_cls(c)} then 1 else 0)' for o, c, _ in rows) + ']']
    got = ck.coq_eval(PRE, terms, chunk=1) if ck.model_ok and rows else [None]
    bad = []
    if got and got[0] is not None:
        bad = [(o, c, b, g) for (o, c, b), g in zip(rows, got[0]) if int(b) != g]
    ck.oblige('abc-instance-table', 'correspondence', bool(rows) and got[0] is not None and not bad,
              f'{len(rows)} (origin, class) pairs agree with isinstance' if not bad else f'abc_instance differs from isinstance: {bad[:5]}')
    ck.coverage['abc_instance_pairs'] = len(rows)


def intro_obligation(ck, cases):
    """layer L1: _has_required_type_arguments / len(get_type_arguments) / _get_name of the implementation against the model's
    has_required / n_type_args / ann_name on the annotations of this run"""
    seen, todo = set(), []
    for c in cases:
        k = json.dumps(c.get('ann'))
        if 'ann' in c and k not in seen and c['ann'][0] not in ('none', 'str'):
            seen.add(k)
            todo.append({'obs': 'intro', 'ann': c['ann'], 'ctx': c.get('ctx', G.CTX)})
        if len(todo) >= 600:
            break
    impl = ck.run_impl('w_checker', todo, timeout=600)
    ok = [(t, r) for t, r in zip(todo, impl) if r and r.get('intro') is not None and r.get('ann', ['other'])[0] != 'other']
    got = ck.coq_eval(PRE, [f'eval_intro {U.coq_ann(r["ann"])}' for _, r in ok], chunk=300) if ck.model_ok and ok else []
    bad = [(r['ann'], r['intro'], g) for (_, r), g in zip(ok, got) if g is not None and r['intro'] != g]
    ck.oblige('introspection-layer', 'correspondence', not bad and len(ok) > 0,
              f'{len(ok)} annotations agree' if not bad else f'{len(bad)} differ, e.g. {json.dumps(bad[0])[:400]}')
    ck.coverage['introspection_annotations'] = len(ok)


def corner_stream(ck):
    """C08, wrapper half: keyword calls on callables that trip the source-text / receiver heuristics of the wrapper"""
    n = ck.run_impl('w_checker', [{'obs': 'corner', 'size': 1}], shards=1)[0]['size']
    todo = replay_rows(ck, 'corner', n)
    res = ck.run_impl('w_checker', todo, shards=2 if len(todo) > n else 1)
    hist = {}
    for c, r in zip(todo, res):
        i = c['i']
        if r is None or 'error' in r:
            ck.oblige('impl-worker:corner', 'correspondence', False, str(r))
            continue
        ck.note_case('corner-%d%s' % (i, '-thread' if c.get('thread') else ''), nontrivial=True)
        hist[r['name'] + (' (thread)' if c.get('thread') else '')] = OUT_NAMES.get(r['out'], str(r['out']))
        if r['out'] in (4, 5):
            ck.violation(f'{r.get("exc")} escaped from the wrapper: ' + r['name'] + dimension_note(c),
                         dict(c, stream='corner', name=r['name'], exc_class=(r.get('exc') or '').split(':')[0]),
                         stream='corner', extra={'impl': r}, matcher=matcher)
    ck.coverage['wrapper_corner_table'] = hist


def has_abc(a):
    if not isinstance(a, list):
        return False
    if a and a[0] == 'gen' and a[1] == 'abc':
        return True
    return any(has_abc(x) for x in a if isinstance(x, list))


def matcher(f, case):
    m = f.get('matcher', {})
    if m.get('id') == 'abc_spelled_generic':
        # only the registered symptom: rejected with PedanticTypeCheckException, and the faithful model says the same
        return has_abc(case.get('reified', case).get('ann')) and case.get('_I') == 1 and case.get('_M') == 1
    if m.get('id') == 'named_row':
        return case.get('obs') == 'named' and case.get('name') in m.get('names', []) and case.get('_out') == m.get('out')
    if m.get('id') == 'corner_call':
        return case.get('obs') == 'corner' and case.get('name') in m.get('names', []) and case.get('exc_class') == m.get('exc_class')
    return False


def run(pid, tier, seed, replay, props, judge, extra_streams=None, rule_extra='', extra_units=()):
    ck = Check(pid, tier, seed, UNITS + list(extra_units), MODEL, props)
    ck.replay_case = (replay or {}).get('case') if replay is not None else None
    ck.prepare()
    FLAGS.clear()
    FLAGS.update(source_flags())
    ck.coverage['source_shape_flags'] = dict(FLAGS)
    if tier == 'thorough' and replay is None and props and getattr(ck, 'props_ok', False):
        mod = 'PV.' + props[:-2].replace('/', '.')
        rc, out, err, dt = sh(['coqchk', '-silent', '-o', '-Q', '.', 'PV', mod], cwd=COQ, timeout=3000)
        ok = rc == 0 and 'Axioms: <none>' in (out + err)
        ck.oblige('coqchk:' + mod, 'proof', ok, f'coqchk -o: no axioms, {dt:.0f}s' if ok else (out + err)[-600:])

    def still_fails(f):
        w = f.get('witness')
        if not w or f['status'] != 'open':
            return False        # fixed entries are replayed through the corpus stream (nothing is suppressed)
        r = ck.run_impl('w_checker', [w], shards=1)[0]
        return bool(r) and r.get('out') == f.get('observed_out', 1)
    ck.replay_known_findings(still_fails)
    if replay is None and pid in ('C01', 'C02'):
        abc_table_obligation(ck)
    P = PROFILE[pid]
    if replay is not None and replay.get('case', {}).get('obs', '').startswith('zoo'):
        cases = []
        zoo_cases = [replay['case']]
    elif replay is not None:
        cases = [replay['case']]
        if 'twin_case' in replay['case']:       # a twin comparison: replay the pair
            cases = [dict(replay['case']['twin_case'], grp=0), dict(replay['case'], twin=0, grp=0)]
            cases[0].pop('twin', None)
        zoo_cases = []
    else:
        n_scale = ck.scale()
        cases = []
        cpath = os.path.join(ROOT, 'corpus', pid + '.json')
        if os.path.exists(cpath):       # minimised past failures run first
            for c in json.load(open(cpath)):
                c['grp'] = len(cases)
                cases.append(c)
        for k in range(n_scale):
            base = len(cases)
            for c in gen_cases(ck.rng, pid, tier):
                c['grp'] += base
                if 'twin' in c:
                    c['twin'] += base
                cases.append(c)
        zoo_cases = []
        zq = P['zoo'][0 if tier == 'quick' else 1]
        if zq != 0:
            na, nv = ck.run_impl('w_checker', [{'obs': 'zoo_sizes'}], shards=1)[0]['sizes']
            allz = [(i, j) for i in range(na) for j in range(nv)]
            # the intensified search (a broken proof / translation obligation) sweeps the whole zoo instead of most of it
            pick = allz if zq is None or zq * n_scale >= len(allz) // 2 else ck.rng.sample(allz, zq * n_scale)
            for (i, j) in pick:
                zoo_cases.append({'obs': 'zoo', 'ai': i, 'vi': j, 'stream': 'zoo'})
            for (i, j) in ck.rng.sample(allz, min(len(allz), (600 if tier == 'quick' else 6000))):
                zoo_cases.append({'obs': ck.rng.choice(['zoo_arg', 'zoo_ret', 'zoo_gen']), 'ai': i, 'vi': j, 'stream': 'zoo-pedantic'})
                if ck.rng.random() < 0.10:
                    zoo_cases[-1]['thread'] = True
    if extra_streams:
        extra_streams(ck, cases)
    impl = ck.run_impl('w_checker', cases, timeout=1200)
    ck.env = {'impl': impl, 'cases': cases}
    if replay is None and pid in ('C01', 'C02'):
        intro_obligation(ck, cases)
    ok_idx = [k for k, r in enumerate(impl) if r is not None and 'error' not in r and 'ann' in r]
    terms = [coq_case(cases[k], impl[k]) for k in ok_idx]
    model = ck.coq_eval(PRE, terms, chunk=250) if ck.model_ok else [None] * len(terms)
    mres = {k: m for k, m in zip(ok_idx, model)}
    hist = {'stream': {}, 'depth': {}, 'impl_outcome': {}, 'spec_verdict': {}, 'supported': 0, 'obs': {}, 'value_size': {}}
    disagreements, lost = [], 0
    state_found = []
    by_grp = {}
    for k, c in enumerate(cases):
        r, m = impl[k], mres.get(k)
        if r is None or 'error' in (r or {}) or m is None:
            lost += 1
            # a one-shot iterator below a dict whose equal keys collapsed cannot be described to the model: a lost case, not a disagreement
            if r is not None and 'error' in r and 'outside the universe' not in r['error'] and 'cannot be tracked' not in r['error'] \
                    and 'unhashable type' not in r['error']:      # a corrupted value with an unhashable key / element cannot be built at all
                disagreements.append({'case': c, 'impl': r, 'what': 'worker error'})
            continue
        I, (M, S, sup) = r['out'], m
        for name, key in (('stream', c['stream']), ('depth', str(U.depth(r['ann']))), ('impl_outcome', OUT_NAMES.get(I, str(I))),
                          ('spec_verdict', {0: 'Unspec', 1: 'Must', 2: 'MustNot'}[S]), ('obs', c['obs']),
                          ('value_size', str(min(size(r['val']), 12)))):
            hist[name][key] = hist[name].get(key, 0) + 1
        hist['supported'] += sup
        nontrivial = (U.depth(r['ann']) >= 2 or c['stream'] in ('near-miss', 'bare')) and bool(sup or c['stream'] == 'bare')
        ck.note_case(json.dumps([r['ann'], r['val'], c['obs']]), nontrivial=nontrivial)
        if I == 9:
            continue        # the decorator refused the annotation at decoration time: not a call
        corr = (I == M)
        if corr:
            ck.traces_validated += 1
        info = {'I': I, 'M': M, 'S': S, 'sup': sup, 'r': r, 'c': c}
        by_grp[(c['grp'], c['stream'], k)] = info
        what = judge(ck, c, r, I, M, S, sup)
        if what:
            what += dimension_note(c)
            if any(c.get(x) for x in STATE_KEYS):
                state_found.append((len(ck.violations), c, M, S, sup))
            ck.violation(what, dict(c, reified={'ann': r['ann'], 'val': r['val']}, _I=I, _M=M), stream=c['stream'], matcher=matcher,
                         extra={'impl': {'out': OUT_NAMES.get(I, I), 'exc': r.get('exc'), 'body_ran': r.get('body_ran')},
                                'model_out': OUT_NAMES.get(M, M), 'spec': {0: 'Unspec', 1: 'Must', 2: 'MustNot'}[S], 'supported': bool(sup)})
        elif not corr:
            disagreements.append({'case': c, 'reified': {'ann': r['ann'], 'val': r['val']}, 'impl': OUT_NAMES.get(I, I),
                                  'exc': r.get('exc'), 'model': OUT_NAMES.get(M, M)})
    # zoo: property on the implementation only (outside the model's vocabulary)
    zres = ck.run_impl('w_checker', zoo_cases, timeout=1500) if zoo_cases else []
    zhist = {}
    for c, r in zip(zoo_cases, zres):
        if r is None or 'error' in r:
            disagreements.append({'case': c, 'impl': r, 'what': 'zoo worker error'})
            continue
        ck.note_case(json.dumps([c['obs'], c['ai'], c['vi']]), nontrivial=True)
        zhist[OUT_NAMES.get(r['out'], str(r['out']))] = zhist.get(OUT_NAMES.get(r['out'], str(r['out'])), 0) + 1
        what = judge(ck, c, r, r['out'], None, 0, 0)
        if what:
            what += dimension_note(c)
            ck.violation(what, dict(c, name=r.get('name'), value_type=r.get('val')), stream=c['stream'],
                         extra={'impl': {'out': OUT_NAMES.get(r['out'], r['out']), 'exc': r.get('exc')}})
    try:
        shrink_state(ck, judge, state_found)
    except Exception as ex:       # shrinking is a convenience: the unshrunk failing input stays
        ck.notes.append('shrink_state: ' + repr(ex)[:200])
    ck.violations.sort(key=lambda v: (len(json.dumps(v['case'].get('reified', v['case']))), len(json.dumps(v['case'], default=str))))
    ck.oblige('correspondence:checker', 'correspondence', not disagreements,
              json.dumps(disagreements[0], default=str)[:1200] if disagreements else f'{ck.traces_validated} cases agree')
    n_eval = max(1, len(cases))
    if replay is None and lost > 0.2 * n_eval:
        ck.oblige('generator:coverage', 'correspondence', False, f'{lost} of {n_eval} cases produced no comparable result')
    if replay is None and pid in ('C01', 'C02') and hist['supported'] < 0.6 * max(1, ck.traces_validated):
        ck.oblige('generator:vocabulary-share', 'correspondence', False,
                  f'only {hist["supported"]} of {ck.traces_validated} cases are in the supported vocabulary')
    hist['zoo_outcomes'] = zhist
    hist['disagreements'] = len(disagreements)
    hist['cases_without_result'] = lost
    ck.coverage.update({'input_distribution': hist})
    pick = [i for i in by_grp.values()][:2] + [i for i in by_grp.values() if i['c']['stream'] == 'near-miss'][:2]
    ck.samples = [{'stream': i['c']['stream'], 'obs': i['c']['obs'], 'ann': i['r']['ann'], 'val': i['r']['val'],
                   'impl': OUT_NAMES.get(i['I']), 'model': OUT_NAMES.get(i['M']), 'spec': i['S']} for i in pick] + \
                 [{'stream': 'zoo', 'name': r.get('name'), 'value_type': r.get('val'), 'impl': OUT_NAMES.get(r['out'])}
                  for r in zres[:2] if r]
    ck.assumptions = ['values are built from builtin classes and plain user classes (no overridden __eq__/__iter__/__class__)',
                      'class identity = class name; user classes form a single-inheritance tree',
                      'render/reify glue (harness/universe.py) maps real typing objects to the abstract syntax the model evaluates']
    return ck.finish(
        rule=('annotations generated top-down from the supported vocabulary (both spellings, nesting depth up to '
              f'{P["depth"][0 if tier == "quick" else 1]}), a value generated FROM the annotation so that it conforms, one single-position '
              'corruption of it (near miss), a re-spelled twin of the annotation, plus arbitrary values' + rule_extra +
              '; distinct = (reified annotation, reified value, observation point); non-trivial = annotation depth >= 2 or near-miss/bare stream, '
              'inside the vocabulary'),
        checker_cmd=(f'make -C coq {props[:-2]}.vo && coqc -Q coq PV coq/{props} (Print Assumptions under every theorem)' if props else 'none'),
        trusted_base=['Coq 8.16.1 kernel (coqc; vm_compute for model evaluation and for cfg_good of the regenerated tables)',
                      'translator/t_checker.py (Python ast -> Gen/CheckerTables.v: registries, arity tables, bare sets, conversion chain, '
                      'handler table, shape parameters of the element-wise checkers)',
                      'hand-written model Model/Checker.v of _is_instance / _check_type (tied to the code by the correspondence of this run)',
                      'harness/universe.py render/reify, harness/gen_checker.py, harness/w_checker.py (correspondence glue)',
                      'CPython 3.12 typing / isinstance / ABC registration / inspect.signature as modelled in Base/Ann.v, Base/Values.v'])
