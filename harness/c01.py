"""C01 - the type checker is sound.  Proof: coq/Props/C01.v (for every regenerated configuration
satisfying cfg_good, every context, every annotation of the vocabulary at any depth, every value).
Correspondence + property on the implementation: harness/checker_common.py."""
import os
import checker_common as CC

PROPS = 'Props/C01.v' if os.path.exists(os.path.join(CC.COQ, 'Props/C01.v')) else None


def judge(ck, c, r, I, M, S, sup):
    if c['stream'] == 'abc-spelling' and I == 0 and S == 2:
        return 'a value that does not conform to the annotation (collections.abc spelling) was accepted'
    if not sup:
        return None
    if I == 0 and S == 2:
        return 'a value that does not conform to the annotation was accepted'
    if S == 2 and I != 1:
        return f'a non-conforming value was rejected with {CC.OUT_NAMES.get(I, I)} instead of PedanticTypeCheckException'
    if c['obs'] in ('pedantic', 'pedantic_star', 'pedantic_default') and S == 2 and r.get('body_ran'):
        return 'the body ran although the argument does not conform'
    return None


def run(tier, seed, replay=None):
    def extra(ck, cases):
        if replay is None or replay.get('case', {}).get('obs') == 'named':
            CC.named_stream(ck, 'sound')
        if replay is not None and replay.get('case', {}).get('obs') == 'named':
            cases.clear()
    return CC.run('C01', tier, seed, replay, PROPS, judge, extra_streams=extra)
