"""C13 - @validate binds by name.  Proof: coq/Props/C13.v.  Correspondence / property: for generated configurations and
named assignments, every split into positional prefix and keyword rest, every keyword permutation, every return_as mode
and every declaration order of the Parameters on the real decorator, against model and specification, plus a
specification-independent comparison of all call styles of one assignment with each other."""
from v_common import *

PROPS = 'Props/C13.v'


def gen_cases(rng, tier, scale):
    cases = []
    maxchain = 3 if tier == 'quick' else 5
    plan = [(1, 20, None), (2, 36, None), (3, 32, None), (4, 10, 10)] if tier == 'quick' else \
           [(1, 120, None), (2, 400, None), (3, 420, None), (4, 160, 60)]
    for n, count, cap in plan:
        for _ in range(count * scale):
            cases += gen_matrix(rng, maxchain, n, cap)
    # Flask JSON / form / query / header Parameters inside a test request context (repeated query keys, value_type=list,
    # headers in another spelling, JSON document null)
    for _ in range((30 if tier == 'quick' else 500) * scale):
        cases += gen_matrix(rng, maxchain, rng.randint(1, 3 if tier == 'quick' else 4), 6 if tier == 'quick' else 12, flask=True)
    for _ in range((15 if tier == 'quick' else 0) * scale):
        cases += gen_duplicates(rng, maxchain, 4, flask=True)
    for _ in range((300 if tier == 'quick' else 6000) * scale):         # has_value() / load_value() of single source objects
        cases.append(gen_probe(rng))
    for _ in range((110 if tier == 'quick' else 1500) * scale):         # several Parameters (plain / external, with / without value) for ONE name
        cases += gen_duplicates(rng, maxchain, 6 if tier == 'quick' else 10)
    if tier == 'thorough':
        for _ in range(300 * scale):
            cases += gen_duplicates(rng, maxchain, 8, flask=True)
    for _ in range((90 if tier == 'quick' else 2500) * scale):          # shared Parameter objects, calls in sequence
        cases.append(gen_shared(rng, maxchain))
    # ignore_input=True: caller input is ignored in EVERY call style, for every kind of Parameter (plain, FlaskPathParameter - a plain
    # Parameter subclass -, external with / without value), inside and outside a request context
    for _ in range((40 if tier == 'quick' else 700) * scale):
        cases += gen_matrix(rng, maxchain, rng.randint(1, 3), 8, ignore_input=True)
    for _ in range((12 if tier == 'quick' else 250) * scale):
        cases += gen_matrix(rng, maxchain, rng.randint(1, 3), 6, flask=True, ignore_input=True)
    for _ in range((20 if tier == 'quick' else 400) * scale):            # a parameter literally named cls / args / kwargs / ...: binding by name all the same
        cases += gen_convention_names(rng, maxchain, 6 if tier == 'quick' else 12)
    for _ in range((400 if tier == 'quick' else 6000) * scale):
        c = gen_random_case(rng, maxchain)
        if rng.random() < 0.2:
            c = malform(rng, c)
        cases.append(c)
    return cases


def run(tier, seed, replay=None):
    return run_checks('C13', tier, seed, replay, gen_cases, PROPS, group_check=True, tr_units=['Validate', 'ValidateSources'],
                      rule='per configuration (signature of 1-4 named parameters +-self +-defaults +-keyword-only, Parameters in a '
                           'random declaration order, strict, external presence pattern) and named assignment: all positional/keyword '
                           'splits x all keyword permutations (all for <=3 parameters, sampled for 4) x 3 return_as modes, plus all '
                           '(<=6) declaration orders; sequences of 3-6 calls of 2-3 functions decorated with the same Parameter objects (different signature '
                           'defaults / modes / declaration orders, external values changing between calls), every call judged on its own; '
                           'ignore_input=True configurations (plain Parameter, FlaskPathParameter, harness / environment / Flask sources with and without value, mostly optional with default) x all call styles x 3 modes, inside and outside a request context: the body must see the same source / default binding whatever the caller passes and however; '
                           'functions / methods with a parameter literally named cls / args / kwargs / ... x all call styles x 3 modes; '
                           'declarations with SEVERAL Parameters for one name (plain and external, sources with / without value, the name passed / omitted) '
                           'x all call styles x 3 modes, judged against every resolution of the duplicate (a passed value must come out of the chain of '
                           'one of the Parameters of its name, never from a source); Flask JSON/form/query/header parameters inside a test request '
                           'context (repeated query keys, value_type=list, header spellings, JSON null; more in thorough); single source objects '
                           '(environment variable, Flask JSON/form/query/header Parameter, deserializer): has_value() / load_value() called '
                           'directly in generated worlds, against the model of the sources and their specification; distinct = whole case; non-trivial = at least one Parameter and one supplied or external value')
