"""Implementation worker for C07: generated @pedantic functions / @pedantic_class classes living in
real source files of the run's scratch directory (inspect.getsource must work), called by keyword.

case = {'ctx': [[n, cls]...], 'world': {'classes': [{'kind': 'plain'|'pedantic'|'generic', 'tparams': [tv...],
        'init': sig|None, 'methods': [sig...]}], 'funs': [sig...]}, 'steps': [...]}
sig  = {'params': [ann...], 'ret': ann}
step = ['new', slot, cls, [X...], [arg...]] | ['call', slot, meth, [arg...], ret] | ['fun', f, [arg...], ret]
Result: the world and the steps REIFIED from the real objects (typing's own normalisation is what the
model sees) and the outcome class of every step (9 = the step addresses something that does not exist)."""
import sys, json, os
import universe as U
from w_checker import classify, make_module


# the TypeVars typing itself exports are rendered as the very objects of the typing module (descriptor key 'std'; the key of
# universe's TypeVar table is (id, constraints, bound, contra): seeded here, so render / reify treat them like any TypeVar)
STD_TVS = {'AnyStr': {'id': 20, 'constraints': ['bytes', 'str'], 'bound': None, 'contra': False},
           'T': {'id': 21, 'constraints': [], 'bound': None, 'contra': False},
           'KT': {'id': 22, 'constraints': [], 'bound': None, 'contra': False},
           'T_contra': {'id': 23, 'constraints': [], 'bound': None, 'contra': True}}
for _n, _d in STD_TVS.items():
    import typing as _typing
    U._tv_cache[(_d['id'], tuple(map(str, _d['constraints'])), str(_d['bound']), _d['contra'])] = (getattr(_typing, _n), _d)

DFLT = ['dflt']       # an argument of a step: the parameter is left out of the call, Python binds its default


def fill_defaults(sg, args):
    """-> (the arguments with every left-out one replaced by the default of the signature, the indices left out)"""
    d = sg.get('defaults') or []
    omitted = [j for j, a in enumerate(args) if a == DFLT and j < len(d) and d[j] is not None]
    # (a left-out argument of a step that addresses nothing - outcome 9 - is shown as None)
    return [d[j] if j in omitted else (['none'] if a == DFLT else a) for j, a in enumerate(args)], omitted


class Ret:
    """what a generated body returns (`return RET[0]`).  With a plan, the body first RE-ENTERS the same
    decorated function (the nested calls of the plan, their exceptions swallowed) and then returns."""
    def __init__(self):
        self.value, self.plan, self.runner = None, None, None

    def __setitem__(self, i, v):
        self.value, self.plan = v, None

    def __getitem__(self, i):
        plan, self.plan = self.plan, None
        if plan is None:
            return self.value
        for sub in plan['nested']:
            self.plan = sub
            sub['out'], sub['exc'] = self.runner(sub)
            self.plan = None
        return plan['ret']


def sig_src(name, sg, tag, env, method, deco=''):
    ps = []
    for j, a in enumerate(sg['params']):
        env[f'{tag}_p{j}'] = U.render_ann(a)
        ps.append(f'p{j}: {tag}_p{j}')
        if j < len(sg.get('defaults') or []) and sg['defaults'][j] is not None:
            env[f'{tag}_d{j}'] = U.render_val(sg['defaults'][j])       # ONE object, the default of every call
            ps[-1] += f' = {tag}_d{j}'
    env[f'{tag}_r'] = U.render_ann(sg['ret'])
    # variadic parameters (pedantic recognises `*args` by that very text in the source)
    if sg.get('varargs') is not None:
        env[f'{tag}_va'] = U.render_ann(sg['varargs'])
        ps.append(f'*args: {tag}_va')
    if sg.get('varkw') is not None:
        env[f'{tag}_vk'] = U.render_ann(sg['varkw'])
        ps.append(f'**kwargs: {tag}_vk')
    head = ', '.join((['self'] if method else []) + ps)
    ind = '    ' if method else ''
    body = 'pass' if name == '__init__' else 'return RET[0]'
    return f'{ind}{deco}def {name}({head}) -> {tag}_r:\n{ind}    {body}\n'


def build(world, ctx):
    env = dict(U.real_ctx(ctx))
    env['RET'] = Ret()
    src = ['from typing import Generic', 'from pedantic import pedantic, pedantic_class', '']
    for k, cd in enumerate(world['classes']):
        kind = cd['kind']
        base = ''
        if kind == 'generic':
            for j, tv in enumerate(cd['tparams']):
                env[f'TP_{k}_{j}'] = U.render_tv(tv)
            base = '(Generic[' + ', '.join(f'TP_{k}_{j}' for j in range(len(cd['tparams']))) + '])'
        if kind == 'gensub':
            # generic by inheritance only: class Sub(Base[int, T1..Tn]) - Generic is not among the direct bases
            env[f'TPB_{k}'] = U.render_tv({'id': 40 + k, 'constraints': [], 'bound': None, 'contra': False})
            for j, tv in enumerate(cd['tparams']):
                env[f'TP_{k}_{j}'] = U.render_tv(tv)
            own = ', '.join(f'TP_{k}_{j}' for j in range(len(cd['tparams'])))
            src.append(f'@pedantic_class\nclass B{k}x(Generic[TPB_{k}, {own}]):\n    pass\n')
            base = f'(B{k}x[int, {own}])'
        if kind in ('generic', 'pedantic', 'gensub'):
            src.append('@pedantic_class')
        src.append(f'class K{k}x{base}:')
        deco = '@pedantic\n    ' if kind == 'plain' else ''
        body = []
        if cd['init'] is not None:
            body.append(sig_src('__init__', cd['init'], f'A_{k}_i', env, True, deco))
        for m, sg in enumerate(cd['methods']):
            body.append(sig_src(f'm{m}', sg, f'A_{k}_{m}', env, True, deco))
        src.append('\n'.join(body) if body else '    pass\n')
        # the construction lives in the generated source with its type arguments spelled as a subscription
        # (pedantic scans the caller's source text for an unparametrised construction)
        if kind in ('generic', 'gensub'):
            src.append(f'def new_{k}(xs, kw):\n    inst = K{k}x[xs](**kw)\n    return inst\n')
        else:
            src.append(f'def new_{k}(xs, kw):\n    inst = K{k}x(**kw)\n    return inst\n')
    for f, sg in enumerate(world['funs']):
        src.append(sig_src(f'f{f}', sg, f'A_f{f}', env, False, '@pedantic\n'))
    src.append('def call(fn, kw):\n    return fn(**kw)\n')
    src.append('def callv(fn, pos, kw):\n    return fn(*pos, **kw)\n')
    return make_module('\n'.join(src), env), env


def reify_sig(env, tag, sg):
    r = {'params': [U.reify_ann(env[f'{tag}_p{j}']) for j in range(len(sg['params']))], 'ret': U.reify_ann(env[f'{tag}_r'])}
    if sg.get('varargs') is not None:
        r['varargs'] = U.reify_ann(env[f'{tag}_va'])
    if sg.get('varkw') is not None:
        r['varkw'] = U.reify_ann(env[f'{tag}_vk'])
    return r


def invoke(mod, fn, sg, real, extra, surplus, omitted=()):
    """named parameters by keyword - unless the function collects positional values: then Python wants the named
    ones positionally, before the collected ones; surplus keyword values as k0=, k1=, ...; the parameters in `omitted`
    are left out (they have a default)"""
    kw = {f'k{j}': v for j, v in enumerate(surplus)}
    if sg.get('varargs') is not None:
        return mod.callv(fn, list(real) + list(extra), kw)
    kw.update({f'p{j}': v for j, v in enumerate(real) if j not in omitted})
    return mod.call(fn, kw)


def run_case(c):
    import typing
    world, ctx = c['world'], c['ctx']
    mod, env = build(world, ctx)
    r_world = {'classes': [], 'funs': [reify_sig(env, f'A_f{f}', sg) for f, sg in enumerate(world['funs'])]}
    for k, cd in enumerate(world['classes']):
        r_world['classes'].append({
            'kind': cd['kind'], 'tparams': [U.reify_ann(env[f'TP_{k}_{j}'])[1] for j in range(len(cd.get('tparams') or []))]
            if cd['kind'] in ('generic', 'gensub') else [],
            'init': reify_sig(env, f'A_{k}_i', cd['init']) if cd['init'] is not None else None,
            'methods': [reify_sig(env, f'A_{k}_{m}', sg) for m, sg in enumerate(cd['methods'])]})
    slots = {}
    out, r_steps, excs = [], [], []

    def vals(abstract):
        real = [U.render_val(v) for v in abstract]
        return real, [U.reify_val(o, a) for o, a in zip(real, abstract)]

    def attempt(thunk):
        try:
            return 0, thunk(), None
        except BaseException as ex:   # noqa
            return classify(ex), None, type(ex).__name__ + ': ' + str(ex)[:100].replace('\n', ' ')

    for s in c['steps']:
        if s[0] == 'new':
            _, slot, k, xs, args = s
            real, rv = vals(args)
            if k >= len(world['classes']):
                out.append(9); r_steps.append(s); excs.append(None); continue
            cd = world['classes'][k]
            r_xs = []
            if cd['kind'] in ('generic', 'gensub'):
                xr = tuple(U.render_ann(x) for x in xs)
                alias = getattr(mod, f'K{k}x')[xr]
                r_xs = [U.reify_ann(x, False) for x in typing.get_args(alias)]
                xr = typing.get_args(alias)
            else:
                xr = ()
            kw = {f'p{j}': v for j, v in enumerate(real)} if cd['init'] is not None else {}
            code, inst, msg = attempt(lambda: getattr(mod, f'new_{k}')(xr, kw))
            if code == 0:
                slots[slot] = (k, inst)
            out.append(code); excs.append(msg)
            r_steps.append(['new', slot, k, r_xs, rv])
        elif s[0] == 'call':
            _, slot, m, args, ret = s[:5]
            args, omitted = fill_defaults(world['classes'][slots[slot][0]]['methods'][m] if slot in slots and
                                          m < len(world['classes'][slots[slot][0]]['methods']) else {}, args)
            real, rv = vals(args)
            (rreal,), (rret,) = vals([ret])
            ereal, erv = vals(s[5] if len(s) > 5 else [])
            kreal, krv = vals(s[6] if len(s) > 6 else [])
            r_steps.append(['call', slot, m, rv, rret, erv, krv])
            if slot not in slots or m >= len(world['classes'][slots[slot][0]]['methods']):
                out.append(9); excs.append(None); continue
            mod.RET[0] = rreal
            fn = getattr(slots[slot][1], f'm{m}')
            msg_sg = world['classes'][slots[slot][0]]['methods'][m]
            code, _, msg = attempt(lambda: invoke(mod, fn, msg_sg, real, ereal, kreal, omitted))
            out.append(code); excs.append(msg)
        elif s[0] == 'fun' and len(s) > 4 and s[4]:
            # re-entrancy: the body of f calls f again (depth-first plan); flat result: inner calls first, the outer call last
            f = s[1]
            fn = getattr(mod, f'f{f}')
            flat = []

            def mk(node):
                args, ret, nested = node[0], node[1], (node[2] if len(node) > 2 else [])
                real, rv = vals(args)
                (rreal,), (rret,) = vals([ret])
                plan = {'kw': {f'p{j}': v for j, v in enumerate(real)}, 'ret': rreal, 'nested': [mk(n) for n in nested],
                        'out': 8, 'exc': None}
                flat.append((plan, ['fun', f, rv, rret]))
                return plan

            def runner(sub):
                code, _, msg = attempt(lambda: mod.call(fn, sub['kw']))
                return code, msg
            top = mk([s[2], s[3], s[4]])
            mod.RET.runner = runner
            mod.RET.plan = top
            top['out'], top['exc'] = runner(top)
            mod.RET.plan = None
            for plan, rstep in flat:
                r_steps.append(rstep); out.append(plan['out']); excs.append(plan['exc'])
        elif s[0] == 'fun':
            _, f, args, ret = s[:4]
            args, omitted = fill_defaults(world['funs'][f] if f < len(world['funs']) else {}, args)
            real, rv = vals(args)
            (rreal,), (rret,) = vals([ret])
            ereal, erv = vals(s[5] if len(s) > 5 else [])
            kreal, krv = vals(s[6] if len(s) > 6 else [])
            r_steps.append(['fun', f, rv, rret, [], erv, krv])
            if f >= len(world['funs']):
                out.append(9); excs.append(None); continue
            mod.RET[0] = rreal
            code, _, msg = attempt(lambda: invoke(mod, getattr(mod, f'f{f}'), world['funs'][f], real, ereal, kreal, omitted))
            out.append(code); excs.append(msg)
        else:
            raise ValueError(s)
    tables = {}
    for slot, (k, inst) in slots.items():
        t = getattr(inst, '__pedantic_a42__', None)
        if isinstance(t, dict):
            tables[str(slot)] = sorted(str(key) for key in t)
    return {'world': r_world, 'steps': r_steps, 'out': out, 'exc': excs, 'tables': tables}


def main():
    cases = json.load(sys.stdin)
    for c in cases:
        try:
            r = run_case(c)
        except BaseException as ex:
            r = {'error': type(ex).__name__ + ': ' + str(ex)[:300]}
        print(json.dumps(r), flush=True)


if __name__ == '__main__':
    main()
