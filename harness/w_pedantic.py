"""Implementation worker for the `pedantic/sig x call` streams of C03 / C04 / C05.

For every case a module is generated and written to the scratch directory of the run (pedantic calls
inspect.getsource: the functions must live in real files), imported, the function object that the
decorator receives is REIFIED by plain introspection (signature, bound first argument, text flags
computed from inspect.getsource with the same expressions the library documents), the call is
made the way the case says (via class / instance / subclass, coroutines driven by hand, generators
through a script of next/send/throw/close) and the outcome is canonicalised:
exception class code, identity of result / exception object (`is`), journal of the body with the
identity of every bound argument (`is` against the objects of the call), remaining length of
one-shot iterators.  Never hangs: no loops over user data, generators are stepped a bounded number of times.

Input dimensions that live only here (the model sees their consequences, not the mechanism): the text of the function (comments,
docstrings, nested decorated definitions, '@' after the def line: TEXT_LINES), the function as one of two products of the same def
statement with other annotation objects (case['sibling']: factory_text), bodies that change an argument container in place and return
that very object under the parameter's own annotation object (case['mutret'], case['ret_same']), parameter names (p_names.PNAMES)."""
import sys, json, os, inspect, re, importlib.util, linecache, operator, functools, types, collections, collections.abc
import universe as U
import excs
import p_names as N


class Unrepresentable(Exception):
    pass


def quiet(f):
    """a second, silent decorator for the stacked-decorator cases"""
    @functools.wraps(f)
    def quiet_wrapper(*args, **kwargs):
        return f(*args, **kwargs)
    return quiet_wrapper


_mod_counter = [0]


def make_module(src, extra):
    _mod_counter[0] += 1
    name = f'pv_ped_{os.getpid()}_{_mod_counter[0]}'
    path = os.path.join(os.getcwd(), name + '.py')
    with open(path, 'w') as fh:
        fh.write(src)
    spec = importlib.util.spec_from_file_location(name, path)
    mod = importlib.util.module_from_spec(spec)
    mod.__dict__.update(extra)
    sys.modules[name] = mod
    linecache.checkcache(path)
    exec(compile(src, path, 'exec'), mod.__dict__)
    return mod


# ------------------------------------------------------------------------------------------ source text of a case
def param_text(p, i):
    s = N.pname(p['name'])
    pre = {'varpos': '*', 'varkw': '**'}.get(p['kind'], '')
    s = pre + s
    if p['ann'] is not None:
        s += f': A{i}'
    if p['default'] is not None:
        s += f' = D{i}'
    return s


def signature_text(case):
    parts = []
    if case['recv_name'] is not None:
        parts.append(N.pname(case['recv_name']))
    ps = case['params']
    seen_star = False
    for i, p in enumerate(ps):
        if p['kind'] == 'kwonly' and not seen_star:
            parts.append('*')
            seen_star = True
        if p['kind'] == 'varpos':
            seen_star = True
        parts.append(param_text(p, i))
        if p['kind'] == 'posonly' and (i + 1 == len(ps) or ps[i + 1]['kind'] != 'posonly'):
            parts.append('/')
    return ', '.join(parts)


TEXT_LINES = {
    'comment_star': ('body', '# forwards *args to the backend'),
    'string_star': ('body', "_note = 'see also *args'"),
    'doc_star': ('doc', 'Unlike other helpers this one takes no *args at all.'),
    'doc_static': ('doc', 'This is not a @staticmethod .'),
    'comment_static': ('body', '# TODO turn into a @staticmethod'),
    'doc_pedantic': ('doc', 'Checked by @pedantic at run time.'),
    'comment_rk': ('body', '# callers must obey @require_kwargs'),
    'comment_setter': ('body', None),            # filled with the function name
    'deco_at': ('deco', None),
    'between_at': ('between', '# maintainer: me@example.org'),
    # words that no decision of the library may depend on
    'doc_yield': ('doc', 'Does not yield anything; compare the yield keyword.'),
    'comment_yield': ('body', '# TODO: yield the items lazily instead'),
    'string_yield': ('body', "_hint = 'yield from the backend'"),
    'comment_async': ('body', '# an async def variant with await is planned'),
    'doc_self': ('doc', 'Returns self (or cls), see return below.'),
    'comment_classmethod': ('body', '# unlike a @classmethod or a lambda this keeps state'),
    'doc_return': ('doc', 'return None; raise nothing; def nothing.'),
    # decorator-looking lines and '@' characters AFTER the def line: in the body (a nested decorated function / class, the matrix
    # multiplication operator, a multi-line string) and in the docstring (lines starting with '@tag').  A list is a block of lines.
    'body_nested_deco': ('body', ['@quiet', 'def _pv_inner():', '    return None']),
    'body_nested_deco_call': ('body', ['@functools.lru_cache(maxsize=None)', 'def _pv_inner(_v=None):', '    return _v']),
    'body_nested_class': ('body', ['class _PvLocal:', '    @property', '    def v(self):', '        return 1']),
    'body_matmul': ('body', '_pv_m = None if True else (_pv_body @ _pv_body)'),
    'string_at_lines': ('body', ['_pv_s = \'\'\'', '@deprecated since 1.0', '@see the other helper', '\'\'\'']),
    'doc_at_lines': ('doc', ['Summary line.', '', '@deprecated since 1.0', '@see the other helper', '']),
    'doc_epydoc': ('doc', ['Summary line.', '', '@param a: the first value', '@param b: the second value', '@return: something', '']),
    'none': (None, None),
}


def function_text(case, indent):
    """decorator lines + def + body for the target function"""
    ind = ' ' * indent
    name = case['name']
    lines = []
    text = case.get('text', 'none')
    where, line = TEXT_LINES[text]
    if text == 'comment_setter':
        line = f'# replaces the old @{name}.setter'
    decos = list(case['decos'])           # outermost first, e.g. ['staticmethod', 'pedantic']
    if case.get('wraps') and not case.get('_donor'):
        # the function under test carries the attributes of ANOTHER, already decorated function (functools.wraps(donor) / only its
        # __dict__): applied first, below every other decorator
        decos.append('functools.wraps(_pv_donor)' if case['wraps'] == 'full' else
                     "functools.partial(functools.update_wrapper, wrapped=_pv_donor, assigned=(), updated=('__dict__',))")
    for k, d in enumerate(decos):
        l = '@' + d
        if where == 'deco' and k == len(decos) - 1:
            l += '  # ask me@example.org'
        lines.append(ind + l)
        if where == 'between' and k == len(decos) - 1:
            lines.append(ind + line)
    ret = ' -> R' if case['ret'] is not None else ''
    kw = 'async def' if case['async'] else 'def'
    lines.append(f'{ind}{kw} {name}({signature_text(case)}){ret}:')
    if where == 'doc':
        if isinstance(line, list):      # a multi-line docstring; its lines are indented like the body
            lines.append(f'{ind}    """{line[0]}')
            lines.extend((f'{ind}    {l}' if l else '') for l in line[1:])
            lines.append(f'{ind}    """')
        else:
            lines.append(f'{ind}    """{line}"""')
    if where == 'body':
        for l in (line if isinstance(line, list) else [line]):
            # the inside of a triple-quoted string starts in column 0 (a line that BEGINS with '@')
            lines.append(l if (text == 'string_at_lines' and not l.startswith('_pv_s')) else f'{ind}    {l}')
    if case['gen']:
        lines.append(f'{ind}    return (yield from _pv_gen(locals()))')
    else:
        lines.append(f'{ind}    return _pv_body(locals())')
    return '\n'.join(lines) + '\n'


def factory_text(case):
    """the target function as the product of a factory: ONE def statement evaluated twice, with different annotation (and
    possibly default) objects - the sibling product is built before or after the one under test"""
    sib = case['sibling']
    ps = case['params']
    formal = [f'A{i}' for i, p in enumerate(ps) if p['ann'] is not None] + [f'D{i}' for i, p in enumerate(ps) if p['default'] is not None]
    if case['ret'] is not None:
        formal.append('R')
    own = ', '.join(formal)
    other = ', '.join('S' + n for n in formal)
    name = case['name']
    text = f'def _pv_make({own}):\n' + function_text(case, 4) + f'    return {name}\n'
    mk_own = f'{name} = _pv_make({own})\n'
    mk_sib = f'_pv_sib = _pv_make({other})\n'
    return text + (mk_sib + mk_own if sib.get('order', 'before') == 'before' else mk_own + mk_sib)


def module_text(case):
    head = 'import functools\nfrom pv_w import quiet\n'
    style = case['style']
    if style == 'func':
        shadow = ''
        if case.get('shadow'):
            sig = '*args: int' if case['shadow']['star'] else 'a: int = 0, b: int = 0'
            shadow = ''.join('@' + d + '\n' for d in case['decos']) + f'def {case["name"]}({sig}) -> None:\n    return None\n_pv_shadow = {case["name"]}\n'
        if case.get('sibling'):
            return head + shadow + factory_text(case)
        donor = ''
        if case.get('wraps'):
            # an earlier, decorated function with the very same def statement: the one whose name / doc / attributes are taken over
            donor = function_text(dict(case, _donor=True), 0) + f'_pv_donor = {case["name"]}\n'
        return head + shadow + donor + function_text(case, 0)
    body = function_text(case, 4)
    donor = ''
    if case.get('wraps'):
        # the method of another, already decorated class (same def statement) whose name / doc / attributes the method under test keeps
        donor = (('@pedantic_class\n' if style == 'class_deco' else '') + 'class _PvDonor:\n' + function_text(dict(case, _donor=True), 4)
                 + f'_pv_donor = _PvDonor.{case["name"]}\n')
    if style == 'property':
        # getter + setter of one property `name`
        g = dict(case, decos=['property'], params=[], ret=case['prop_get_ret'], name=case['name'], text='none', gen=False)
        gt = function_text(g, 4).replace(' -> R', ' -> RG' if case['prop_get_ret'] is not None else '')
        s = dict(case, decos=[case['name'] + '.setter'])
        st = function_text(s, 4)
        body = gt + st
    falsy = (case.get('selfann') or {}).get('falsy')
    dunder = ''
    if falsy == 'len':
        dunder = '    def __len__(self):\n        _pv_len()\n        return 0\n'
    elif falsy == 'bool':
        dunder = '    def __bool__(self):\n        _pv_len()\n        return False\n'
    out = head + donor + 'class K:\n' + dunder + body + 'class Sub(K):\n    pass\n'
    return out


# ------------------------------------------------------------------------------------------ reification of the function object
def reify_param(p, abstract_default):
    kind = {inspect.Parameter.POSITIONAL_ONLY: 'posonly', inspect.Parameter.POSITIONAL_OR_KEYWORD: 'pos',
            inspect.Parameter.VAR_POSITIONAL: 'varpos', inspect.Parameter.KEYWORD_ONLY: 'kwonly',
            inspect.Parameter.VAR_KEYWORD: 'varkw'}[p.kind]
    ann = None if p.annotation is inspect.Parameter.empty else U.reify_ann(p.annotation)
    dflt = None if p.default is inspect.Parameter.empty else U.reify_val(p.default, abstract_default)
    return {'name': N.pcode(p.name), 'kind': kind, 'ann': ann, 'default': dflt}


def reify_obj(o, K, Sub):
    if o is K: return ['class', ['user', [5]]]
    if o is Sub: return ['class', ['user', [5, 0]]]
    if type(o) is K: return ['inst', [5], o._pv_id]
    if type(o) is Sub: return ['inst', [5, 0], o._pv_id]
    raise Unrepresentable('receiver object outside the universe')


def reify_fn(func, case, K, Sub):
    sig = inspect.signature(func)
    src = inspect.getsource(func)
    name = func.__name__
    dflts = {N.pcode_safe(N.pname(p['name'])): p['default'] for p in case['params']}
    params = [reify_param(p, dflts.get(N.pcode(p.name))) for p in sig.parameters.values()]
    bound = None
    if inspect.ismethod(func):
        bound = [N.pcode(func.__func__.__code__.co_varnames[0]), reify_obj(func.__self__, K, Sub)]
    fa = inspect.getfullargspec(func).args
    ret = None if sig.return_annotation is inspect.Signature.empty else U.reify_ann(sig.return_annotation)
    return {
        'name': name, 'dotted': '.' in func.__qualname__, 'params': params, 'bound': bound,
        'first_arg': N.pcode(fa[0]) if fa else None, 'ret': ret,
        'coroutine': inspect.iscoroutinefunction(func), 'generator': inspect.isgeneratorfunction(func),
        'text': {'star_args': '*args' in src, 'staticmethod': '@staticmethod' in src, 'setter': f'@{name}.setter' in src,
                 'pedantic': '@pedantic' in src or '@require_kwargs' in src,
                 'n_at': len(re.findall('@', src.split('def')[0]))},
    }


# ------------------------------------------------------------------------------------------ running one case
class Run:
    def __init__(self, case):
        self.case = case
        self.journal = []
        self.seen = []           # function objects handed to pedantic / require_kwargs
        self.objs = {}           # identity table: source code -> object

    def classify(self, o):
        """all sources whose object `o` is"""
        return [list(k) for k, v in self.objs.items() if v is o]

    def snap(self, loc):
        entry = {}
        for name, o in loc.items():
            if name.startswith('_'):
                continue
            code = N.pcode(name)
            kind = self.kinds.get(code, 'pos')
            if kind == 'varpos':
                entry[code] = ['star', [self.classify(x) for x in o]]
            elif kind == 'varkw':
                entry[code] = ['kws', [N.pcode(k) for k in o], all(any(s == [3, N.pcode(k)] for s in self.classify(v)) for k, v in o.items())]
            else:
                entry[code] = ['one', self.classify(o)]
        consumed = [list(k) for k, its in self.iters.items() if advanced(its)]
        return {'bind': entry, 'consumed': consumed}

    inner_call = None
    inner_res = None

    def body(self, loc):
        if self.inner_call is not None and self.inner_res is None:
            # first (outer) invocation: make the call under test from inside the running call, do not journal this one
            call, self.inner_call = self.inner_call, None
            self.inner_res = {'out': -1}
            self.inner_res = call()
            if self.case['body'][0] == 'ret':
                return self.result_obj
            raise self.exc_obj
        self.journal.append(self.snap(loc))
        b = self.case['body']
        mu = self.case.get('mutret')
        if mu and b[0] == 'ret':
            # the body changes the container it was given IN PLACE and hands that very object back
            obj = loc.get(N.pname(mu['name']), self)
            if obj is self:
                return self.result_obj
            mutate_in_place(obj, mu)
            self.result_obj = obj
            self.mutated = obj
            return obj
        if b[0] == 'ret':
            return self.result_obj
        raise self.exc_obj

    def gen(self, loc):
        """scripted generator body: a list of steps ['yield', v] / ['ret', v] / ['raise', path];
        a throw() is answered according to case['on_throw']: 'propagate' | ['yield', v] | ['ret', v]"""
        self.journal.append(self.snap(loc))
        self.sent = []
        i = 0
        script = self.case['script']
        while i < len(script):
            st = script[i]
            i += 1
            if st[0] == 'yield':
                obj = self.script_objs[i - 1]
                try:
                    got = yield obj
                    self.sent.append(['send', self.classify_sent(got)])
                except GeneratorExit:
                    self.sent.append(['close'])
                    raise
                except BaseException as ex:
                    self.sent.append(['throw', excs.path_of(type(ex))])
                    ot = self.case.get('on_throw', 'propagate')
                    if ot == 'propagate':
                        raise
                    if ot[0] == 'ret':
                        return self.throw_obj
                    got = yield self.throw_obj
                    self.sent.append(['send', self.classify_sent(got)])
            elif st[0] == 'ret':
                return self.script_objs[i - 1]
            else:
                raise self.script_objs[i - 1]
        return None

    def classify_sent(self, o):
        if o is None:
            return -1
        for k, v in enumerate(self.op_objs):
            if v is o:
                return k
        return -2


def mutate_in_place(obj, mu):
    """append / add / set one element; an object without the method is left alone (the call had no business reaching the body)"""
    add = U.render_val(mu['add'])
    try:
        if isinstance(obj, dict):
            if 'key' not in mu:      # the change was planned for a sequence / set, the value turned out to be a mapping: left alone
                return
            obj[U.render_val(mu['key'])] = add
        elif isinstance(obj, (set,)):
            obj.add(add)
        else:
            obj.append(add)
    except (AttributeError, TypeError):
        pass


LIST_ITER = type(iter([]))


def find_iters(o, acc=None, depth=0):
    """every one-shot iterator inside a rendered value (not inside another iterator), with what it has still to give"""
    acc = [] if acc is None else acc
    if depth > 8:
        return acc
    if isinstance(o, LIST_ITER):
        acc.append((o, operator.length_hint(o)))
    elif isinstance(o, (list, tuple, set, frozenset, collections.deque)):
        for x in list(o):
            find_iters(x, acc, depth + 1)
    elif isinstance(o, dict):
        for k, x in list(o.items()):
            find_iters(k, acc, depth + 1)
            find_iters(x, acc, depth + 1)
    elif isinstance(o, (collections.abc.KeysView, collections.abc.ValuesView, collections.abc.ItemsView)):
        for x in list(o):
            find_iters(x, acc, depth + 1)
    return acc


def advanced(its):
    return any(operator.length_hint(it) != n for it, n in its)


def exc_code(ex):
    return N.exc_code(excs.path_of(type(ex)))


def rann(a):
    """annotation objects; ['selftype'] is typing.Self (outside the abstract syntax of the model)"""
    import typing
    return typing.Self if a == ['selftype'] else U.render_ann(a)


def run_case(case):
    # a context name may stand for the generated class K itself (['user', [5]]): it is bound once the class exists
    k_names = [U.ctx_name(n) for n, cl in case['ctx'] if cl == ['user', [5]]]
    ctx = U.real_ctx([[n, cl] for n, cl in case['ctx'] if cl != ['user', [5]]])
    for n in k_names:
        globals().pop(n, None)
    globals().update(ctx)
    r = Run(case)
    extra = dict(ctx)
    r.kinds = {}
    r.iters = {}
    # annotation / default objects
    for i, p in enumerate(case['params']):
        r.kinds[p['name']] = p['kind']
        if p['ann'] is not None:
            extra[f'A{i}'] = rann(p['ann'])
        if p['default'] is not None:
            d = U.render_val(p['default'])
            extra[f'D{i}'] = d
            r.objs[(4, p['name'])] = d
            if find_iters(d):
                r.iters[(4, p['name'])] = find_iters(d)
    if case['ret'] is not None:
        extra['R'] = rann(case['ret'])
        same = [i for i, p in enumerate(case['params']) if p['name'] == case.get('ret_same') and p['ann'] == case['ret']]
        if same:      # parameter and result are annotated with the very same annotation object
            extra['R'] = extra[f'A{same[0]}']
    sib = case.get('sibling')
    if sib:
        # the annotation / default objects of the sibling product of the same def statement
        s_anns = {k: a for k, a in sib.get('anns', [])}
        s_dfl = {k: d for k, d in sib.get('defaults', [])}
        for i, p in enumerate(case['params']):
            if p['ann'] is not None:
                extra[f'SA{i}'] = rann(s_anns[p['name']]) if s_anns.get(p['name']) is not None else extra[f'A{i}']
            if p['default'] is not None:
                extra[f'SD{i}'] = U.render_val(s_dfl[p['name']]) if s_dfl.get(p['name']) is not None else extra[f'D{i}']
        if case['ret'] is not None:
            extra['SR'] = rann(sib['ret']) if sib.get('ret') is not None else extra['R']
    if case.get('prop_get_ret') is not None:
        extra['RG'] = U.render_ann(case['prop_get_ret'])
    reified = {}
    r.len_calls = [0]
    extra['_pv_len'] = lambda: r.len_calls.__setitem__(0, r.len_calls[0] + 1)
    if case['body'][0] == 'ret' and case['body'][1] == ['recv']:
        r.result_obj = None          # the receiver itself: set when the receiver exists
    elif case['body'][0] == 'ret':
        r.result_obj = U.render_val(case['body'][1])
        reified['body'] = ['ret', U.reify_val(r.result_obj, case['body'][1])]
        r.result_iters = find_iters(r.result_obj) if not case.get('mutret') else []
    else:
        import p_common_msgs
        r.exc_obj = excs.cls_of(case['body'][1])(p_common_msgs.EXC_MSGS[case.get('exc_msg', 0)])
    if case['gen']:
        r.script_objs = [U.render_val(s[1]) if s[0] in ('yield', 'ret') else excs.cls_of(s[1])('scripted') for s in case['script']]
        ot = case.get('on_throw', 'propagate')
        r.throw_obj = U.render_val(ot[1]) if ot != 'propagate' else None
        reified['script'] = [[s[0], U.reify_val(o, s[1])] if s[0] in ('yield', 'ret') else s for s, o in zip(case['script'], r.script_objs)]
        reified['on_throw'] = ot if ot == 'propagate' else [ot[0], U.reify_val(r.throw_obj, ot[1])]
        r.op_reified = {}
    extra['_pv_body'] = r.body
    extra['_pv_gen'] = r.gen
    import pedantic as P
    from pedantic import pedantic_class

    def spy(deco):
        def spying(f):
            r.seen.append(f)
            return deco(f)
        return spying
    extra['pedantic'] = spy(P.pedantic)
    extra['require_kwargs'] = spy(P.require_kwargs)
    extra['pedantic_class'] = pedantic_class
    res = {}
    try:
        mod = make_module(module_text(case), extra)
    except BaseException as ex:
        return {'decoration': exc_code(ex), 'exc': type(ex).__name__ + ': ' + str(ex)[:150]}
    style = case['style']
    K = getattr(mod, 'K', None)
    Sub = getattr(mod, 'Sub', None)
    for n in k_names:
        if K is not None:
            globals()[n] = K
            setattr(mod, n, K)
    name = case['name']
    if style in ('class_deco', 'property'):
        # what for_all_methods will hand to the decorator: getattr(cls, attr) / prop.fset
        target = getattr(K, name)
        if style == 'property':
            target = K.__dict__[name].fset
        func_obj = target
        try:
            fnr = reify_fn(target, case, K, Sub)
        except Unrepresentable as ex:
            return {'skip': str(ex)}
        try:
            pedantic_class(K)
        except BaseException as ex:
            return {'decoration': exc_code(ex), 'exc': type(ex).__name__ + ': ' + str(ex)[:150]}
    else:
        if len(r.seen) != 1 + (1 if case.get('shadow') else 0) + (1 if case.get('sibling') else 0) + (1 if case.get('wraps') else 0):
            return {'error': f'{len(r.seen)} functions reached the decorator'}
        func_obj = r.seen[-2] if (case.get('sibling') and case['sibling'].get('order', 'before') != 'before') else r.seen[-1]
        try:
            fnr = reify_fn(func_obj, case, K, Sub)
        except Unrepresentable as ex:
            return {'skip': str(ex)}
    res['fn'] = fnr
    res['reified'] = reified
    # the objects of the call
    args = []
    reified['args'], reified['kwargs'] = [], []
    def is_recv(v):      # the abstract value of the receiver itself (instances of the generated class K / Sub)
        return v[0] == 'inst' and v[1][:1] == [5]
    for i, v in enumerate(case['args']):
        if is_recv(v):
            o = None             # the receiver object itself: filled in when it exists
            reified['args'].append(v)
        else:
            o = U.render_val(v)
            reified['args'].append(U.reify_val(o, v))
        args.append(o)
        r.objs[(2, i)] = o
        if o is not None and find_iters(o):
            r.iters[(2, i)] = find_iters(o)
    kwargs = {}
    for kname, v in case['kwargs']:
        if kname == 0 and case.get('self_kw'):
            continue
        if v == ['recv2']:
            o = None                 # a second instance of the class: filled in when the class exists
        elif is_recv(v):
            o = None
            reified['kwargs'].append([kname, v])
        else:
            o = U.render_val(v)
            reified['kwargs'].append([kname, U.reify_val(o, v)])
        kwargs[N.pname(kname)] = o
        r.objs[(3, kname)] = o
        if o is not None and find_iters(o):
            r.iters[(3, kname)] = find_iters(o)
    recv_objs = {}
    if K is not None:
        k_inst, s_inst = K.__new__(K), Sub.__new__(Sub)
        k_inst._pv_id, s_inst._pv_id = 70, 71
        recv_objs = {'class': K, 'subclass': Sub, 'instance': k_inst, 'sub_instance': s_inst}
        if case['body'] == ['ret', ['recv']]:
            r.result_obj = recv_objs[case.get('via') or 'instance']
        by_id = {70: k_inst, 71: s_inst}
        for i, v in enumerate(case['args']):
            if is_recv(v) and v[2] in by_id:
                args[i] = by_id[v[2]]
                r.objs[(2, i)] = by_id[v[2]]
        for kname, v in case['kwargs']:
            if is_recv(v) and v[2] in by_id and not (kname == 0 and case.get('self_kw')):
                kwargs[N.pname(kname)] = by_id[v[2]]
                r.objs[(3, kname)] = by_id[v[2]]
        for kname, v in case['kwargs']:
            if v == ['recv2']:
                other = K.__new__(K)
                other._pv_id = 72
                kwargs[N.pname(kname)] = other
                r.objs[(3, kname)] = other
        for o, code in ((K, N.obj_code(['class', ['user', [5]]])), (Sub, N.obj_code(['class', ['user', [5, 0]]])),
                        (k_inst, N.obj_code(['inst', [5], 70])), (s_inst, N.obj_code(['inst', [5, 0], 71]))):
            r.objs[(1, code)] = o
    via = case.get('via')
    if case.get('self_kw'):
        kwargs['self'] = recv_objs['instance']
        r.objs[(3, 0)] = recv_objs['instance']
    # -------- the call
    def target_callable():
        if style == 'func':
            return getattr(mod, name)
        base = recv_objs[via]
        return getattr(base, name)

    op_results = None
    if case.get('shadow'):
        # the earlier function of the same name is called first; whatever it does must not influence the call under test
        try:
            mod._pv_shadow(*[U.render_val(v) for v in case['shadow']['args']])
        except BaseException:      # noqa
            pass

    def call_with(pos_args, kw):
        f = target_callable()
        pos = list(pos_args)
        if case.get('explicit_self'):
            pos = [recv_objs['instance']] + pos
        out = f(*pos, **kw)
        if case['async'] and inspect.iscoroutine(out):
            co = out
            try:
                co.send(None)
                co.close()
                raise RuntimeError('scripted coroutine suspended')
            except StopIteration as stop:
                out = stop.value
        return out

    if case.get('sibling') and case['sibling'].get('call'):
        # the sibling product is called first (same arguments, fresh objects); whatever it does says nothing about the call under test
        saved = r.result_obj if hasattr(r, 'result_obj') else None
        try:
            out = mod._pv_sib(*[U.render_val(v) for v in case['args']], **{N.pname(k): U.render_val(v) for k, v in case['kwargs']})
            if inspect.iscoroutine(out):
                try:
                    out.send(None)
                except StopIteration:
                    pass
                out.close()
        except BaseException:      # noqa
            pass
        r.journal.clear()
        if hasattr(r, 'result_obj'):
            r.result_obj = saved
        r.mutated = None
        try:      # default objects shared by the two products may have been changed by that call: the function is reified as it is now
            res['fn'] = reify_fn(func_obj, case, K, Sub)
        except Unrepresentable as ex:
            return {'skip': str(ex)}

    hist = case.get('history')
    if hist:
        # earlier calls on the SAME decorated callable, then a default object is mutated in place; the function is reified
        # afterwards: the model and the oracle see the defaults as they are at the call under test
        for pre in hist.get('pre', []):
            try:
                call_with([], {N.pname(k): U.render_val(v) for k, v in pre})
            except BaseException:      # noqa
                pass
        mu = hist.get('mutate')
        if mu:
            for i, p in enumerate(case['params']):
                if p['name'] == mu['name']:
                    extra[f'D{i}'].append(U.render_val(mu['append']))
        r.journal.clear()
        try:
            res['fn'] = reify_fn(func_obj, case, K, Sub)
        except Unrepresentable as ex:
            return {'skip': str(ex)}

    def do_call():
        out_res = {}
        nonlocal op_results
        try:
            if style == 'property':
                inst = recv_objs[via]
                setattr(inst, name, args[0])
                out = None
            else:
                out = call_with(args, kwargs)
            out_res['out'] = 0
            if case['gen']:
                out_res['wrapper_type'] = type(out).__name__
                if case.get('drive') == 'yield_from':
                    def _pv_outer(inner):
                        result = yield from inner
                        return result
                    out = _pv_outer(out)
                op_results = run_ops(r, out, case)
            elif case['body'][0] == 'ret' and style != 'property':
                out_res['same_object'] = out is r.result_obj
                # the state of the one-shot iterators inside the result at the moment the caller receives it
                out_res['result_consumed'] = advanced(getattr(r, 'result_iters', []))
            elif style == 'property':
                out_res['same_object'] = True
        except BaseException as ex:
            out_res['out'] = exc_code(ex)
            out_res['exc'] = type(ex).__name__ + ': ' + str(ex)[:150].replace('\n', ' ')
            out_res['same_object'] = (case['body'][0] == 'raise' and not case['gen'] and ex is r.exc_obj)
        return out_res

    if case.get('inside'):
        # the call under test is made while a (conforming keyword) call of the same callable is running
        r.inner_call = do_call
        try:
            call_with([], {N.pname(k): U.render_val(v) for k, v in case['inside']['kwargs']})
        except BaseException:      # noqa
            pass
        if r.inner_res is None:
            return {'skip': 'the outer call did not reach the body'}
        res.update(r.inner_res)
    else:
        res.update(do_call())
    res['len_calls'] = r.len_calls[0]
    res['journal'] = r.journal
    if case.get('mutret') and getattr(r, 'mutated', None) is not None:
        # the product of the body is the object it was really given, as it is after the change (if the call protocol handed the body
        # another object than the case intended - a known finding - the model and the oracle are told what the body really produced)
        try:
            reified['body'] = ['ret', U.reify_val(r.mutated)]
        except Exception:      # noqa
            return {'skip': 'the object the body changed and returned is outside the universe'}
    if op_results is not None:
        reified['ops'] = [['send', r.op_reified[k]] if (o[0] == 'send' and k in r.op_reified) else o for k, o in enumerate(case['ops'][:40])]
        res['ops'] = op_results
        res['resumes'] = r.sent if hasattr(r, 'sent') else []
    return res


def run_ops(r, w, case):
    """drive the GeneratorWrapper through the scripted operations; per operation:
    [kind, code, identity] with kind 0 = a value came back (identity: index of the script object or -1),
    1 = StopIteration (identity of .value), 2 = other exception (class code)"""
    r.op_objs = []
    outs = []
    for op in case['ops'][:40]:
        try:
            if op[0] == 'next':
                r.op_objs.append(None)
                v = next(w)
            elif op[0] == 'send':
                o = U.render_val(op[1])
                r.op_reified[len(r.op_objs)] = U.reify_val(o, op[1])
                r.op_objs.append(o)
                v = w.send(o)
            elif op[0] == 'throw':
                r.op_objs.append(None)
                v = w.throw(excs.cls_of(op[1])('thrown'))
            else:
                r.op_objs.append(None)
                v = w.close()
                outs.append([3, 0 if v is None else 1, -1])
                continue
            outs.append([0, 0, ident(r, v)])
        except StopIteration as stop:
            outs.append([1, 0, ident(r, stop.value)])
        except BaseException as ex:
            is_scripted = any(ex is o for o in r.script_objs)
            outs.append([2, exc_code(ex), 1 if is_scripted else 0])
    return outs


def ident(r, v):
    if v is None:
        return -1
    for k, o in enumerate(r.script_objs):
        if o is v:
            return k
    if r.throw_obj is not None and v is r.throw_obj:
        return 1000
    return -2


def main():
    cases = json.load(sys.stdin)
    sys.modules.setdefault('pv_w', sys.modules[__name__])
    real_stdout = sys.stdout
    for c in cases:
        sys.stdout = open(os.devnull, 'w')
        try:
            res = run_case(c)
        except BaseException as ex:
            import traceback
            res = {'error': type(ex).__name__ + ': ' + str(ex)[:300] + ' @ ' + traceback.format_exc(limit=4)[-400:]}
        finally:
            sys.stdout.close()
            sys.stdout = real_stdout
        print(json.dumps(res), flush=True)


if __name__ == '__main__':
    main()
