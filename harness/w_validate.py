"""Implementation worker for C12 / C13: build a real function / method (sync or async) from the abstract
signature, real pedantic Parameters with harness-defined validators and external sources, decorate with
pedantic's @validate, perform the call and report what the body saw, what the validators were fed with and
which exception left.  Value / name / validator codes are shared with coq/Model/ValidateEval.v."""
import sys, json, os, io, asyncio, contextlib
import excs

WORDS = ['true', 'false', 'abc', ' True ', '', 'x1', 'True']


# parameter names are inputs: besides p1..p9 the names the implementation (or Python convention) treats specially, spelled
# exactly like its own variables (`args` / `kwargs` WITHOUT star in particular)
SPECIAL_NAMES = {0: 'self', 10: 'args', 11: 'kwargs', 12: 'cls', 13: 'result', 14: 'func', 15: 'parameters', 16: 'k', 17: 'value',
                 18: 'signature'}
SPECIAL_CODES = {v: k for k, v in SPECIAL_NAMES.items()}


def pname(n):
    return SPECIAL_NAMES.get(n) or 'p%d' % n


def ncode(s):
    if s in SPECIAL_CODES:
        return SPECIAL_CODES[s]
    if isinstance(s, str) and s.startswith('*args[') and s[6:-1].isdigit():      # a passed-through surplus positional (model: star_key)
        return 1000 + int(s[6:-1])
    if isinstance(s, str) and s[:1] == 'p' and s[1:].isdigit():
        return int(s[1:])
    return -1


class Inst:
    """instances of the generated classes derive from this (value code 5)"""


def dec(v):
    t, a, b = v
    if t == 0:
        return None
    if t == 1:
        return int(a)
    if t == 2:
        return bool(a)
    if t == 3:
        return (' %d ' % a) if b else str(a)
    if t == 4:
        return WORDS[a]
    raise ValueError('value code %r' % (v,))


def enc(x):
    if x is None:
        return [0, 0, 0]
    if isinstance(x, bool):
        return [2, int(x), 0]
    if isinstance(x, int):
        return [1, x, 0]
    if isinstance(x, str):
        if x in WORDS:
            return [4, WORDS.index(x), 0]
        try:
            z = int(x)
            if str(z) == x:
                return [3, z, 0]
            if ' %d ' % z == x:
                return [3, z, 1]
        except ValueError:
            pass
        return [9, 0, 0, repr(x)[:40]]
    if isinstance(x, Inst):
        return [5, 0, 0]
    if isinstance(x, list) and len(x) <= 6:          # a list of strings: item codes in base 256 (v_common.list_items)
        code = 0
        for it in reversed(x):
            e = enc(it) if isinstance(it, str) else [9]
            if e[0] == 3 and -50 <= e[1] < 50:
                k = (e[1] + 50) * 2 + e[2]
            elif e[0] == 4:
                k = 200 + e[1]
            else:
                return [9, 2, 0, repr(x)[:40]]
            code = code * 256 + k
        return [6, code, len(x)]
    return [9, 1, 0, repr(x)[:40]]


def make_validator(desc, pn, idx, journal):
    from pedantic.decorators.fn_deco_validate.validators import Validator
    from pedantic.decorators.fn_deco_validate.exceptions import ValidatorException
    kind = desc[0]

    class HV(Validator):
        def validate(self, value):
            journal.append([pn, idx, enc(value)])
            is_int = isinstance(value, int) and not isinstance(value, bool)
            if kind == 'ident':
                return value
            if kind == 'max':
                if is_int and value <= desc[1]:
                    return value
                self.raise_exception(value=value, msg='too large')
            if kind == 'maxnamed':
                # a validator whose rejection already CARRIES a parameter_name (that of another field): a composite validator
                # delegating through the public helper Validator.validate_param(value, parameter_name=<field>) (desc[3] == 0)
                # or building ValidatorException(parameter_name=<field>) itself (desc[3] == 1).  Accepts like 'max'.
                if desc[3] == 0:
                    return make_validator(['max', desc[1]], pn, idx, []).validate_param(value=value, parameter_name=pname(desc[2]))
                if is_int and value <= desc[1]:
                    return value
                raise ValidatorException(msg='too large', validator_name=self.name, value=value, parameter_name=pname(desc[2]))
            if kind == 'add':
                if is_int:
                    return value + desc[1]
                self.raise_exception(value=value, msg='not an int')
            if kind == 'tonone':
                return None
            if kind == 'tostr':
                if is_int:
                    return str(value)
                if isinstance(value, str):
                    return value
                self.raise_exception(value=value, msg='no str')
            if kind == 'rejectall':
                self.raise_exception(value=value, msg='rejected')
            if kind == 'raiseifneg':
                if is_int and value < 0:
                    cls = excs.cls_of(desc[1])
                    if issubclass(cls, ValidatorException):
                        raise cls(msg='neg', validator_name='HV', value=value)
                    raise cls('neg')
                return value
            if kind == 'const':
                return desc[1]
            if kind == 'nonetozero':
                return 0 if value is None else value
            if kind == 'rejectoddsub':
                if is_int and value % 2 == 1:
                    raise excs.cls_of([0, 13, 0, 0])(msg='odd', validator_name='HV', value=value)
                return value
            raise RuntimeError('validator kind ' + kind)
    return HV()


CONV = {0: None, 1: int, 2: str, 3: bool, 4: list}


def env_name(p):
    return p.get('env_var') or pname(p['n'])


def make_param(p, journal):
    from pedantic.decorators.fn_deco_validate.parameters import Parameter, ExternalParameter, EnvironmentVariableParameter
    from pedantic.decorators.fn_deco_validate.parameters.abstract_parameter import NoValue
    name = pname(p['n'])
    chain = [make_validator(d, p['n'], i, journal) for i, d in enumerate(p['chain'])]
    kw = dict(name=name, validators=chain, required=p['required'])
    if p['default'] is not None:
        kw['default'] = dec(p['default'])
    kind = p['kind']
    if kind == 'plain':
        return Parameter(value_type=CONV[p['conv']], **kw)
    if kind == 'hext':
        st = p['ext']

        class HExt(ExternalParameter):
            def has_value(self):
                return st['state'] != 'absent'

            def load_value(self):
                if st['state'] == 'broken':
                    raise excs.cls_of(st['exc'])('broken source')
                return dec(st['val'])
        return HExt(value_type=CONV[p['conv']], **kw)
    if kind == 'env':
        return EnvironmentVariableParameter(value_type=CONV[p['conv']], env_var_name=p.get('env_var'), **kw)
    from pedantic.decorators.fn_deco_validate.parameters import flask_parameters as fp
    cls = {'fjson': fp.FlaskJsonParameter, 'fform': fp.FlaskFormParameter, 'fget': fp.FlaskGetParameter,
           'fheader': fp.FlaskHeaderParameter, 'fpath': fp.FlaskPathParameter}[kind]
    return cls(value_type=CONV[p['conv']], **kw)


def make_function(case, seen, token):
    sig = case['sig']
    parts = []
    star = False
    varpos = sig.get('varpos')
    ns = {'SEEN': seen, 'TOKEN': token}
    for i, sp in enumerate(sig['params']):
        if sp['kwonly'] and not star:
            parts.append('*args' if varpos else '*')
            star = True
        s = pname(sp['n'])
        if sp['default'] is not None:
            ns['D%d' % i] = dec(sp['default'])
            s += '=D%d' % i
        parts.append(s)
        if sp.get('posonly') and not (i + 1 < len(sig['params']) and sig['params'][i + 1].get('posonly')):
            parts.append('/')
    if varpos and not star:
        parts.append('*args')
    if sig['varkw']:
        parts.append('**kw')
    src = '%sdef f(%s):\n    SEEN.append(dict(locals()))\n    return TOKEN\n' % ('async ' if case['async'] else '', ', '.join(parts))
    exec(src, ns)
    return ns['f']


_app = None


def request_ctx(rq):
    global _app
    if rq is None:
        return contextlib.nullcontext()
    from flask import Flask
    if _app is None:
        _app = Flask('pv_validate')
    from werkzeug.datastructures import MultiDict
    spell = rq.get('header_spelling', {})
    kw = {'method': 'POST', 'headers': {header_name(pname(int(k)), spell.get(k, 0)): dec(v) for k, v in rq.get('headers', {}).items()}}
    more = rq.get('args_more', {})
    qs = MultiDict([(pname(int(k)), dec(x)) for k, v in rq.get('args', {}).items() for x in [v] + more.get(k, [])])
    if rq['json'] and rq.get('json_null'):
        kw['data'], kw['content_type'] = 'null', 'application/json'
    elif rq['json']:
        kw['json'] = {pname(int(k)): dec(v) for k, v in rq.get('json_body', {}).items()}
    else:
        kw['data'] = {pname(int(k)): dec(v) for k, v in rq.get('form', {}).items()}
    return _app.test_request_context('/', query_string=qs, **kw)


def header_name(name, spelling):
    """the same header in another spelling: as the parameter / upper case / capitalised"""
    return name if spelling == 0 else name.upper() if spelling == 1 else name.capitalize()


# ---- has_value() / load_value() of one source object (stream validate-sources)
def make_deserializable():
    from pedantic.decorators.fn_deco_validate.parameters import Deserializable
    from pedantic.decorators.fn_deco_validate.exceptions import ValidatorException

    class HDeser(Deserializable):
        """mirrors Model/ValidateEval.from_json"""
        @staticmethod
        def from_json(data):
            v = data['p1']                                   # KeyError without the member, TypeError for the document null
            if isinstance(v, bool):
                raise ValueError('a bool')
            if isinstance(v, int) and v < 0:
                raise ValidatorException(msg='negative', validator_name='HDeser', value=v)
            return v
    return HDeser


def run_probe(case):
    from pedantic.decorators.fn_deco_validate.parameters import EnvironmentVariableParameter
    from pedantic.decorators.fn_deco_validate.parameters import flask_parameters as fp
    pr = case['probe']
    name = pname(pr['n'])
    vt = list if pr.get('as_list') else None
    if pr['kind'] == 'env':
        var = pr.get('env_var')
        p = EnvironmentVariableParameter(name=name, env_var_name=var, required=False)
    elif pr['kind'] == 'fdeser':
        p = fp.GenericFlaskDeserializer(cls=make_deserializable(), catch_exception=pr['catch'], name=name, required=False)
    else:
        cls = {'fjson': fp.FlaskJsonParameter, 'fform': fp.FlaskFormParameter, 'fget': fp.FlaskGetParameter,
               'fheader': fp.FlaskHeaderParameter}[pr['kind']]
        p = cls(name=name, value_type=vt, required=False)
    env_vars = case.get('environ_names', {})
    touched = list(env_vars.values())
    res = {}
    try:
        for k in touched:
            os.environ.pop(k, None)
        for code, v in case.get('environ', {}).items():
            os.environ[env_vars[code]] = dec(v)
        with request_ctx(case.get('request')):
            for what, call in (('has', p.has_value), ('load', p.load_value)):
                try:
                    r = call()
                    res[what] = ['ok', int(r) if what == 'has' and isinstance(r, bool) else enc(r)]
                except BaseException as ex:
                    pn = getattr(ex, 'parameter_name', None)
                    res[what] = ['raise', excs.path_of(type(ex)), (ncode(pn) + 1) if pn else 0, type(ex).__name__]
    finally:
        for k in touched:
            os.environ.pop(k, None)
    return res


MODES = None


def decorate(case, params, seen, token):
    """case: sig / mode / strict / ignore / async of ONE function; params: real Parameter objects (possibly shared)"""
    from pedantic.decorators.fn_deco_validate.fn_deco_validate import validate, ReturnAs
    func = make_function(case, seen, token)
    mode = [ReturnAs.ARGS, ReturnAs.KWARGS_WITH_NONE, ReturnAs.KWARGS_WITHOUT_NONE][case['mode']]
    deco = validate(*params, return_as=mode, strict=case['strict'], ignore_input=case['ignore'])(func)
    if case['sig']['method']:
        K = type('K', (Inst,), {'f': deco})
        return K().f
    return deco


def perform(case, target, pdescs, journal, seen, token):
    """one call of an already decorated function; pdescs: the Parameter descriptions whose environment variables
    are set up for this call; journal / seen are emptied first"""
    del journal[:]
    del seen[:]
    args = [dec(v) for v in case['args']]
    kwargs = {pname(n): dec(v) for n, v in case['kwargs']}
    touched = []
    for p in pdescs:
        if p['kind'] == 'env':
            touched.append(env_name(p))
            os.environ.pop(env_name(p), None)
            if p['ext']['state'] == 'value':
                os.environ[env_name(p)] = dec(p['ext']['val'])
    res = {}
    try:
        with contextlib.redirect_stdout(io.StringIO()), request_ctx(case.get('request')):
            try:
                r = target(*args, **kwargs)
                if case['async']:
                    r = asyncio.run(r)
                res['ret_ok'] = r is token
                res['final'] = ['body'] if seen else ['nocall']
            except BaseException as ex:
                pn = getattr(ex, 'parameter_name', None)
                res['final'] = ['raise', excs.path_of(type(ex)), (ncode(pn) + 1) if pn else 0]
                res['exc'] = type(ex).__name__
                res['ret_ok'] = True
    finally:
        for k in touched:
            os.environ.pop(k, None)
    res['calls'] = len(seen)
    if seen:
        b = dict(seen[0])
        kw = b.pop('kw', {}) if case['sig']['varkw'] else {}
        if case['sig'].get('varpos'):
            res['star'] = [enc(v) for v in b.pop('args', ())]
        if any(sp.get('posonly') for sp in case['sig']['params']):
            res['kw_extra'] = sorted([ncode(k), enc(v)] for k, v in kw.items())      # must not mask the positional-only binding
        else:
            b.update(kw)
        res['binding'] = sorted([ncode(k), enc(v)] for k, v in b.items())
        if res['final'][0] == 'raise':
            res['raised_after_body'] = True
    res['journal'] = list(journal)
    return res


def run_case(case):
    if 'probe' in case:
        return run_probe(case)
    if 'calls' in case:
        return run_shared(case)
    journal, seen, token = [], [], object()
    params = [make_param(p, journal) for p in case['params']]
    target = decorate(case, params, seen, token)
    return perform(case, target, case['params'], journal, seen, token)


def run_shared(case):
    """The SAME Parameter objects decorate several functions (different signature defaults, modes, declaration
    orders); the functions are called one after the other.  -> {'steps': [result of every call]}"""
    journal = []
    pdescs = case['params']
    params = [make_param(p, journal) for p in pdescs]        # built once: shared by all functions
    funcs = []
    for f in case['funcs']:
        seen, token = [], object()
        target = decorate(f, [params[i] for i in f['order']], seen, token)
        funcs.append((f, target, seen, token))
    steps = []
    for call in case['calls']:
        f, target, seen, token = funcs[call['f']]
        for p, st in zip(pdescs, call['ext']):
            if p['ext'] is not None:                          # the source objects read this dictionary at call time
                p['ext'].clear()
                p['ext'].update(st)
        one = dict(f, args=call['args'], kwargs=call['kwargs'], request=None)
        steps.append(perform(one, target, pdescs, journal, seen, token))
    return {'steps': steps}


def main():
    cases = json.load(sys.stdin)
    for c in cases:
        try:
            r = run_case(c)
        except BaseException as ex:   # harness-level failure
            import traceback
            r = {'error': repr(ex), 'tb': traceback.format_exc(limit=4)[-600:]}
        print(json.dumps(r), flush=True)


if __name__ == '__main__':
    main()
