"""C17 - in_subprocess / calculate_in_subprocess (claimed PARTIAL: protocol logic proved, scheduling / pipe buffering /
pickling / the asyncio reader machinery only exercised).

Proof: coq/Props/C17.v over the parent/child op sequences regenerated from fn_deco_in_subprocess.py (Gen/Subproc.v).
Correspondence + stress: harness/w_subproc.py runs the real implementation on scripted callees, 1..8 (quick) / up to 64
(thorough) concurrent invocations per event loop, children dying in every way at several points; each invocation is
compared with the model evaluated in Coq (Model/SubprocEval.v; by C17_noninterference_N the model of one invocation is the
model of each of N) and with the specification (Spec/SubprocSpec.v, evaluated in Coq on the OBSERVED outcome).
Implementation-only input dimensions (judged by the property text directly): `nest` - the callee starts a process of its
own (nested invocation of the implementation, plain multiprocess.Process) and returns what it computed; `sig` - the
application has its own SIGTERM/SIGINT dispositions, inherited by every child (the model knows this as beh.b_term_fatal
and answers with `held`: the parent sits in a synchronous call while the callee computes); `ret` - the callee returns a
picklable awaitable / generator-like object (or a coroutine object, which is not picklable) instead of plain data: the
awaiting task must get an instance of that very class; `hold` - the caller keeps the exception objects it caught, as
they are, until all invocations of the case are over (distinct invocations must have been handed distinct objects; the
fd / child census follows when the caller has dropped them); `round` - several rounds of concurrent invocations one after
the other in the same process and on the same loop (stream `series`: child deaths in sequence and at the same time)."""
import copy, json, re
from lib import *

UNITS = ['Subproc']
MODEL = ['Model/SubprocEval.vo', 'Model/SubprocRet.vo', 'Model/SubprocExc.vo']
PROPS = 'Props/C17.v'
PRE = ('From Coq Require Import List ZArith Bool.\nFrom PV Require Import Base.Exn Model.PipeKernel Model.Subproc '
       'Spec.SubprocSpec Model.SubprocEval.\nImport ListNotations.')

PRE_RET = ('From Coq Require Import List ZArith Bool.\nFrom PV Require Import Base.Exn Model.PipeKernel Model.Subproc '
           'Gen.Subproc Model.SubprocRet Model.SubprocExc.\nImport ListNotations.')
RETM = {}      # (ret kind, coroutine function) -> [code] of Model/SubprocRet.eval_ret on the regenerated child program

EXC = {'ValueError': [0, 1], 'KeyError': [0, 3, 1], 'TypeError': [0, 2], 'RuntimeError': [0, 6], 'OSError': [0, 11],
       'EOFError': [0, 12], 'ChildProcessError': [0, 11, 0], 'UserError': [0, 20], 'UserErrorSub': [0, 20, 0],
       'Exception': [0], 'StopIteration': [0, 7], 'AssertionError': [0, 5], 'AttributeError': [0, 4], 'NameError': [0, 10],
       'KeyboardInterrupt': [1], 'SystemExit': [2], 'GeneratorExit': [3], 'BaseException': []}
REPORTED = ['ValueError', 'KeyError', 'TypeError', 'RuntimeError', 'OSError', 'EOFError', 'ChildProcessError', 'UserError',
            'UserErrorSub', 'Exception']
NOT_EXCEPTION = ['KeyboardInterrupt', 'SystemExit', 'GeneratorExit', 'BaseException']
DIES = ['os_exit', 'sigkill', 'sigterm']
KILLS = ['after_fork', 'in_callee', 'mid_send']
CANCELS = ['before_start', 'in_callee', 'wait_for', 'after_sent']     # cancellation of the awaiting task
# the callee delegates a part of its work to a process of its own: a nested in_subprocess / calculate_in_subprocess
# invocation (one / two levels deep) or a plain multiprocess.Process (implementation-only dimension)
NESTS = ['insub', 'insub2', 'process']
# the application has its own SIGTERM + SIGINT dispositions while the invocations run, every forked child inherits
# them: a Python handler that only records the signal / SIG_IGN (implementation-only dimension)
SIGS = ['handler', 'ignore']
# what the callee returns instead of plain data (implementation-only dimension): an instance of a picklable class with
# __await__ / whose __await__ raises / with the iterator + send/throw/close protocol / with both; 'coroutine': the
# coroutine object a coroutine function returns (cannot be pickled: pick is False for it)
RETS = ['awaitable', 'awaitable_fails', 'iterator', 'awaitable_iter', 'coroutine']
MSG_SHARED = ('the awaiting task was handed the very same exception object as another invocation of the process '
              '(each invocation must receive its own outcome)')


def protected_wait():
    """the wait of the current source has a cleanup handler (translator output): only then cancelled invocations are mixed
    into concurrent batches - without it (open finding C17-K5) every cancelled invocation leaves an open descriptor, a reader
    registration and a running child on the shared loop / process, which the batch-level observations (fd count, children left)
    would charge to the whole batch"""
    try:
        return 'PIfNotPollWaitH' in open(os.path.join(COQ, 'Gen', 'Subproc.v')).read()
    except OSError:
        return False
KW_POOL = [{}, {'a': 1}, {'a': [1, 2, {'b': None}], 'c': 'x'}, {'n': -5, 's': 'é', 't': [True, 2.5]},
           # names of parameters / locals of the implementation itself: they are inputs like any other keyword
           {'args': 1, 'kwargs': {'x': 2}}, {'a': 0, 'kw_args': 1, 'target': 2}, {'self': 1, 'duplex': True, 'fd': 3},
           {'event': 1, 'loop': 2, 'rx': 3, 'result': 4, 'process': 5, 'ex': 6, 'res': 7, 'event_loop': 8}]
KW_COLLIDING = [{'func': 1}, {'tx': 2}, {'fun': 3}, {'fun': None, 'a': 1}, {'func': 'f', 'tx': 0}]
MSG_K1 = ('the awaiting task raises the exception stored in the SubprocessError its callee RETURNED where the statement '
          'demands the callee\'s return value')
MSG_K6 = ('the awaiting task learned of the death of its child only after a process which the callee had started had run to '
          'its own end (the invocation does not terminate when its child dies)')
LEAKS = ('pipe end of the invocation still open in the parent when the await hands over the outcome',
         'child process not reaped when the await hands over the outcome')
LEAK_RX = (r'^[+]\d+ open file descriptors in the parent after all awaits returned \(after gc\)$',
           r'^\d+ child process\(es\) of the parent left \(running or zombie\) after all awaits returned$',
           r'^multiprocess\.active_children\(\) still lists \d+ process\(es\)$')
CODE = {0: 'no outcome (hang)', 1: 'returns its own callee\'s value', 2: 'returns some other value', 3: 'raises its own callee\'s exception',
        4: 'raises the exception stored in the SubprocessError its callee RETURNED', 5: 'raises another exception',
        6: 'raises the exception of ANOTHER invocation', 7: 'returns the value of ANOTHER invocation'}
DEMAND = {1: 'the callee\'s return value', 2: 'the callee\'s exception', 3: 'RuntimeError (PEP 479)',
          4: 'some exception that is not the callee\'s outcome'}


def mk(rng, **k):
    d = {'out': 'ok', 'exc': EXC['ValueError'], 'die': 'os_exit', 'big': False, 'pick': True, 'async': False, 'reterr': False,
         'kill': 'none', 'via': 'func', 'dur': 0, 'ticks': False, 'nonce': rng.randrange(10 ** 6), 'kw': rng.choice(KW_POOL),
         'unp': False, 'cancel': 'none', 'nest': 'none', 'sig': 'none', 'glife': 0, 'ret': 'plain', 'hold': 'none', 'round': 0}
    d.update(k)
    if d['ret'] != 'plain' and (d['out'] != 'ok' or d['reterr']):
        d['ret'] = 'plain'           # the dimension is about what a callee that returns hands back
    if d['ret'] == 'coroutine':
        d['pick'] = False            # a coroutine object cannot be pickled (not by dill either)
    if d['unp'] or d['cancel'] != 'none':
        # hold: CPython 3.12 can crash when the cycle collector frees the frames of a Connection.recv() whose unpickling
        # raised (see w_subproc.wrapped); a cancelled await raises the caller's own CancelledError, nothing to compare
        d['hold'] = 'none'
    if d['nest'] != 'none' or d['sig'] != 'none' or d['ret'] != 'plain' or d['hold'] != 'none':
        # the open findings (C17-K1 returned SubprocessError, C17-K3 keyword named func) are registered for the plain
        # input region only (their matchers demand it): not combined with the two implementation-only dimensions
        d['reterr'] = False
        if set(d['kw']) & {'func', 'tx', 'fun'}:
            d['kw'] = {'a': 1}
    if d['nest'] != 'none':
        # a child killed from outside while a process IT started is alive (that process holds the inherited write end:
        # open finding C17-K6) is generated in exactly one shape: glife > 0 (lifetime of that process in ms), one level
        # of nesting, SIGKILL while the callee waits for it
        if not (d['glife'] > 0 and d['kill'] == 'in_callee' and d['nest'] in ('insub', 'process')):
            d['kill'] = 'none'
            d['glife'] = 0
        d['cancel'] = 'none'
        d['unp'] = False
    else:
        d['glife'] = 0
    if d['sig'] != 'none' and d['die'] == 'sigterm':
        d['die'] = 'sigkill'     # SIGTERM does not terminate a process that handles / ignores it: not a death
    if d['kill'] == 'mid_send':
        d['big'] = True
    if d['cancel'] != 'none':
        d['kill'] = 'none'
        if d['cancel'] == 'after_sent':
            d['dur'] = max(d['dur'], 30)     # the parent is suspended in its wait before the child sends
    if d['kill'] == 'after_fork':
        d['dur'] = max(d['dur'], 40)     # the callee cannot have reported before the kill lands
    return d


def kw_class(inv):
    return 'KWParent' if 'func' in inv['kw'] else ('KWChild' if set(inv['kw']) & {'tx', 'fun'} else 'KWNone')


def coq_case(inv, r, ref=None):
    out = {'ok': 'COk', 'raise': 'CRaise', 'die': 'CDie'}[inv['out']]
    path = coq_list([coq_nat(x) for x in (inv['exc'] if inv['out'] == 'raise' else [])])
    kill = {'none': 'KNone', 'after_fork': 'KAfterFork', 'in_callee': 'KInCallee', 'mid_send': 'KMidSend'}[inv['kill']]
    if inv.get('cancel', 'none') != 'none':
        kill = {'before_start': 'KCancelBeforeStart', 'in_callee': 'KCancelInCallee', 'wait_for': 'KCancelInCallee',
                'after_sent': 'KCancelAfterSent'}[inv['cancel']]
    code, opath = (r.get('final') or [0, []]) if r else [0, []]
    obs = {0: 'FReturnOther', 1: 'FReturnCallee', 2: 'FReturnOther', 7: 'FReturnOther', 3: '(FRaise XCallee)',
           4: '(FRaise XRetAttr)'}.get(code)
    if obs is None:
        obs = f'(FRaise (XCls {coq_list([coq_nat(x) for x in opath])}))'
    killed = bool(r.get('killed')) if r else False
    return (f'eval_case {out} {path} {coq_bool(inv["big"])} {coq_bool(inv["pick"])} {coq_bool(inv["async"])} '
            f'{coq_bool(inv["reterr"])} {coq_bool(bool(inv.get("unp")) and inv["pick"])} '
            # SIGTERM is fatal for the child unless the application's own disposition is inherited (beh.b_term_fatal)
            f'{coq_bool(inv.get("sig", "none") == "none")} {kw_class(inv)} {kill} '
            f'{coq_bool(killed)} {obs} {coq_list([coq_nat(x) for x in (ref or [])])}')


# ---- generators ---------------------------------------------------------------------------------------------------------
def gen_single(rng, tier, scale):
    invs = []
    both = [False, True]
    # valid: the child reports
    for big in both:
        for asy in both:
            for via in ('func', 'deco'):
                invs.append(mk(rng, big=big, via=via, ticks=rng.random() < 0.6, dur=rng.choice([0, 3, 11]), **{'async': asy}))
    for name in REPORTED:
        for asy in both:
            invs.append(mk(rng, out='raise', exc=EXC[name], big=rng.random() < 0.25, via=rng.choice(['func', 'deco']),
                           ticks=rng.random() < 0.3, **{'async': asy}))
    # near-miss: exactly one thing goes wrong
    for die in DIES:
        for asy in both:
            invs.append(mk(rng, out='die', die=die, via=rng.choice(['func', 'deco']), **{'async': asy}))
    for name in NOT_EXCEPTION:
        for asy in both:
            invs.append(mk(rng, out='raise', exc=EXC[name], **{'async': asy}))
    for out in ('ok', 'raise'):
        for asy in both:
            invs.append(mk(rng, out=out, pick=False, big=rng.random() < 0.3, **{'async': asy}))
            for kill in KILLS:
                invs.append(mk(rng, out=out, kill=kill, via=rng.choice(['func', 'deco']), **{'async': asy}))
    # the payload pickles in the child but cannot be unpickled in the parent (known finding C17-K2)
    for out in ('ok', 'raise'):
        for asy in both:
            invs.append(mk(rng, out=out, unp=True, big=rng.random() < 0.3, via=rng.choice(['func', 'deco']), **{'async': asy}))
    invs.append(mk(rng, unp=True, kill='in_callee'))
    invs.append(mk(rng, unp=True, out='die'))
    # keyword names that collide with the implementation's own parameters (known findings C17-K3 / C17-K4)
    for kw in KW_COLLIDING:
        invs.append(mk(rng, kw=kw, via='func'))
        invs.append(mk(rng, kw=kw, via='deco', out=rng.choice(['ok', 'raise']), **{'async': True}))
    # the awaiting task is cancelled: task.cancel() before its first step / while the callee computes / although the
    # child has already sent, asyncio.wait_for timeout (known finding C17-K5 on a tree without a handler around the wait)
    for can in CANCELS:
        for asy in both:
            invs.append(mk(rng, cancel=can, via=rng.choice(['func', 'deco']), **{'async': asy}))
    invs.append(mk(rng, cancel='after_sent', out='raise'))
    invs.append(mk(rng, cancel='after_sent', out='die'))
    invs.append(mk(rng, cancel='after_sent', big=True))
    invs.append(mk(rng, cancel='in_callee', out='raise', big=True))
    invs.append(mk(rng, out='die', big=True))
    invs.append(mk(rng, out='die', kill='after_fork'))
    # the callee starts a process of its own (nested invocation of the implementation / plain multiprocess.Process)
    for nest in NESTS:
        for asy in both:
            invs.append(mk(rng, nest=nest, via=rng.choice(['func', 'deco']), ticks=rng.random() < 0.3, **{'async': asy}))
        invs.append(mk(rng, nest=nest, out='raise', exc=EXC[rng.choice(REPORTED)], big=rng.random() < 0.3,
                       via=rng.choice(['func', 'deco']), **{'async': rng.random() < 0.5}))
    invs.append(mk(rng, nest=rng.choice(NESTS), out='die', die=rng.choice(DIES), **{'async': rng.random() < 0.5}))
    invs.append(mk(rng, nest=rng.choice(NESTS), big=True, via='deco', **{'async': True}))
    # ... and the child is killed while that process is alive (open finding C17-K6)
    for nest in ('process', 'insub'):
        invs.append(mk(rng, nest=nest, glife=rng.choice([1500, 2000, 2500]), kill='in_callee', via=rng.choice(['func', 'deco']),
                       **{'async': rng.random() < 0.5}))
    if tier != 'quick':
        for sig in SIGS:
            invs.append(mk(rng, nest=rng.choice(['process', 'insub']), glife=2000, kill='in_callee', sig=sig, out=rng.choice(['ok', 'raise']),
                           big=rng.random() < 0.5, **{'async': rng.random() < 0.5}))
    # the application has installed its own SIGTERM / SIGINT dispositions (inherited by the child): cancellation
    # scenarios (the loop must stay live, the cancelled await must end), and plain invocations
    for sig in SIGS:
        for can in CANCELS:
            invs.append(mk(rng, sig=sig, cancel=can, via=rng.choice(['func', 'deco']), **{'async': rng.random() < 0.5}))
        invs.append(mk(rng, sig=sig, ticks=True, **{'async': rng.random() < 0.5}))
        invs.append(mk(rng, sig=sig, out='raise', exc=EXC[rng.choice(REPORTED)]))
        invs.append(mk(rng, sig=sig, out='die', die=rng.choice(DIES)))
        invs.append(mk(rng, sig=sig, kill=rng.choice(KILLS)))
        invs.append(mk(rng, sig=sig, nest=rng.choice(NESTS), **{'async': rng.random() < 0.5}))
    # the callee returns a picklable awaitable / generator-like object, or a coroutine object (not picklable)
    for ret in RETS:
        for asy in both:
            invs.append(mk(rng, ret=ret, via=rng.choice(['func', 'deco']), big=rng.random() < 0.2, **{'async': asy}))
    invs.append(mk(rng, ret=rng.choice(RETS[:4]), nest=rng.choice(NESTS)))
    invs.append(mk(rng, ret=rng.choice(RETS[:4]), kill=rng.choice(KILLS)))
    invs.append(mk(rng, ret=rng.choice(RETS[:4]), sig=rng.choice(SIGS), ticks=True))
    # the caller keeps the exception object it caught until the case is over
    for die in DIES:
        invs.append(mk(rng, out='die', die=die, hold='keep', via=rng.choice(['func', 'deco']), **{'async': rng.random() < 0.5}))
    for kill in KILLS:
        invs.append(mk(rng, kill=kill, hold='keep', out=rng.choice(['ok', 'raise'])))
    for name in ('ValueError', 'UserErrorSub', 'KeyboardInterrupt'):
        invs.append(mk(rng, out='raise', exc=EXC[name], hold='keep', big=rng.random() < 0.3, **{'async': rng.random() < 0.5}))
    invs.append(mk(rng, pick=False, hold='keep'))
    # malformed: outside what any implementation can pass through unchanged / the envelope collision
    for asy in both:
        invs.append(mk(rng, out='raise', exc=EXC['StopIteration'], **{'async': asy}))
        invs.append(mk(rng, reterr=True, **{'async': asy}))
    invs.append(mk(rng, reterr=True, big=True, via='deco'))
    invs.append(mk(rng, reterr=True, pick=False))
    invs.append(mk(rng, reterr=True, kill='in_callee'))
    n_rand = (20 if tier == 'quick' else 3000) * scale
    for _ in range(n_rand):
        invs.append(random_inv(rng, crash=0.5))
    return [{'invs': [i]} for i in invs]


def random_inv(rng, crash=0.35, allow_cancel=True, sig=None):
    r = rng.random()
    k = {'async': rng.random() < 0.5, 'via': rng.choice(['func', 'deco']), 'dur': rng.choice([0, 0, 2, 5, 9, 17, 30]),
         'ticks': rng.random() < 0.35, 'big': rng.random() < 0.2}
    if sig is None:
        sig = rng.choice(SIGS) if rng.random() < 0.2 else 'none'
    k['sig'] = sig
    if rng.random() < 0.15:
        k['nest'] = rng.choice(NESTS)
    if r > crash:
        if rng.random() < 0.6:
            if rng.random() < 0.25:
                k['ret'] = rng.choice(RETS)
            return mk(rng, **k)
        return mk(rng, out='raise', exc=EXC[rng.choice(REPORTED)], hold='keep' if rng.random() < 0.4 else 'none', **k)
    what = rng.choice(['die', 'die', 'notexc', 'unpick', 'kill', 'kill', 'kill', 'stopiter', 'reterr', 'unp', 'kwname']
                      + (['cancel', 'cancel'] if allow_cancel else []))
    if what in ('die', 'notexc', 'unpick', 'kill', 'stopiter') and rng.random() < 0.4:
        k['hold'] = 'keep'
    if what == 'cancel':
        return mk(rng, out=rng.choice(['ok', 'ok', 'raise', 'die']), cancel=rng.choice(CANCELS), **k)
    if what == 'unp':
        return mk(rng, out=rng.choice(['ok', 'raise']), unp=True, **k)
    if what == 'kwname':
        return mk(rng, out=rng.choice(['ok', 'ok', 'raise']), kw=rng.choice(KW_COLLIDING), **k)
    if what == 'die':
        return mk(rng, out='die', die=rng.choice(DIES), **k)
    if what == 'notexc':
        return mk(rng, out='raise', exc=EXC[rng.choice(NOT_EXCEPTION)], **k)
    if what == 'unpick':
        return mk(rng, out=rng.choice(['ok', 'raise']), pick=False, **k)
    if what == 'kill':
        return mk(rng, out=rng.choice(['ok', 'ok', 'raise']), kill=rng.choice(KILLS), **k)
    if what == 'stopiter':
        return mk(rng, out='raise', exc=EXC['StopIteration'], **k)
    return mk(rng, reterr=True, **k)


def gen_concurrent(rng, tier, scale):
    cases = []
    if tier == 'quick':
        sizes = [2, 2, 3, 3, 4, 5, 6, 8, 8, 2, 4, 7]
    else:
        sizes = ([2, 3, 4, 5, 6, 8] * 6 + [12, 16, 24, 32, 48, 64, 64, 40]) * 5
    sizes = sizes * scale
    for n in sizes:
        crash = rng.choice([0.0, 0.2, 0.35, 0.6])
        # signal dispositions are process-wide: one choice per batch (kept in every invocation, so that a shrunk case
        # still carries it)
        sig = rng.choice(SIGS) if rng.random() < 0.3 else 'none'
        invs = [random_inv(rng, crash=crash, allow_cancel=protected_wait(), sig=sig) for _ in range(n)]
        # at least two plain returning invocations with different durations: results must not cross
        a, b = rng.sample(range(n), 2)
        invs[a] = mk(rng, dur=rng.choice([12, 20, 30]), ticks=True, sig=sig)
        invs[b] = mk(rng, dur=0, sig=sig, nest=rng.choice(['none', 'none'] + NESTS), **{'async': True})
        n_mid = 0
        for i in invs:      # keep memory/CPU of a batch bounded
            if i['kill'] == 'mid_send':
                n_mid += 1
                if n_mid > 2:
                    i['kill'] = 'in_callee'
        cases.append({'invs': invs})
    return cases


def gen_series(rng, tier, scale):
    """several failed invocations in ONE process: a few one after the other, then a few at the same time next to a healthy
    one, then (sometimes) one more; the callers keep what they caught until the end of the case; one census at the end"""
    def failing(rnd):
        what = rng.choice(['die', 'die', 'die', 'kill', 'raise', 'unpick'])
        k = {'round': rnd, 'hold': 'keep' if rng.random() < 0.85 else 'none', 'via': rng.choice(['func', 'deco']),
             'async': rng.random() < 0.4, 'dur': rng.choice([0, 0, 3, 8])}
        if what == 'die':
            return mk(rng, out='die', die=rng.choice(DIES), **k)
        if what == 'kill':
            return mk(rng, out=rng.choice(['ok', 'raise']), kill=rng.choice(['after_fork', 'in_callee']), **k)
        if what == 'unpick':
            return mk(rng, pick=False, **k)
        return mk(rng, out='raise', exc=EXC[rng.choice(REPORTED + NOT_EXCEPTION)], **k)
    cases = []
    for _ in range((4 if tier == 'quick' else 60) * scale):
        invs, rnd = [], 0
        for _ in range(rng.choice([2, 3, 4])):
            invs.append(failing(rnd))
            rnd += 1
        group = [failing(rnd) for _ in range(rng.choice([2, 3, 4] if tier == 'quick' else [2, 3, 4, 8, 16]))]
        group.insert(rng.randrange(len(group) + 1), mk(rng, round=rnd, dur=rng.choice([0, 10, 25]), ticks=rng.random() < 0.5,
                                                       ret=rng.choice(['plain', 'plain'] + RETS[:4])))
        invs += group
        rnd += 1
        if rng.random() < 0.5:
            invs.append(failing(rnd))
        cases.append({'invs': invs})
    return cases


# ---- judging ---------------------------------------------------------------------------------------------------------------
REF = {}     # the report observed for the plainest death in the current evaluation


def name_of(path):
    return next((k for k, v in EXC.items() if v == path), str(path))


def show(final):
    code, path = final
    name = next((k for k, v in EXC.items() if v == path), str(path))
    return CODE.get(code, '?') + (f' ({name})' if code in (5, 6) else '')


def judge_inv(inv, r, m):
    """-> (property failures, correspondence problem or None)"""
    fails = []
    if r is None:
        return [], 'no result from the implementation worker'
    if r.get('hang'):
        fails.append(f'the invocation does not terminate (watchdog, {r["hang"]} wait)')
    code = (r.get('final') or [0, []])[0]
    if code in (6, 7):
        fails.append('the awaiting task received the outcome of ANOTHER concurrent invocation')
    if m is None:
        return fails, 'model evaluation failed'
    m_done, m_kind, m_clean, m_killed, spec_obs, demand, uniform = m[:7]
    m_path = m[8:8 + m[7]]
    m_held = m[8 + m[7]] if len(m) > 8 + m[7] else 0      # the model's parent holds the loop thread while the callee computes
    if not r.get('hang') and code not in (6, 7) and spec_obs != 1:
        fails.append(f'the awaiting task {show(r["final"])} where the statement demands {DEMAND.get(demand)}')
    if code == 5 and r['final'][1] == [4] and inv.get('cancel', 'none') == 'none':
        fails.append('the awaiting task gets CancelledError although nobody cancelled it')
    if not r.get('hang') and code == 5 and uniform != 1:
        fails.append(f'the death of the child is reported by {name_of(r["final"][1])} here, but by {name_of(REF.get("path"))} when the child '
                     f'simply exits before sending anything (the report of a silent child death depends on the crash point)')
    if r.get('shared_exc_with'):
        fails.append(MSG_SHARED)
    if r.get('open_ends'):
        fails.append('pipe end of the invocation still open in the parent when the await hands over the outcome')
    if r.get('unreaped'):
        fails.append('child process not reaped when the await hands over the outcome')
    if r.get('pid_differs') is False:
        fails.append('the callee ran in the parent process')
    if r.get('args_ok') is False:
        fails.append('the callee saw other arguments than the caller passed')
    if r.get('ticks_seen') is False:
        fails.append('the event loop ran no other task while the callee was waiting for it (blocking)')
    if r.get('nested_ok') is False:
        fails.append('what the callee\'s own child process computed is not in the outcome the awaiting task got '
                     '(run directly, the same function does deliver it)')
    if r.get('grandchild_ended') and r.get('killed') and inv.get('glife', 0) > 0 and inv['kill'] == 'in_callee':
        fails.append(MSG_K6)
    if r.get('stalled'):
        fails.append('the event loop ran no other task while the callee of this invocation was still running '
                     '(the ticker stood still until the callee gave up)')
    if r.get('wraps_ok') is False:
        fails.append('the decorated function lost its name / is not a coroutine function')
    corr = None
    if not fails:
        if m_held == 1 and inv.get('cancel') in ('in_callee', 'wait_for'):
            corr = 'the model holds the loop thread in a synchronous call while the callee computes, the implementation was not seen to'
        elif m_done != 1:
            corr = 'the model does not finish within its fuel'
        elif m_clean != 1:
            corr = 'the model exits with a descriptor or child left'
        elif [code, r['final'][1]] != [m_kind, m_path]:
            faithful = (inv['out'] == 'ok' and code == 1) or (inv['out'] == 'raise' and code == 3)
            unp_standin = (m_kind == 5 and m_path == [0, 31] and code == 5
                           and r['final'][1][:2] not in ([0, 11], [0, 12]))   # any class the handler does not catch
            if unp_standin or (inv.get('cancel') == 'after_sent' and faithful):   # the task had finished before the cancel
                pass
            elif not (inv['kill'] in ('mid_send', 'after_fork') and faithful):    # the whole message got through before the death
                corr = f'implementation {show(r["final"])}, model {show([m_kind, m_path])}'
        if (corr is None and inv.get('ret', 'plain') != 'plain' and inv['out'] == 'ok' and inv['kill'] == 'none'
                and inv.get('cancel', 'none') == 'none' and not inv.get('unp') and (inv['pick'] or inv['ret'] == 'coroutine')):
            # the returned-object dimension: Model/SubprocRet.v on the regenerated child program
            mret = RETM.get((inv['ret'], bool(inv['async'])))
            if mret is None:
                corr = 'model evaluation of the returned-object dimension failed'
            elif mret == [1] and code != 1:
                corr = f'implementation {show(r["final"])}, model: an instance of the class the callee returned'
            elif mret == [0] and not (code == 5 and r['final'][1] == [0, 11, 0]):
                corr = f'implementation {show(r["final"])}, model: nothing can be sent, the child dies without a report'
            elif mret not in ([0], [1]):
                corr = f'model of the returned-object dimension answers {mret}'
    return fails, corr


def judge_batch(case, r):
    fails = []
    if r is None or 'error' in r:
        return fails
    if r.get('loop_broken'):
        fails.append('the event loop thread was blocked until the hard watchdog fired')
    # NOT judged: r['fd_delta_while_held'] - the count taken while the callers still reference the exception objects they
    # caught.  On the unchanged library it is +2 per failed invocation (raised by the callee or child death alike): the
    # traceback of the exception keeps the frame of calculate_in_subprocess, its local `process` is joined but never
    # close()d, so the sentinel and the parent's end of the fork pipe of multiprocess stay open until the caller lets go of
    # the exception (suspected defect, reported to the coordinator; minimal repair: process.close() after process.join()).
    # The census that IS judged is taken when the callers have dropped what they caught.
    if r.get('fd_delta'):
        fails.append(f'{r["fd_delta"]:+d} open file descriptors in the parent after all awaits returned (after gc)')
    if r.get('children_left'):
        fails.append(f'{r["children_left"]} child process(es) of the parent left (running or zombie) after all awaits returned')
    if r.get('active_children'):
        fails.append(f'multiprocess.active_children() still lists {r["active_children"]} process(es)')
    return fails


class Runner:
    def __init__(self, ck):
        self.ck = ck

    def evaluate(self, cases, shards=None):
        """-> list of dicts: case, impl, models (per invocation), inv_fails, batch_fails, corr"""
        # reference report: what the awaiting task gets when the child exits before sending anything (Spec.report_uniform)
        refcase = {'invs': [{'out': 'die', 'exc': EXC['ValueError'], 'die': 'os_exit', 'big': False, 'pick': True, 'async': False,
                             'reterr': False, 'kill': 'none', 'via': 'func', 'dur': 0, 'ticks': False, 'nonce': 1, 'kw': {}, 'unp': False}]}
        impl = self.ck.run_impl('w_subproc', [refcase] + cases, timeout=900,
                                shards=shards or min(NPROC, 8, max(1, len(cases) // 3)))
        r0, impl = impl[0], impl[1:]
        f0 = (r0 or {}).get('invs', [{}])[0].get('final') if r0 and 'invs' in r0 else None
        ref = f0[1] if f0 and f0[0] == 5 and f0[1] else None
        REF['path'] = ref
        terms, where = [], []
        for ci, (c, r) in enumerate(zip(cases, impl)):
            rs = r.get('invs') if r and 'invs' in r else [None] * len(c['invs'])
            for ii, inv in enumerate(c['invs']):
                terms.append(coq_case(inv, rs[ii] if ii < len(rs) else None, ref))
                where.append((ci, ii))
        models = self.ck.coq_eval(PRE, terms) if self.ck.model_ok else [None] * len(terms)
        # the two small models: returned objects (once per run), exception identity / lifetime (per case in which a
        # caller kept what it caught: how each invocation ended, as observed -> descriptors open after / while held)
        keys = []
        if not RETM and any(i.get('ret', 'plain') != 'plain' for c in cases for i in c['invs']):
            keys = [(ret, asy) for ret in RETS for asy in (False, True)]
        xterms = [f'eval_ret child_prog {1 + RETS.index(ret)} {coq_bool(asy)}' for ret, asy in keys]
        held_cases = []
        for ci, (c, r) in enumerate(zip(cases, impl)):
            if r and 'invs' in r and r.get('fd_delta_while_held') is not None and len(r['invs']) == len(c['invs']):
                ends = []
                for inv, ri in zip(c['invs'], r['invs']):
                    f = ri.get('final') or [0, []]
                    kept = inv.get('hold', 'none') == 'keep' and f[0] in (3, 4, 5) and f[1] != [4]
                    ends.append('IReturn' if not kept else ('IDeath' if f == [5, [0, 11, 0]] else 'IRaise'))
                held_cases.append(ci)
                xterms.append(f'eval_exc parent_prog {coq_list(ends)}')
        xgot = self.ck.coq_eval(PRE_RET, xterms) if (xterms and self.ck.model_ok) else [None] * len(xterms)
        RETM.update({k: g for k, g in zip(keys, xgot) if g is not None})
        excm = dict(zip(held_cases, xgot[len(keys):]))
        per = [[None] * len(c['invs']) for c in cases]
        for (ci, ii), m in zip(where, models):
            per[ci][ii] = m
        out = []
        for ci, (c, r, ms) in enumerate(zip(cases, impl, per)):
            e = {'case': c, 'impl': r, 'models': ms, 'inv_fails': [], 'batch_fails': [], 'corr': [], 'skipped': False}
            if r is None or 'error' in (r or {}):
                e['corr'].append(f'implementation worker failed: {r}')
            elif 'skipped' in r:
                e['skipped'] = True
            else:
                for ii, inv in enumerate(c['invs']):
                    f, k = judge_inv(inv, r['invs'][ii], ms[ii])
                    if f:
                        e['inv_fails'].append((ii, f))
                    if k:
                        e['corr'].append(f'invocation {ii}: {k}')
                e['batch_fails'] = judge_batch(c, r)
                if ci in excm and not e['inv_fails'] and not e['batch_fails']:
                    mx = excm[ci]
                    if mx is None or len(mx) != 3:
                        e['corr'].append(f'model evaluation of the exception identity / lifetime dimension failed: {mx}')
                    elif mx[0] != r.get('fd_delta') or mx[1] != r.get('fd_delta_while_held'):
                        e['corr'].append(f'descriptors open after the callers dropped what they caught / while they held it: implementation '
                                         f'{r.get("fd_delta")} / {r.get("fd_delta_while_held")}, model {mx[0]} / {mx[1]}')
            out.append(e)
        return out


def matcher(finding, case, whats=None):
    """narrow: the SHRUNK case is one invocation of the finding's input region AND the list of failures is exactly the
    finding's own failure - anything else on such an input (a hang, a leak, wrong arguments ...) stays a violation"""
    import re
    m = finding.get('matcher', {})
    invs = case.get('invs', [])
    if len(invs) != 1 or whats is None:
        return False
    i = invs[0]
    plain = (i['pick'] and i['kill'] == 'none' and not i.get('unp') and i.get('cancel', 'none') == 'none'
             and i.get('nest', 'none') == 'none' and i.get('sig', 'none') == 'none'
             and i.get('ret', 'plain') == 'plain' and i.get('hold', 'none') == 'none')
    if m.get('id') == 'callee_returns_subprocess_error':
        return i['reterr'] and i['out'] == 'ok' and plain and kw_class(i) == 'KWNone' and list(whats) == [MSG_K1]
    if m.get('id') == 'payload_cannot_be_unpickled_in_parent':
        ok_in = (i.get('unp') and i['pick'] and i['out'] in ('ok', 'raise') and not i['reterr'] and kw_class(i) == 'KWNone')
        return bool(ok_in and whats and all(w in LEAKS or any(re.match(rx, w) for rx in LEAK_RX) for w in whats))
    if m.get('id') == 'cancelled_at_wait':
        ok_in = (i.get('cancel') in ('in_callee', 'wait_for', 'after_sent') and i['pick'] and i['kill'] == 'none' and not i.get('unp')
                 and not i['reterr'] and kw_class(i) == 'KWNone')
        return bool(ok_in and whats and all(w in LEAKS or any(re.match(rx, w) for rx in LEAK_RX) for w in whats))
    if m.get('id') == 'grandchild_holds_write_end':
        return (i.get('nest', 'none') in ('process', 'insub') and i.get('glife', 0) > 0 and i['kill'] == 'in_callee' and i['pick']
                and not i.get('unp') and i.get('cancel', 'none') == 'none' and not i['reterr'] and kw_class(i) == 'KWNone'
                and list(whats) == [MSG_K6])
    if m.get('id') == 'keyword_named_like_parameter':
        cls = kw_class(i)
        exc = {'KWParent': 'TypeError', 'KWChild': 'ChildProcessError'}.get(cls)
        return (cls == m.get('class') and plain and not i['reterr'] and len(whats) == 1
                and whats[0].startswith(f'the awaiting task raises another exception ({exc}) where the statement demands the callee'))
    return False


def size_of(case):
    invs = case['invs']
    return (len(invs), sum(1 for i in invs if i['kill'] != 'none' or i['out'] != 'ok' or i['big'] or not i['pick'] or i['reterr']),
            sum(1 for i in invs if i.get('nest', 'none') != 'none') + sum(1 for i in invs if i.get('sig', 'none') != 'none')
            + sum(1 for i in invs if i.get('cancel', 'none') != 'none') + sum(1 for i in invs if i.get('ret', 'plain') != 'plain')
            + sum(1 for i in invs if i.get('hold', 'none') != 'none') + len(set(i.get('round', 0) for i in invs)) - 1)


def run(tier, seed, replay=None):
    ck = Check('C17', tier, seed, UNITS, MODEL, PROPS)
    ck.prepare()
    rn = Runner(ck)

    def still_fails(f):
        e = rn.evaluate([f['witness']], shards=1)[0]
        return bool(e['inv_fails'] or e['batch_fails'])
    ck.replay_known_findings(still_fails)
    if tier == 'thorough' and replay is None and ck.props_ok:
        rc, out, err, dt = sh(['coqchk', '-silent', '-o', '-Q', '.', 'PV', 'PV.Props.C17'], cwd=COQ, timeout=1500)
        ok = rc == 0 and 'Axioms: <none>' in (out + err)
        ck.oblige('coqchk:Props.C17', 'proof', ok, f'{dt:.0f}s axioms: <none>' if ok else f'rc={rc} ' + (out + err)[-800:])

    if replay is not None:
        cases = [replay['case']]
        streams = ['replay']
    else:
        s1 = gen_single(ck.rng, tier, ck.scale())
        s2 = gen_concurrent(ck.rng, tier, ck.scale())
        s3 = gen_series(ck.rng, tier, ck.scale())
        cases = s1 + s2 + s3
        streams = ['single'] * len(s1) + ['concurrent'] * len(s2) + ['series'] * len(s3)
    evals = rn.evaluate(cases)

    hist = {'out': {}, 'exc': {}, 'kill': {}, 'cancel': {}, 'nest': {}, 'sig': {}, 'ret': {}, 'hold': {}, 'rounds': {}, 'batch_size': {}, 'outcome': {}, 'flags': {}}

    def bump(h, k):
        hist[h][str(k)] = hist[h].get(str(k), 0) + 1
    disagreements = {'single': [], 'concurrent': [], 'series': [], 'replay': []}
    pending = []     # (what, entry, stream, failing invocation indices)
    skipped = 0
    n_inv = 0
    for e, stream in zip(evals, streams):
        c, r = e['case'], e['impl']
        if e['skipped']:
            skipped += 1
            continue
        bump('batch_size', len(c['invs']))
        bump('rounds', len(set(i.get('round', 0) for i in c['invs'])))
        if r and r.get('fd_delta_while_held'):
            bump('flags', 'descriptors-open-while-the-caller-holds-the-exception(not judged)')
        for ii, inv in enumerate(c['invs']):
            n_inv += 1
            bump('out', inv['out'] + (':' + inv['die'] if inv['out'] == 'die' else ''))
            if inv['out'] == 'raise':
                bump('exc', next(k for k, v in EXC.items() if v == inv['exc']))
            bump('kill', inv['kill'])
            bump('cancel', inv.get('cancel', 'none'))
            bump('ret', inv.get('ret', 'plain'))
            bump('hold', inv.get('hold', 'none'))
            bump('nest', inv.get('nest', 'none') + ('+killed-while-its-process-lives' if inv.get('glife') else ''))
            bump('sig', inv.get('sig', 'none') + ('+cancel' if inv.get('sig', 'none') != 'none' and inv.get('cancel', 'none') != 'none' else ''))
            for fl in ('big', 'async', 'reterr', 'ticks'):
                if inv[fl]:
                    bump('flags', fl)
            if not inv['pick']:
                bump('flags', 'unpicklable')
            bump('flags', 'via:' + inv['via'])
            if r and 'invs' in r and ii < len(r['invs']) and r['invs'][ii].get('final'):
                bump('outcome', CODE.get(r['invs'][ii]['final'][0]))
                if r['invs'][ii].get('nested_ok'):
                    bump('flags', 'nested-result-delivered')
                if r['invs'][ii].get('nest_ref') is False:
                    bump('flags', 'nest-reference-failed(not judged)')
                if inv['kill'] == 'mid_send' and r['invs'][ii]['final'][0] == 5:
                    bump('flags', 'truncated-message-hit')
            key = json.dumps([inv.get(k) for k in ('out', 'exc', 'die', 'big', 'pick', 'async', 'reterr', 'kill', 'via', 'ticks', 'cancel', 'unp', 'nest', 'sig', 'ret', 'hold')] + [bool(inv.get('glife'))]
                             + [len(c['invs']), ii if len(c['invs']) > 1 else 0, inv['nonce'] if len(c['invs']) > 1 else 0])
            ck.note_case(key, nontrivial=(len(c['invs']) > 1 or inv['out'] != 'ok' or inv['big'] or inv['async']
                                          or inv['kill'] != 'none' or not inv['pick'] or inv['reterr'] or inv.get('cancel', 'none') != 'none'
                                          or inv.get('nest', 'none') != 'none' or inv.get('sig', 'none') != 'none'
                                          or inv.get('ret', 'plain') != 'plain' or inv.get('hold', 'none') != 'none'))
        if r and r.get('reordered'):
            bump('flags', 'batch-completed-out-of-call-order')
        if e['inv_fails'] or e['batch_fails']:
            whats = [w for _, f in e['inv_fails'] for w in f] + e['batch_fails']
            pending.append((whats, e, stream, [ii for ii, _ in e['inv_fails']]))
        elif e['corr']:
            disagreements[stream].append({'case': c, 'impl': r, 'model': e['models'], 'what': e['corr'][0]})
        else:
            ck.traces_validated += len(c['invs'])

    # ---- shrink: every failure of a batch is first retried on the failing invocation ALONE, then with one companion;
    #      only what needs the whole batch is reported with the whole batch (the matcher sees the shrunk case) -------
    def whats_of(ev):
        return sorted(set([w for _, f in ev['inv_fails'] for w in f] + ev['batch_fails']))

    def single(c, ii):
        return {'invs': [copy.deepcopy(c['invs'][ii])]}

    pending.sort(key=lambda p: size_of(p[1]['case']))
    needs = []       # failures of multi-invocation batches: [entry, stream, index or None, whats]
    for whats, e, stream, idxs in pending:
        c = e['case']
        if len(c['invs']) == 1:
            w1 = sorted(set(whats))
            ck.violation('; '.join(w1), c, stream=stream,
                         extra={'broken_obligations': [o['name'] for o in ck.broken()], 'impl': e['impl'], 'model': e['models']},
                         matcher=lambda fd, cc, w=w1: matcher(fd, cc, w))
            continue
        for ii, f in e['inv_fails']:
            needs.append([e, stream, ii, sorted(set(f))])
        if e['batch_fails']:
            needs.append([e, stream, None, sorted(set(e['batch_fails']))])
    needs = needs[:40]
    cands, owner = [], []
    for k, (e, stream, ii, f) in enumerate(needs):
        for jj in ([ii] if ii is not None else list(range(len(e['case']['invs'])))[:8]):
            cands.append(single(e['case'], jj))
            owner.append(k)
    def norm(ws):
        return set(re.sub(r'\d+', 'N', w) for w in ws)

    def reproduces(ce, need):
        """the candidate shows (one of) the SAME failure(s): invocation-level for an invocation, batch-level for a batch"""
        e_, stream_, ii_, f_ = need
        got = [w for _, fl in ce['inv_fails'] for w in fl] if ii_ is not None else ce['batch_fails']
        return bool(norm(got) & norm(f_))

    resolved = {}
    if cands:
        for k, ce in zip(owner, rn.evaluate(cands)):
            if k not in resolved and reproduces(ce, needs[k]):
                resolved[k] = ce
    unresolved = [k for k in range(len(needs)) if k not in resolved][:3]
    cands, owner = [], []
    for k in unresolved:
        e, stream, ii, f = needs[k]
        n = len(e['case']['invs'])
        pairs = [(ii, jj) for jj in range(n) if jj != ii] if ii is not None else [(a, b) for a in range(n) for b in range(a + 1, n)]
        for a, b in pairs[:10]:
            cands.append({'invs': [copy.deepcopy(e['case']['invs'][a]), copy.deepcopy(e['case']['invs'][b])]})
            owner.append(k)
    if cands:
        for k, ce in zip(owner, rn.evaluate(cands)):
            if k not in resolved and reproduces(ce, needs[k]):
                resolved[k] = ce
    for k, (e, stream, ii, f) in enumerate(needs):
        if k in resolved:
            ce = resolved[k]
            w2 = whats_of(ce)
            ck.violation('; '.join(w2), ce['case'], stream=stream,
                         extra={'broken_obligations': [o['name'] for o in ck.broken()], 'impl': ce['impl'], 'model': ce['models'], 'original_batch_size': len(e['case']['invs'])},
                         matcher=lambda fd, cc, w=w2: matcher(fd, cc, w))
        else:
            ck.violation('; '.join(f) + (f' (invocation {ii} of the batch)' if ii is not None else ''), e['case'], stream=stream,
                         extra={'broken_obligations': [o['name'] for o in ck.broken()], 'impl': e['impl'], 'model': e['models'], 'needs_concurrency': True},
                         matcher=lambda fd, cc, w=list(f): matcher(fd, cc, w))
    ck.violations.sort(key=lambda v: size_of(v['case']))
    if skipped:
        ck.notes.append(f'{skipped} cases skipped by workers after a hang had been observed')

    for s in ('single', 'concurrent', 'series') if replay is None else ('replay',):
        d = disagreements[s]
        ck.oblige(f'correspondence:{s}', 'correspondence', not d,
                  json.dumps(d[0], default=str)[:1200] if d else f'{ck.traces_validated} invocations agree with the model')
    ck.coverage.update({'invocations': n_inv, 'batches': len(cases), 'histograms': hist,
                        'disagreements': sum(len(d) for d in disagreements.values()), 'skipped_after_hang': skipped,
                        'partial': 'protocol logic proved; OS scheduling, pipe buffer capacity, pickling/unpickling and the asyncio '
                                   'selector behind add_reader are runtime behaviour the model cannot exhibit - exercised by this stress run only'})
    ck.samples = [{'case': e['case'], 'impl': e['impl'], 'model': e['models']} for e in evals[:2] + evals[-2:]]
    ck.assumptions = ['multiprocess start method fork (Linux default): the child inherits the parent process\'s descriptors',
                      'the module globals Process / Pipe of fn_deco_in_subprocess are wrapped by the harness to learn pids and Connection objects',
                      'an exception is "the callee\'s own" iff it has the callee\'s class and carries the invocation token',
                      'a loop thread that is held is recognised by the callee of the invocation: the parent\'s ticker (2 ms period) standing still for '
                      '%s s while the callee is still running (no durations are compared)' % os.environ.get('PV_C17_STALL', '12'),
                      'nested delegation is judged only where the same delegation works when run directly in the worker process',
                      'watchdogs: %s s per await (asyncio), +20 s SIGALRM for synchronous blocking; no timing is compared' % os.environ.get('PV_C17_WATCHDOG', '25')]
    return ck.finish(
        rule='single: product of {return, raise x 15 classes, os._exit/SIGKILL/SIGTERM} x {small, >64KiB} x {picklable, not} x {def, async def} x '
             '{calculate_in_subprocess, @in_subprocess} x kill point {none, after fork, inside callee, mid-send} (structured) + random; '
             'implementation-only dimensions: callee delegates to a process of its own {nested in_subprocess 1 or 2 levels, multiprocess.Process} '
             'x {def, async def} x {return, raise, die}; application-installed SIGTERM+SIGINT dispositions {recording handler, SIG_IGN} x '
             '{4 cancellation scenarios, plain, die, external kill, nested} with loop liveness watched by the callee; '
             'callee returns a picklable awaitable / failing awaitable / generator-like object / both / a coroutine object (ret) x {def, async def}; '
             'the caller keeps the caught exception objects until the case is over (hold) - identity compared across invocations, census after they are dropped; '
             'series: 2-4 failed invocations one after the other, then 2-4 (thorough: up to 16) at the same time next to a healthy one, on one loop in one process; '
             'concurrent: batches of 2..8 (quick) / 2..64 (thorough) random invocations awaited together; distinct = behaviour tuple '
             '(+ position and nonce inside a batch); non-trivial = anything but a lone small synchronous returning callee',
        checker_cmd='make -C coq Props/C17.vo && coqc -Q coq PV coq/Props/C17.v (Print Assumptions under every theorem)',
        trusted_base=['Coq 8.16.1 kernel (coqc; vm_compute for the finite sweep Proofs/SubprocCheck.v and model evaluation)',
                      'translator/t_subproc.py (Python ast -> Gen/Subproc.v)',
                      'Model/PipeKernel.v + Model/Subproc.v: semantics of pipes, fork inheritance, EOF, join, the op languages',
                      'Model/SubprocRet.v: which returned values are awaitable / picklable, what run_until_complete does with them',
                      'Model/SubprocExc.v: a raised exception object keeps the raising frame, the frame keeps the Process object and its two descriptors',
                      'harness/w_subproc.py, harness/subproc_callees.py, harness/c17.py (correspondence glue, crash injection)',
                      'multiprocess 0.70 / dill, asyncio selector loop, Linux pipes and process reaping (modelled, validated by correspondence only)'])
