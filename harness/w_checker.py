"""Implementation worker for the checker streams: runs assert_value_matches_type (and, for the
other two observation points, a generated @pedantic function called by keyword and a generated
@frozen_type_safe_dataclass) on rendered cases; returns the REIFIED annotation and value with
the canonical outcome class."""
import sys, json, os, importlib.util, linecache
import universe as U


def classify(ex):
    from pedantic.exceptions import PedanticTypeCheckException, PedanticTypeVarMismatchException, PedanticException
    if isinstance(ex, PedanticTypeCheckException): return 1
    if isinstance(ex, PedanticTypeVarMismatchException): return 2
    if isinstance(ex, PedanticException): return 3
    if isinstance(ex, Exception): return 4
    return 5


def outcome(f):
    try:
        f()
        return 0, None
    except BaseException as ex:      # noqa
        return classify(ex), type(ex).__name__ + ': ' + str(ex)[:120]


_mod_counter = [0]


def make_module(src, extra):
    """module from real source on disk (inspect.getsource must work), globals pre-populated"""
    _mod_counter[0] += 1
    name = f'pv_gen_{os.getpid()}_{_mod_counter[0]}'
    path = os.path.join(os.getcwd(), name + '.py')
    with open(path, 'w') as fh:
        fh.write(src)
    spec = importlib.util.spec_from_file_location(name, path)
    mod = importlib.util.module_from_spec(spec)
    mod.__dict__.update(extra)
    sys.modules[name] = mod
    linecache.checkcache(path)
    exec(compile(src, path, 'exec'), mod.__dict__)
    return mod


def run_case(c):
    from pedantic import assert_value_matches_type
    ctx = U.real_ctx(c['ctx'])
    globals().update(ctx)
    ann = U.render_ann(c['ann'])
    val = U.render_val(c['val'])
    r_ann = U.reify_ann(ann)
    r_val = U.reify_val(val, c['val'])
    res = {'ann': r_ann, 'val': r_val}
    obs = c.get('obs', 'avmt')
    if obs == 'avmt':
        res['out'], res['exc'] = outcome(lambda: assert_value_matches_type(value=val, type_=ann, err='', type_vars={}, context=ctx))
    elif obs == 'pedantic':
        journal = []
        src = ('from pedantic import pedantic\n@pedantic\ndef f(x: ANN) -> None:\n    J.append(1)\n')
        try:
            mod = make_module(src, dict(ctx, ANN=ann, J=journal))
        except BaseException as ex:
            res['out'], res['exc'] = 9, 'decoration failed: ' + repr(ex)[:100]
            return res
        res['out'], res['exc'] = outcome(lambda: mod.f(x=val))
        res['body_ran'] = len(journal)
    elif obs == 'dataclass':
        src = ('from pedantic import frozen_type_safe_dataclass\n@frozen_type_safe_dataclass\nclass D:\n    x: ANN\n')
        try:
            mod = make_module(src, dict(ctx, ANN=ann))
        except BaseException as ex:
            res['out'], res['exc'] = 9, 'decoration failed: ' + repr(ex)[:100]
            return res
        res['out'], res['exc'] = outcome(lambda: mod.D(x=val))
    return res


def run_intro(c):
    from pedantic.type_checking_logic.check_types import _get_name, get_type_arguments, _has_required_type_arguments
    ann = U.render_ann(c['ann'])
    r = {'ann': U.reify_ann(ann)}
    try:
        nm = _get_name(ann)
        r['intro'] = [int(_has_required_type_arguments(ann)), len(get_type_arguments(ann)),
                      (U.TNAMES.index(nm) + 1) if (nm in U.TNAMES and getattr(ann, '__module__', None) == 'typing') else 0]
    except BaseException as ex:
        r['intro'] = None
        r['exc'] = repr(ex)[:100]
    return r


def main():
    cases = json.load(sys.stdin)
    for c in cases:
        try:
            r = run_intro(c) if c.get('obs') == 'intro' else run_case(c)
        except BaseException as ex:
            r = {'error': type(ex).__name__ + ': ' + str(ex)[:200]}
        print(json.dumps(r), flush=True)


if __name__ == '__main__':
    main()
