"""Implementation worker for the checker streams: runs assert_value_matches_type (and, for the
other two observation points, a generated @pedantic function called by keyword and a generated
@frozen_type_safe_dataclass) on rendered cases; returns the REIFIED annotation and value with
the canonical outcome class."""
import sys, json, os, importlib.util, linecache
import universe as U


def classify(ex):
    from pedantic.exceptions import PedanticTypeCheckException, PedanticTypeVarMismatchException, PedanticException
    if isinstance(ex, PedanticTypeCheckException): return 1
    if isinstance(ex, PedanticTypeVarMismatchException): return 2
    if isinstance(ex, PedanticException): return 3
    if isinstance(ex, Exception): return 4
    return 5


class ThreadTimeout(BaseException):
    """the call made from another thread did not come back within the budget (a worker error, never an outcome)"""


_mode = {'thread': False}


def in_thread(f, budget=180):
    """f() on a thread started for this one call (not the thread that imported pedantic); what it raises is re-raised here"""
    import threading
    box = {}

    def body():
        try:
            box['r'] = f()
        except BaseException as ex:      # noqa
            box['ex'] = ex
    t = threading.Thread(target=body, daemon=True)
    t.start()
    t.join(budget)
    if t.is_alive():
        raise ThreadTimeout('no result after %ds' % budget)
    if 'ex' in box:
        raise box['ex']
    return box.get('r')


def outcome(f):
    try:
        in_thread(f) if _mode['thread'] else f()
        return 0, None
    except ThreadTimeout:
        raise
    except BaseException as ex:      # noqa
        return classify(ex), type(ex).__name__ + ': ' + str(ex)[:120]


def has_iter(v):
    """does the abstract value contain a one-shot iterator (it cannot be checked twice)"""
    if isinstance(v, list):
        return (len(v) > 0 and v[0] == 'iter') or any(has_iter(x) for x in v)
    if isinstance(v, dict):
        return any(has_iter(x) for x in v.values())
    return False


def outcome_rep(f, n=3):
    """the same call n times on the same decorated object: a history-dependent deviation (caches, flags that stay
    set) shows as a later outcome that differs from the first; the deviating outcome is what is reported"""
    seq = [outcome(f) for _ in range(n)]
    first = seq[0]
    for o in seq[1:]:
        if o[0] != first[0]:
            return o[0], (o[1] or '') + f' [call history: outcomes {[x[0] for x in seq]}]'
    return first[0], first[1]


# ------------------------------------------------------------------------------------------ what must not matter
def _attr_ann(kind, cls):
    import typing
    k, x = kind
    if k == 't':
        return {'int': int, 'list_int': typing.List[int], 'optional_str': typing.Optional[str]}[x]
    if k == 's':
        return cls.__name__ if x == 'self' else x
    if k == 'f':
        return typing.ForwardRef(cls.__name__ if x == 'self' else x)
    return x


def iter_forward_refs(ann, seen=None):
    import typing
    seen = set() if seen is None else seen
    if id(ann) in seen:
        return
    seen.add(id(ann))
    if isinstance(ann, typing.ForwardRef):
        yield ann
    for x in getattr(ann, '__args__', None) or ():
        if isinstance(x, (list, tuple)):
            for y in x:
                yield from iter_forward_refs(y, seen)
        else:
            yield from iter_forward_refs(x, seen)


class CaseState:
    """puts the world into the state the case describes and restores it afterwards:
    clsdeco  - user classes of the universe get another __name__ / attribute annotations
    pre      - the ForwardRef objects of the annotation are evaluated by typing.get_type_hints in ANOTHER namespace
    thread   - the observed calls are made from another thread"""

    def __init__(self, c):
        self.c = c
        self.undo = []
        self.refs = []

    def __enter__(self):
        for path, d in self.c.get('clsdeco') or []:
            cls = U.user_class(path)
            self.undo.append((cls, cls.__name__, cls.__qualname__))
            if d.get('name'):
                cls.__name__ = cls.__qualname__ = d['name']
        for path, d in self.c.get('clsdeco') or []:        # after all names are set (a self reference uses the new name)
            if d.get('attrs'):
                cls = U.user_class(path)
                cls.__annotations__ = {n: _attr_ann(k, cls) for n, k in d['attrs']}
        _mode['thread'] = bool(self.c.get('thread'))
        return self

    def pre_resolve(self, ann):
        """what typing.get_type_hints() of some other code does to the (shared, cached) ForwardRef objects of `ann`"""
        import typing
        if not self.c.get('pre'):
            return
        self.refs = list(iter_forward_refs(ann))

        def holder(x):
            return None
        holder.__annotations__ = {'x': ann}
        try:
            typing.get_type_hints(holder, globalns={}, localns=U.real_ctx(self.c['pre']))
        except BaseException:      # noqa
            pass

    def __exit__(self, *exc):
        _mode['thread'] = False
        for ref in self.refs:
            try:
                ref.__forward_evaluated__ = False
                ref.__forward_value__ = None
            except BaseException:      # noqa
                pass
        for cls, n, q in self.undo:
            cls.__name__, cls.__qualname__ = n, q
            if '__annotations__' in cls.__dict__:
                try:
                    del cls.__annotations__
                except BaseException:      # noqa
                    cls.__annotations__ = {}
        return False


def morph(obj, target):
    """change the mutable container obj IN PLACE into the (rendered) abstract value target of the same kind"""
    import collections
    new = U.render_val(target)
    if type(new) is not type(obj):
        raise ValueError('morph: kinds differ')
    if isinstance(obj, list):
        obj[:] = new
    elif isinstance(obj, collections.deque):
        obj.clear()
        obj.extend(new)
    elif isinstance(obj, (set, dict)):
        obj.clear()
        obj.update(new)
    else:
        raise ValueError('morph: not a mutable container')


_mod_counter = [0]


def make_module(src, extra):
    """module from real source on disk (inspect.getsource must work), globals pre-populated"""
    _mod_counter[0] += 1
    name = f'pv_gen_{os.getpid()}_{_mod_counter[0]}'
    path = os.path.join(os.getcwd(), name + '.py')
    with open(path, 'w') as fh:
        fh.write(src)
    spec = importlib.util.spec_from_file_location(name, path)
    mod = importlib.util.module_from_spec(spec)
    mod.__dict__.update(extra)
    sys.modules[name] = mod
    linecache.checkcache(path)
    exec(compile(src, path, 'exec'), mod.__dict__)
    return mod


def run_case(c):
    with CaseState(c) as st:
        return run_case_in(c, st)


def run_case_in(c, st):
    from pedantic import assert_value_matches_type
    ctx = U.real_ctx(c['ctx'])
    globals().update(ctx)
    ann = U.render_ann(c['ann'])
    st.pre_resolve(ann)
    obs = c.get('obs', 'avmt')
    val = U.render_val(c['val0'] if obs == 'pedantic_default' else c['val'])
    r_ann = U.reify_ann(ann)
    r_val = U.reify_val(U.render_val(c['val']), c['val']) if obs == 'pedantic_default' else U.reify_val(val, c['val'])
    res = {'ann': r_ann, 'val': r_val}
    if obs == 'avmt':
        res['out'], res['exc'] = outcome(lambda: assert_value_matches_type(value=val, type_=ann, err='', type_vars={}, context=ctx))
    elif obs == 'pedantic':
        journal = []
        src = ('from pedantic import pedantic\n@pedantic\ndef f(x: ANN) -> None:\n    J.append(1)\n')
        try:
            mod = make_module(src, dict(ctx, ANN=ann, J=journal))
        except BaseException as ex:
            res['out'], res['exc'] = 9, 'decoration failed: ' + repr(ex)[:100]
            return res
        res['out'], res['exc'] = outcome_rep(lambda: mod.f(x=val), 1 if has_iter(c['val']) else 3)
        res['body_ran'] = len(journal)
    elif obs == 'pedantic_default':
        # the value is the DEFAULT of the parameter and every call leaves the parameter out; between the calls the default
        # object is changed in place (val0 -> hist... -> val); observed: the calls made in the final state
        journal = []
        src = ('from pedantic import pedantic\n@pedantic\ndef f(x: ANN = DEF) -> None:\n    J.append(1)\n')
        try:
            mod = make_module(src, dict(ctx, ANN=ann, DEF=val, J=journal))
        except BaseException as ex:
            res['out'], res['exc'] = 9, 'decoration failed: ' + repr(ex)[:100]
            return res
        earlier = [outcome(lambda: mod.f())[0]]
        for h in c.get('hist') or []:
            morph(val, h)
            earlier.append(outcome(lambda: mod.f())[0])
        morph(val, c['val'])
        res['val'] = U.reify_val(val, c['val'])
        del journal[:]
        res['out'], res['exc'] = outcome_rep(lambda: mod.f(), 3)
        res['body_ran'] = len(journal)
        res['earlier'] = earlier
    elif obs == 'pedantic_star':
        # the value as FIRST element of *args of a function under two stacked decorators (positional call)
        journal = []
        src = ('import functools\nfrom pedantic import pedantic\n\n\ndef deco(g):\n    @functools.wraps(g)\n    def w(*a, **k):\n        return g(*a, **k)\n    return w\n\n\n'
               '@deco\n@pedantic\ndef f(*args: ANN) -> None:\n    J.append(1)\n')
        try:
            mod = make_module(src, dict(ctx, ANN=ann, J=journal))
        except BaseException as ex:
            res['out'], res['exc'] = 9, 'decoration failed: ' + repr(ex)[:100]
            return res
        res['out'], res['exc'] = outcome_rep(lambda: mod.f(val), 1 if has_iter(c['val']) else 3)
        res['body_ran'] = len(journal)
    elif obs == 'dataclass':
        # the instance is built through the type-safe class itself, through an undecorated subclass that only adds a method, or
        # through a plain @frozen_dataclass subclass that adds a defaulted field: the subclasses have no type-safe hook of their
        # own, the field x is checked all the same (which of the three: fixed by the position of the case in its run)
        src = ('from pedantic import frozen_type_safe_dataclass, frozen_dataclass\n@frozen_type_safe_dataclass\nclass D:\n    x: ANN\n\n\n'
               'class E(D):\n    def label(self) -> str:\n        return "e"\n\n\n@frozen_dataclass\nclass F(D):\n    y: int = 0\n')
        try:
            mod = make_module(src, dict(ctx, ANN=ann))
        except BaseException as ex:
            res['out'], res['exc'] = 9, 'decoration failed: ' + repr(ex)[:100]
            return res
        cls_ = (mod.D, mod.E, mod.F)[int(c.get('grp', 0)) % 3]
        res['via_class'] = cls_.__name__
        res['out'], res['exc'] = outcome_rep(lambda: cls_(x=val), 1 if has_iter(c['val']) else 3)
    return res


def run_intro(c):
    from pedantic.type_checking_logic.check_types import _get_name, get_type_arguments, _has_required_type_arguments
    ann = U.render_ann(c['ann'])
    r = {'ann': U.reify_ann(ann)}
    try:
        nm = _get_name(ann)
        r['intro'] = [int(_has_required_type_arguments(ann)), len(get_type_arguments(ann)),
                      (U.TNAMES.index(nm) + 1) if (nm in U.TNAMES and getattr(ann, '__module__', None) == 'typing') else 0]
    except BaseException as ex:
        r['intro'] = None
        r['exc'] = repr(ex)[:100]
    return r


_zoo = {}


def run_zoo(c):
    """annotation zoo x value zoo: only the class of the outcome is observed"""
    import zoo
    from pedantic import assert_value_matches_type
    if not _zoo:
        _zoo['a'] = zoo.annotations()
        _zoo['v'] = zoo.values
    name, ann = _zoo['a'][c['ai']]
    vals = _zoo['v']()          # fresh values per case (iterators / generators are one-shot)
    val = vals[c['vi']]
    r = {'name': name, 'val': type(val).__name__}
    if c['obs'] == 'zoo_gen':
        # a @pedantic GENERATOR function whose return annotation is the zoo annotation: created and advanced once
        journal = []
        src = ('from pedantic import pedantic\n@pedantic\ndef f(x: int) -> RET:\n    J.append(1)\n    yield RV\n')
        try:
            mod = make_module(src, dict(RET=ann, J=journal, RV=val))
        except BaseException as ex:
            r['out'], r['exc'] = 9, 'decoration failed: ' + repr(ex)[:100]
            return r

        def drive():
            g = mod.f(x=1)
            return next(g)
        r['out'], r['exc'] = outcome_rep(drive)
        return r
    if c['obs'] == 'zoo':
        r['out'], r['exc'] = outcome(lambda: assert_value_matches_type(value=val, type_=ann, err='', type_vars={}, context={}))
    else:
        journal = []
        src = ('from pedantic import pedantic\n@pedantic\ndef f(x: ANN) -> RET:\n    J.append(1)\n    return RV\n')
        try:
            mod = make_module(src, dict(ANN=ann, RET=(ann if c['obs'] == 'zoo_ret' else None), J=journal,
                                        RV=(val if c['obs'] == 'zoo_ret' else None)))
        except BaseException as ex:
            r['out'], r['exc'] = 9, 'decoration failed: ' + repr(ex)[:100]
            return r
        arg = None if c['obs'] == 'zoo_ret' else val
        if c['obs'] == 'zoo_ret':
            mod.f.__annotations__  # noqa
        r['out'], r['exc'] = outcome_rep(lambda: mod.f(x=arg))
        r['body_ran'] = len(journal)
    return r


BINARY_OPS = {'__add__': '+', '__sub__': '-', '__mul__': '*', '__matmul__': '@', '__or__': '|', '__and__': '&', '__eq__': '==', '__ne__': '!=',
              '__lt__': '<', '__ge__': '>=', '__getitem__': '[]'}


def render_result(v):
    """the value a generated body returns: the universe plus the singletons a special method hands back"""
    return NotImplemented if v == ['notimplemented'] else Ellipsis if v == ['ellipsis'] else U.render_val(v)


def run_missing(c):
    """a generated function with one missing / bare annotation, called by keyword with conforming arguments.
    names      the parameter names (default p0, p1 ...): cls / args / kwargs / mcs ... at the first and at later positions
    posargs    the signature ends in `*args: int` and the call passes every value positionally, plus c['posargs'] - 1 extra ints
    kind       def / async / method / dunder (a method of a plain class named c['dunder']: __add__, __eq__, __getitem__ ...;
               with c['via_op'] the call is made by the operator)
    ret_by_type  [[class name, result]]: the body returns that result when its first argument is of that class (value-dependent)"""
    ctx = U.real_ctx(c['ctx'])
    ns = dict(ctx)
    journal = []
    ns['J'] = journal
    parts, kwargs, posvals = [], {}, []
    n = len(c['params'])
    names = c.get('names') or [f'p{i}' for i in range(n)]
    for i, p in enumerate(c['params']):
        s = names[i]
        if i == c['miss']:
            if c['bare']:
                ns[f'A{i}'] = getattr(__import__('typing'), c['bare']) if c['bare'][0].isupper() else __builtins__[c['bare']] if isinstance(__builtins__, dict) else getattr(__builtins__, c['bare'])
                s += f': A{i}'
        else:
            ns[f'A{i}'] = U.render_ann(p['ann'])
            s += f': A{i}'
        val = U.render_val(p['val'])
        if p['default']:
            ns[f'D{i}'] = val
            s += f' = D{i}'
        parts.append(s)
        posvals.append(val)
        if not (p['default'] and p.get('omit')):
            kwargs[names[i]] = val
    if c.get('posargs'):
        parts.append('*args: int')
        posvals += list(range(c['posargs'] - 1))
    ret = ' -> None'
    if c['miss'] == n:
        ret = ''
        if c['bare']:
            ns['R'] = getattr(__import__('typing'), c['bare']) if c['bare'][0].isupper() else (__builtins__[c['bare']] if isinstance(__builtins__, dict) else getattr(__builtins__, c['bare']))
            ret = ' -> R'
    ns['RV'] = render_result(c['ret_val']) if c['miss'] == n else None
    ns['RMAP'] = {t: render_result(v) for t, v in (c.get('ret_by_type') or [])} if c['miss'] == n else {}
    sig = ', '.join(parts)
    result = f'RMAP.get(type({names[0]}).__name__, RV)' if n else 'RV'
    fname = c.get('dunder') if c['kind'] == 'dunder' else 'f'
    if c['kind'] in ('method', 'dunder'):
        src = (f'from pedantic import pedantic\nclass K:\n    @pedantic\n    def {fname}(self, {sig}){ret}:\n        J.append(1)\n        return {result}\n')
    else:
        src = (f'from pedantic import pedantic\n@pedantic\n{"async " if c["kind"] == "async" else ""}def f({sig}){ret}:\n    J.append(1)\n    return {result}\n')
    r = {}
    try:
        mod = make_module(src, ns)
    except BaseException as ex:
        r['out'], r['exc'] = 9, 'decoration failed: ' + repr(ex)[:100]
        return r
    if c['kind'] == 'dunder' and c.get('via_op') and n == 1 and fname in BINARY_OPS:
        op, v0 = BINARY_OPS[fname], posvals[0]
        ns2 = {'k': None, 'v': v0}

        def call():
            ns2['k'] = mod.K()
            return eval('k[v]' if op == '[]' else f'k {op} v', ns2)
    elif c['kind'] in ('method', 'dunder'):
        call = (lambda: getattr(mod.K(), fname)(*posvals)) if c.get('posargs') else (lambda: getattr(mod.K(), fname)(**kwargs))
    elif c['kind'] == 'async':
        import asyncio
        call = (lambda: asyncio.run(mod.f(*posvals))) if c.get('posargs') else (lambda: asyncio.run(mod.f(**kwargs)))
    else:
        call = (lambda: mod.f(*posvals)) if c.get('posargs') else (lambda: mod.f(**kwargs))
    r['out'], r['exc'] = outcome_rep(call)
    r['body_ran'] = len(journal)
    r['src'] = src.split('\n', 1)[1][:300]
    return r


GCLASS_SRC = '''
from typing import Generic, TypeVar, List, Optional
from pedantic import pedantic_class
T = TypeVar('T'); S = TypeVar('S')
class Plain:
    pass
@pedantic_class
class G1(Generic[T]):
    def m(self, a: T) -> T: return a
    def n(self) -> None: return None
    def l(self, a: List[T]) -> Optional[T]: return a[0] if a else None
@pedantic_class
class G2(Generic[S, T]):
    def m(self, a: T) -> T: return a
    def n(self) -> None: return None
    def l(self, a: List[S]) -> Optional[S]: return a[0] if a else None
@pedantic_class
class SubMixed(G2[str, T], Generic[T]):
    def k(self, a: T) -> T: return a
@pedantic_class
class SubTv(G1[T], Generic[T]):
    def k(self, a: T) -> T: return a
@pedantic_class
class SubNoGen(G2[int, T]):
    def k(self, a: T) -> T: return a
@pedantic_class
class MixinFirst(Plain, Generic[T]):
    def m(self, a: T) -> T: return a
    def n(self) -> None: return None
    def k(self, a: T) -> T: return a
@pedantic_class
class Swapped(G2[T, S]):
    def k(self, a: T) -> T: return a
@pedantic_class
class SubFixed(G1[int]):
    def k(self, a: int) -> int: return a
SHAPES = {'G1': (G1, (int,)), 'G2': (G2, (int, str)), 'SubMixed': (SubMixed, (int,)), 'SubTv': (SubTv, (int,)), 'SubNoGen': (SubNoGen, (str,)),
          'MixinFirst': (MixinFirst, (int,)), 'Swapped': (Swapped, (int, str)), 'SubFixed': (SubFixed, None)}
def make(shape):
    cls, params = SHAPES[shape]
    o = cls() if params is None else cls[params if len(params) > 1 else params[0]]()
    return o
'''
_gclass = {}
GCLASS_SHAPES = ['G1', 'G2', 'SubMixed', 'SubTv', 'SubNoGen', 'MixinFirst', 'Swapped', 'SubFixed']
GCLASS_CALLS = [('m', {'a': 1}), ('m', {'a': 'x'}), ('m', {'a': None}), ('n', {}), ('k', {'a': 1}), ('k', {'a': 'x'}), ('l', {'a': [1]}), ('l', {'a': ['x', 1]}),
                ('l', {'a': []}), ('m', {}), ('k', {'a': [1]})]


def run_gclass(c):
    """instances of generic @pedantic_class classes of several base layouts; only the class of the outcome is observed"""
    if c.get('size'):
        return {'size': len(GCLASS_SHAPES) * len(GCLASS_CALLS)}
    if 'mod' not in _gclass:
        _gclass['mod'] = make_module(GCLASS_SRC, {})
    mod = _gclass['mod']
    shape = GCLASS_SHAPES[c['i'] // len(GCLASS_CALLS)]
    meth, kw = GCLASS_CALLS[c['i'] % len(GCLASS_CALLS)]
    r = {'name': f'{shape}.{meth}({kw})'}

    def call():
        o = mod.make(shape)
        f = getattr(o, meth, None)
        if f is None:
            return None
        return f(**kw)
    r['out'], r['exc'] = outcome_rep(call)
    if r['out'] == 4 and r['exc'].startswith('TypeError') and 'missing 1 required' in r['exc']:
        r['out'] = 0      # Python's own rejection of the call (argument missing): not from the checking machinery
    return r


CORNER_SRC = '''
from pedantic import pedantic, pedantic_class
@pedantic_class
class K:
    def plain(self, x: int) -> int:
        return x
    @staticmethod
    def st(x: int) -> int:
        return x
    def ds(self, a: int) -> int:
        \"\"\"this method is not a @staticmethod, its docstring only says the word\"\"\"
        return a
@pedantic
def doc_mentions(a: int) -> int:
    \"\"\"the word @staticmethod appears in this docstring\"\"\"
    return a
@pedantic
def comment_mentions(a: int) -> int:
    # *args is mentioned in a comment
    return a
@pedantic
def real_star(a: int, *args: int) -> int:
    return a
class Plain:
    @pedantic
    def m(self, x: int) -> int:
        return x
    @pedantic
    def __call__(self, x: int) -> int:
        return x
    @pedantic
    def vm(self, a: int, b: int = 1, *args: int) -> int:
        return a
@pedantic
def vs1(first: int, scale: int = 1, *args: int) -> int:
    return first
@pedantic
def vs2(a: int = 0, b: int = 1, *args: int, k: int = 2, **kw: int) -> int:
    return a
@pedantic
def vs3(*args: int, k: int = 2) -> int:
    return k
@pedantic_class
class KV:
    def vk(self, a: int, b: int = 1, *args: int, **kw: int) -> int:
        return a
from dataclasses import dataclass
from typing import Any
@pedantic_class
class SA:
    def __init__(self, x: int) -> None:
        self.x = x
    def __setattr__(self, name: str, value: int) -> None:
        object.__setattr__(self, name, value)
    def get(self) -> int:
        return self.x
@dataclass(frozen=True)
@pedantic_class
class FZ:
    x: int
    def double(self) -> int:
        return 2 * self.x
@pedantic_class
class DA:
    def __init__(self, x: int) -> None:
        self.x = x
    def __delattr__(self, name: str) -> None:
        object.__delattr__(self, name)
    def __getattr__(self, name: str) -> Any:
        raise AttributeError(name)
    def get(self) -> int:
        return self.x
@pedantic_class
class GA:
    def __init__(self, x: int) -> None:
        self.x = x
    def __getattribute__(self, name: str) -> Any:
        return object.__getattribute__(self, name)
    def get(self) -> int:
        return self.x
'''
CORNER_CALLS = [('K.plain(self=k, x=1)', lambda m: m.K.plain(self=m.K(), x=1)), ('K().plain(x=1)', lambda m: m.K().plain(x=1)),
                ('K.st(x=1)', lambda m: m.K.st(x=1)), ('K().st(x=1)', lambda m: m.K().st(x=1)),
                ('doc_mentions(a=1)', lambda m: m.doc_mentions(a=1)), ('comment_mentions(a=1)', lambda m: m.comment_mentions(a=1)),
                ('real_star(a=1)', lambda m: m.real_star(a=1)), ('real_star(1, 2)', lambda m: m.real_star(1, 2)),
                ('Plain.m(self=p, x=1)', lambda m: m.Plain.m(self=m.Plain(), x=1)), ('Plain().m(x=1)', lambda m: m.Plain().m(x=1)),
                ('Plain()(x=1)', lambda m: m.Plain()(x=1)), ('Plain()(1)', lambda m: m.Plain()(1)),
                ('K().ds(a=1)', lambda m: m.K().ds(a=1)),
                ('K().plain(x="s")', lambda m: m.K().plain(x='s')), ('doc_mentions(a="s")', lambda m: m.doc_mentions(a='s')),
                # classes that define the attribute protocol themselves / are frozen: the wrapper's own bookkeeping must not go through it
                ('SA(x=1).get()', lambda m: m.SA(x=1).get()), ('FZ(x=2).double()', lambda m: m.FZ(x=2).double()),
                ('DA(x=1).get()', lambda m: m.DA(x=1).get()), ('GA(x=1).get()', lambda m: m.GA(x=1).get())]


def _variadic_calls():
    """callables that take *args (positional calls allowed) with defaulted named parameters left out / filled positionally /
    filled by keyword: every call is one Python accepts and every value conforms"""
    out = []
    fam = {'vs1': ['3', 'first=3', '3, 2', '3, 2, 5, 6', '3, scale=2', 'first=3, scale=2'],
           'vs2': ['', '1', '1, 2', '1, 2, 3', 'k=5', '1, z=3', 'a=1, z=3', '1, 2, 3, 4, k=5, z=6'],
           'vs3': ['', '1, 2', 'k=3', '1, k=3'],
           'Plain().vm': ['1', '1, 2', '1, 2, 3', 'a=1', 'a=1, b=2'],
           'KV().vk': ['1', '1, 2', '1, 2, 3', 'a=1', '1, z=4', '1, 2, 3, z=4']}
    for fn, calls in fam.items():
        for a in calls:
            src = f'{fn}({a})'
            out.append((src, eval('lambda m: m.' + src)))
    return out


CORNER_CALLS += _variadic_calls()

# generator functions: the object a @pedantic / @pedantic_class generator function hands out must speak the whole generator
# protocol of the plain generator it wraps - next / send / close and throw in its three legal call forms throw(exc),
# throw(ExcType, exc), throw(ExcType, exc, tb) (the latter two deprecated since 3.12, still legal) - driven directly and
# through an outer plain generator that delegates with `yield from`; the bodies HANDLE the thrown exception, so a plain
# generator answers every row with a value (or StopIteration / the body's own exception): nothing of the wrapper's own
CORNER_GEN_SRC = '''
from typing import Generator, Iterator, Iterable
from pedantic import pedantic, pedantic_class
@pedantic
def gen_g(limit: int) -> Generator[int, None, None]:
    i = 0
    while i < limit:
        try:
            yield i
            i += 1
        except ValueError:
            yield -1
@pedantic
def gen_i(limit: int) -> Iterator[int]:
    try:
        yield 1
        yield limit
    except (KeyError, ValueError):
        yield 0
@pedantic
def gen_s(limit: int) -> Generator[int, int, str]:
    got = 0
    try:
        got = yield 1
        got = yield got
    except ValueError:
        yield -1
    return 'done'
@pedantic_class
class GK:
    def numbers(self) -> Iterator[int]:
        try:
            yield 1
            yield 2
        except KeyError:
            yield 0
    def pairs(self, limit: int) -> Generator[int, None, None]:
        for i in range(limit):
            try:
                yield i
            except ValueError:
                yield -1
def deleg(inner):
    r = yield from inner
    return r
'''


def _gen_rows():
    import sys as _s, warnings
    makers = {'gen_g(limit=3)': lambda m: m.gen_g(limit=3), 'gen_i(limit=3)': lambda m: m.gen_i(limit=3),
              'gen_s(limit=3)': lambda m: m.gen_s(limit=3), 'GK().numbers()': lambda m: m.GK().numbers(),
              'GK().pairs(limit=2)': lambda m: m.GK().pairs(limit=2)}
    excs = {'gen_g(limit=3)': ValueError, 'gen_i(limit=3)': KeyError, 'gen_s(limit=3)': ValueError, 'GK().numbers()': KeyError,
            'GK().pairs(limit=2)': ValueError}

    def tb():
        try:
            raise RuntimeError('for a traceback')
        except RuntimeError:
            return _s.exc_info()[2]
    ops = {'next, next': lambda g, E: (next(g), next(g)),
           'next, send(5)': lambda g, E: (next(g), g.send(5)),
           'next, close()': lambda g, E: (next(g), g.close()),
           'close() before the first next': lambda g, E: g.close(),
           'next, throw(E("x"))': lambda g, E: (next(g), g.throw(E('x'))),
           'next, throw(E, E("x"))': lambda g, E: (next(g), g.throw(E, E('x'))),
           'next, throw(E, E("x"), None)': lambda g, E: (next(g), g.throw(E, E('x'), None)),
           'next, throw(E, E("x"), tb)': lambda g, E: (next(g), g.throw(E, E('x'), tb())),
           'next, throw(E, "x")': lambda g, E: (next(g), g.throw(E, 'x')),
           'next, throw(E)': lambda g, E: (next(g), g.throw(E)),
           'next, throw(E("x")), next': lambda g, E: (next(g), g.throw(E('x')), next(g)),
           'list(...)': lambda g, E: list(g)}
    out = []
    for mn, mk in makers.items():
        for on, op in ops.items():
            for via in ('', 'yield from '):
                def row(m, mk=mk, op=op, via=via, mn=mn):
                    def drive(g):
                        with warnings.catch_warnings():
                            warnings.simplefilter('ignore', DeprecationWarning)
                            return op(g, excs[mn])
                    # reference: the same body without pedantic.  Only rows the PLAIN generator answers without an exception
                    # of its own are judged (the rest - e.g. send(5) into Iterator[int] is the body's business - is observed
                    # on the wrapper against the same exception class)
                    g = mk(m)
                    return drive(m.deleg(g) if via else g)
                out.append((f'{via}{mn}: {on}', row))
    return out


CORNER_GEN_ROWS = _gen_rows()
_corner = {}


def run_corner(c):
    """keyword calls Python accepts, on callables whose SOURCE TEXT / receiver handling trips the wrapper's heuristics;
    only the class of the outcome is observed"""
    if c.get('size'):
        return {'size': len(CORNER_CALLS) + len(CORNER_GEN_ROWS)}
    if 'mod' not in _corner:
        _corner['mod'] = make_module(CORNER_SRC, {})
    if c['i'] >= len(CORNER_CALLS):
        return run_corner_gen(c['i'] - len(CORNER_CALLS))
    name, f = CORNER_CALLS[c['i']]
    r = {'name': name}
    r['out'], r['exc'] = outcome_rep(lambda: f(_corner['mod']))
    return r


def run_corner_gen(i):
    """one row of the generator-protocol table.  The same source is loaded twice: as written (pedantic) and with the two
    decorators replaced by the identity (the plain generators).  What the plain generator answers is the reference: the
    wrapper may answer the same way or with a PedanticException, never with another exception of its own"""
    if 'gen' not in _corner:
        _corner['gen'] = make_module(CORNER_GEN_SRC, {})
        plain_src = CORNER_GEN_SRC.replace('from pedantic import pedantic, pedantic_class', 'pedantic = pedantic_class = lambda x: x')
        _corner['gen_plain'] = make_module(plain_src, {})
    name, row = CORNER_GEN_ROWS[i]
    r = {'name': name}
    ref_out, ref_exc = outcome(lambda: row(_corner['gen_plain']))
    out, exc = outcome(lambda: row(_corner['gen']))
    r['ref'] = ref_exc
    if out in (4, 5) and ref_out == out and (ref_exc or '').split(':')[0] == (exc or '').split(':')[0]:
        # the body's own exception (StopIteration after the last value, the TypeError CPython raises for throw(E, E("x")) with
        # a non-exception ...): the undecorated generator raises the same class, so it is not the wrapper's
        out, exc = 0, None
    r['out'], r['exc'] = out, exc
    return r


ABC_SAMPLES = [('NoneType', ['none']), ('bool', ['bool', True]), ('int', ['int', 1]), ('float', ['float', 3]), ('str', ['str', [97]]),
               ('bytes', ['bytes', [1]]), ('list', ['list', []]), ('tuple', ['tuple', []]), ('set', ['set', []]), ('frozenset', ['frozenset', []]),
               ('dict', ['dict', []]), ('deque', ['deque', []]), ('defaultdict', ['defaultdict', []]), ('OrderedDict', ['ordereddict', []]),
               ('dict_keys', ['keys', []]), ('dict_values', ['values', []]), ('dict_items', ['items', []]), ('list_iterator', ['iter', []]),
               ('function', ['lambda']), ('builtin_function', ['builtinfn']), ('object', ['object']), ('type', ['class', 'int']),
               (['user', [0]], ['inst', [0], 1])]


def run_abc_table(c):
    """isinstance(<sample of every value class>, <runtime origin of every typing generic of the tables>): the ground truth for
    Base/Ann.v abc_instance, exhaustively"""
    import typing
    rows = []
    for name in U.TNAMES:
        org = getattr(getattr(typing, name, None), '__origin__', None)
        if not isinstance(org, type) or name == 'Callable':      # Callable is dispatched by its own checker, never by isinstance
            continue
        for cname, v in ABC_SAMPLES:
            rows.append([name, cname, bool(isinstance(U.render_val(v), org))])
    return {'rows': rows}


_named = {}


def named_table():
    """named tuples are outside the abstract value universe of the model: a fixed table of (value, annotation, conforms?)
    judged on the implementation only"""
    import typing, collections, dataclasses
    from typing import NamedTuple, Tuple, List, Optional, Union, Sequence, Any, Dict
    if _named:
        return _named['t']
    NT = NamedTuple('NT', [('a', int), ('b', str)])
    NT2 = NamedTuple('NT2', [('a', int), ('b', str)])
    UT = collections.namedtuple('UT', 'a b')

    @dataclasses.dataclass
    class D:
        a: int
        b: str

    class Sub(NT):
        pass
    nt, ut = NT(1, 'x'), UT(1, 2)

    class EqAll:
        def __eq__(self, other):
            return True

        def __hash__(self):
            return 0

    class K:
        pass
    K_other = type('K', (), {})

    class RaisingRepr:
        def __repr__(self):
            raise RuntimeError('repr boom')

    class Order:
        pass

    class PurchaseOrder:        # unrelated to Order: only the NAME ends with 'Order'
        pass

    class SubOrder(Order):
        pass

    class Text:                 # a user class whose name is also a typing export
        pass

    @dataclasses.dataclass
    class Inner:
        n: int

    @dataclasses.dataclass
    class Outer:
        inner: Inner
        more: typing.List[Inner]
    outer = Outer(Inner(1), [Inner(2)])
    cyc_list = []
    cyc_list.append(cyc_list)                       # x = [x]
    cyc_dict = {}
    cyc_dict['self'] = cyc_dict                     # d = {'self': d}
    cyc_inner = []
    cyc_tuple = (1, cyc_inner)
    cyc_inner.append(cyc_tuple)                     # t = (1, [t])
    t = [('NT vs own class', nt, NT, True), ('untyped namedtuple vs own class', ut, UT, True), ('NT vs object', nt, object, True),
         ('NT vs Tuple[int, str]', nt, Tuple[int, str], True), ('NT vs tuple[int, str]', nt, tuple[int, str], True),
         ('NT vs unrelated NamedTuple with equal fields', nt, NT2, False), ('NT vs dataclass with equal fields', nt, D, False),
         ('untyped namedtuple vs Union[UT, int]', ut, Union[UT, int], True), ('[NT] vs List[NT]', [nt], List[NT], True),
         ('NT vs Optional[NT]', nt, Optional[NT], True), ('NT vs Tuple[int, ...]', nt, Tuple[int, ...], False),
         ('NT vs Sequence[Any]', nt, Sequence[Any], True), ('NT vs int', nt, int, False), ('NT vs Tuple[int]', nt, Tuple[int], False),
         ('NT vs Any', nt, Any, True), ('untyped namedtuple vs Tuple[int, int]', ut, Tuple[int, int], True),
         ('untyped namedtuple vs Tuple[int, str]', ut, Tuple[int, str], False), ('NT vs Dict[str, NT] value', {'k': nt}, Dict[str, NT], True),
         ('subclass instance of NT vs NT', Sub(1, 'x'), NT, True), ('NT vs subclass of NT', nt, Sub, False),
         ('NT vs tuple[NT2, int] element', (nt, 1), tuple[NT2, int], False), ('NT vs Union[NT2, str]', nt, Union[NT2, str], False),
         # values / annotations outside the model's universe (custom __eq__, two classes of one name)
         ('object with __eq__ -> True vs None', EqAll(), None, False), ('unittest.mock.ANY vs None', __import__('unittest.mock').mock.ANY, None, False),
         ('object with __eq__ -> True vs Optional[int]', EqAll(), Optional[int], False),
         ('[object with __eq__ -> True] vs List[None]', [EqAll()], List[None], False),
         ('object whose __repr__ raises vs int', RaisingRepr(), int, False),
         ('object whose __repr__ raises vs object', RaisingRepr(), object, True),
         # values that contain themselves: never conform to a finite nesting that ends in a scalar
         ('x = [x] vs List[List[int]]', cyc_list, List[List[int]], False), ('x = [x] vs list[list[str]]', cyc_list, list[list[str]], False),
         ("d = {'self': d} vs Dict[str, Dict[str, int]]", cyc_dict, Dict[str, Dict[str, int]], False),
         ('t = (1, [t]) vs Tuple[int, List[Tuple[int, List[int]]]]', cyc_tuple, Tuple[int, List[Tuple[int, List[int]]]], False),
         ('x = [x] vs List[Any]', cyc_list, List[Any], True),
         # string annotations: the name must be the name of a class of the MRO, not a suffix of it
         ("instance of PurchaseOrder vs 'Order'", PurchaseOrder(), 'Order', False), ("instance of a subclass of Order vs 'Order'", SubOrder(), 'Order', True),
         ("instance of a user class called Text vs 'Text'", Text(), 'Text', True),
         # dataclass instances with dataclass-valued fields
         ('nested dataclass instance vs its class', outer, Outer, True), ('nested dataclass instance vs Optional[its class]', outer, Optional[Outer], True),
         ('[nested dataclass instance] vs list[its class]', [outer], list[Outer], True),
         ('nested dataclass instance vs Dict[str, Union[Outer, Inner]] value', {'k': outer}, Dict[str, Union[Outer, Inner]], True),
         ('nested dataclass instance vs the inner class', outer, Inner, False),
         ("instance of K vs 'K'", K(), 'K', True),
         ("instance of an unrelated class that is also called K vs 'K'", K_other(), 'K', False)]
    _named['t'] = t
    return t


def run_named(c):
    from pedantic import assert_value_matches_type
    t = named_table()
    if c.get('size'):
        return {'size': len(t)}
    name, val, ann, conf = t[c['i']]
    r = {'name': name, 'conforms': conf}
    ctx = {'K': t[-2][1].__class__}
    r['out'], r['exc'] = outcome(lambda: assert_value_matches_type(value=val, type_=ann, err='', type_vars={}, context=ctx))
    return r


def run_varargs(c):
    """a @pedantic function whose *args / **kwargs parameter has a missing or bare annotation, called with 0..n extra values"""
    import typing, builtins
    ns, journal = {}, []
    ns['J'] = journal
    ann = ''
    if c['bare']:
        ns['A'] = getattr(typing, c['bare']) if c['bare'][0].isupper() else getattr(builtins, c['bare'])
        ann = ': A'
    name = 'args' if c['star'] == '*' else 'kw'
    lead = 'a: int, ' if c['lead'] else ''
    src = f'from pedantic import pedantic\n@pedantic\ndef f({lead}{c["star"]}{name}{ann}) -> None:\n    J.append(1)\n'
    r = {}
    try:
        mod = make_module(src, ns)
    except BaseException as ex:
        r['out'], r['exc'] = 9, 'decoration failed: ' + repr(ex)[:100]
        return r
    vals = [[], None, (), {}, 1][:c['nvals']]
    if c['star'] == '*':
        call = (lambda: mod.f(1, *vals)) if c['lead'] else (lambda: mod.f(*vals))
    else:
        kw = {f'k{i}': v for i, v in enumerate(vals)}
        call = (lambda: mod.f(a=1, **kw)) if c['lead'] else (lambda: mod.f(**kw))
    r['out'], r['exc'] = outcome_rep(call)
    r['body_ran'] = len(journal)
    return r


def run_bare_zoo(c):
    """a generic WITHOUT type arguments x the value zoo (values outside the model's universe: named-tuple instances, objects
    with an _asdict of their own, generators, modules, classes ...), at assert_value_matches_type and as the parameter /
    return annotation of a @pedantic function"""
    import typing, builtins, zoo
    from pedantic import assert_value_matches_type
    ann = getattr(typing, c['bare']) if c['bare'][0].isupper() else getattr(builtins, c['bare'])
    val = zoo.values()[c['vi']]
    r = {'val': type(val).__name__}
    if c['pos'] == 'avmt':
        r['out'], r['exc'] = outcome(lambda: assert_value_matches_type(value=val, type_=ann, err='', type_vars={}, context={}))
        return r
    journal = []
    if c['pos'] == 'arg':
        src = 'from pedantic import pedantic\n@pedantic\ndef f(x: ANN) -> None:\n    J.append(1)\n'
    else:
        src = 'from pedantic import pedantic\n@pedantic\ndef f(x: int) -> ANN:\n    J.append(1)\n    return RV\n'
    try:
        mod = make_module(src, dict(ANN=ann, J=journal, RV=val))
    except BaseException as ex:
        r['out'], r['exc'] = 9, 'decoration failed: ' + repr(ex)[:100]
        return r
    r['out'], r['exc'] = outcome_rep((lambda: mod.f(x=val)) if c['pos'] == 'arg' else (lambda: mod.f(x=1)))
    r['body_ran'] = len(journal)
    return r


def zoo_sizes():
    import zoo
    return len(zoo.annotations()), len(zoo.values())


def main():
    cases = json.load(sys.stdin)
    for c in cases:
        try:
            _mode['thread'] = bool(c.get('thread'))
            if c.get('obs') == 'bare_zoo':
                r = run_bare_zoo(c)
            elif c.get('obs') == 'zoo_sizes':
                r = {'sizes': zoo_sizes()}
            elif c.get('obs') == 'varargs':
                r = run_varargs(c)
            elif c.get('obs') == 'gclass':
                r = run_gclass(c)
            elif c.get('obs') == 'abc_table':
                r = run_abc_table(c)
            elif c.get('obs') == 'corner':
                r = run_corner(c)
            elif c.get('obs') == 'named':
                r = run_named(c)
            elif c.get('obs') == 'missing':
                r = run_missing(c)
            elif c.get('obs', '').startswith('zoo'):
                r = run_zoo(c)
            else:
                r = run_intro(c) if c.get('obs') == 'intro' else run_case(c)
        except BaseException as ex:
            r = {'error': type(ex).__name__ + ': ' + str(ex)[:200]}
        finally:
            _mode['thread'] = False
        print(json.dumps(r), flush=True)


if __name__ == '__main__':
    main()
