"""Implementation worker for C16: safe_contextmanager / safe_async_contextmanager of the current
/repo tree (and, for the validation streams, real generators and real contextlib).

Reads a JSON list of cases on stdin, prints one JSON object per case per line.  Everything that is
compared is a small integer code (the encoding of coq/Model/CtxEval.v); no message texts, no timing.

case kinds
  seq    {var, items:[{uses:[{id,args,setup,val,cleanup}], body}], style, shared, suspend, early}
         setup  ['ok'] | ['raise', path] | ['return']          cleanup ['ok'] | ['raise', path] | ['yield', y]
         body   ['normal'] | ['early'] | ['raise', path]
         -> {'flat': [#events, events(4 each)..., #results, (leaves(3) class)...]}
  deco   {var, fkind, form}            -> {'deco': [0] | [1, len, path...], 'exc': name}
  shape  {var}                         -> {'shape': [wraps, async def, return shape]}
  gen    {var, beh, ops}               -> {'flat': per op [0, value] | [1, who, len, path...], -1, events...}
  plain  {var, beh, body}              -> {'flat': [#events, events..., leaves(3), class]}

circumstances (seq, deco, shape; all optional, the defaults are what the worker itself runs in)
  switch      state of the global switch while the function is DECORATED: 'unset' | '0' | '1' (ENABLE_PEDANTIC deleted /
              set to that text) | 'disabled' | 'enabled' (pedantic.disable_pedantic() / enable_pedantic() called) |
              'inherit' (whatever the interpreter was started with)
  switch_use  the same while the with statements run (default: as `switch`)
  interp      [optimize level 0|1|2, 'flag' | 'env', ENABLE_PEDANTIC of the child's environment or null]: the case is run
              in a child interpreter started with -O / -OO (or PYTHONOPTIMIZE=<level>) and that environment
"""
import sys, os, json, functools, inspect, contextlib, subprocess, threading
import excs

SWITCH = 'ENABLE_PEDANTIC'
CHILD_TIMEOUT = 300     # seconds for one child interpreter (a few hundred small cases take about one second)


STARTED_WITH = os.environ.get(SWITCH)      # what the interpreter was started with


def set_switch(state):
    if state == 'inherit':
        if STARTED_WITH is None:
            os.environ.pop(SWITCH, None)
        else:
            os.environ[SWITCH] = STARTED_WITH
    elif state == 'unset':
        os.environ.pop(SWITCH, None)
    elif state == 'disabled':
        import pedantic
        pedantic.disable_pedantic()
    elif state == 'enabled':
        import pedantic
        pedantic.enable_pedantic()
    else:
        os.environ[SWITCH] = state


class SwitchScope:
    """whatever a case does to the switch is undone afterwards"""
    def __enter__(self):
        self.saved = os.environ.get(SWITCH)
        return self

    def __exit__(self, *exc):
        if self.saved is None:
            os.environ.pop(SWITCH, None)
        else:
            os.environ[SWITCH] = self.saved
        return False

TICKS = 100000          # budget of suspension points per coroutine (never reached by a faithful tree)


class Budget(BaseException):
    pass


class Suspend:
    """a bare suspension point: `await Suspend()` hands control to the driver once"""
    def __await__(self):
        yield 'tick'


def drive(coro):
    """run a coroutine to completion without an event loop"""
    n = 0
    try:
        while True:
            coro.send(None)
            n += 1
            if n > TICKS:
                coro.close()
                raise Budget()
    except StopIteration as s:
        return s.value


# objects that can be yielded / bound: index -> object; 0 is None (the model's val 0)
class Ctx:
    def __init__(self):
        self.events = []
        self.pending = []
        self.last_use = None
        self.made = []            # (exception object, ('body', tag) | ('gen', use, site))
        self.vals = {0: None, 1: 0, 2: '', 3: [], 4: False, 5: ()}
        self.argsets = {}
        self.uses = []
        self.suspend = False
        self.fell = False

    async def maybe_suspend(self):
        if self.suspend:
            await Suspend()

    def val(self, n):
        if n not in self.vals:
            self.vals[n] = object()
        return self.vals[n]

    def val_index(self, obj):
        for n, o in self.vals.items():
            if o is obj:
                return n
        return 999

    def ev(self, *codes):
        self.events.extend(codes)

    def new_exc(self, path, key):
        ex = excs.cls_of(path)()      # no arguments: StopIteration().value is None
        self.made.append((ex, key))
        return ex

    def args_of(self, a):
        if a not in self.argsets:
            o = [object() for _ in range(5)]
            shape = a % 7
            if shape == 0:
                s = ((), {})
            elif shape == 1:
                s = ((o[0],), {})
            elif shape == 2:
                s = ((), {'k': o[0]})
            elif shape == 3:
                s = ((o[0], o[1], None), {'x': o[2], 'y': 0})
            elif shape == 4:
                s = (([o[0]], {'d': o[1]}, (o[2],)), {'z': [o[3]]})
            elif shape == 5:   # keyword names that collide with names used inside the decorator / contextlib
                s = ((o[0],), {'f': o[1], 'iterator': o[2], 'args': o[3], 'kwargs': o[4], 'func': 1, 'kwds': 2, 'gen': 3})
            else:
                s = (tuple(o), {'b': o[0], 'a': o[1]})
            self.argsets[a] = s
        return self.argsets[a]

    def argcode(self, u, args, kwargs):
        ea, ek = self.args_of(u['args'])
        same = (type(args) is tuple and type(kwargs) is dict and len(args) == len(ea)
                and all(x is y for x, y in zip(args, ea))
                and list(kwargs) == list(ek) and all(kwargs[k] is ek[k] for k in ek))
        return u['args'] + 1 if same else 0

    def call(self, i):
        u = self.uses[i]
        self.pending.append(u)
        a, k = self.args_of(u['args'])
        return u['dec'](*a, **k)

    def classify(self, e):
        for ex, key in self.made:
            if ex is e:
                return [2, key[1], 0] if key[0] == 'body' else [3, key[1], key[2]]
        if isinstance(e, RuntimeError) and e.__cause__ is not None:
            for ex, key in self.made:
                if ex is e.__cause__ and key[0] == 'gen':
                    return [4, key[1], key[2]]
        return [5, 0, 0]


def enc_class(e):
    p = excs.path_of(type(e))
    return [len(p)] + list(p)


# ---- the generator functions that get decorated ---------------------------------------------------

NO_RECEIVER = object()
BINDS = ('function', 'instance', 'instance_bound_once', 'class_call', 'classmethod', 'classmethod_on_instance', 'staticmethod',
         'subclass_instance')


def bind_form(d, bind):
    """how the caller reaches the decorated generator function d: directly, or as an attribute of a class (the decorator applied
    inside a class body).  -> (callable the with statement calls with the caller's own arguments, the receiver the generator
    must get as its first argument or NO_RECEIVER)"""
    if bind == 'function':
        return d, NO_RECEIVER
    if bind == 'staticmethod':
        class Holder:
            lease = staticmethod(d)
        inst = Holder()
        return (lambda *a, **k: inst.lease(*a, **k)), NO_RECEIVER
    if bind in ('classmethod', 'classmethod_on_instance'):
        class Holder:
            lease = classmethod(d)
        inst = Holder()
        if bind == 'classmethod':
            return (lambda *a, **k: Holder.lease(*a, **k)), Holder
        return (lambda *a, **k: inst.lease(*a, **k)), Holder

    class Holder:
        lease = d
    if bind == 'subclass_instance':
        class Sub(Holder):
            pass
        inst = Sub()
    else:
        inst = Holder()
    if bind in ('instance', 'subclass_instance'):
        return (lambda *a, **k: inst.lease(*a, **k)), inst
    if bind == 'instance_bound_once':
        m = inst.lease
        return m, inst
    if bind == 'class_call':
        return (lambda *a, **k: Holder.lease(inst, *a, **k)), inst
    raise ValueError(bind)


def make_genfn(ctx, var):
    def start(args, kwargs):
        u = ctx.pending.pop() if ctx.pending else ctx.last_use
        ctx.last_use = u
        recv = u.get('recv', NO_RECEIVER)
        if recv is not NO_RECEIVER:
            # a method: the receiver (the instance / the class) comes first, then the caller's own arguments
            if len(args) >= 1 and args[0] is recv:
                args = args[1:]
            else:
                kwargs = None        # the receiver is missing or is another object: "arguments not forwarded unchanged"
        ac = ctx.argcode(u, args, kwargs)
        ctx.ev(1, u['id'], 0, ac)
        return u, ac

    if var == 'sync':
        def managed(*args, **kwargs):
            """a generator with setup, one yield and cleanup"""
            u, ac = start(args, kwargs)
            s = u['setup']
            if s[0] == 'raise':
                raise ctx.new_exc(s[1], ('gen', u['id'], 0))
            if s[0] == 'return':
                return
            yield ctx.val(u['val'])
            ctx.ev(1, u['id'], 1, ac)
            c = u['cleanup']
            if c[0] == 'raise':
                raise ctx.new_exc(c[1], ('gen', u['id'], 1))
            if c[0] == 'yield':
                yield ctx.val(c[1])
                ctx.ev(1, u['id'], 2, ac)
    else:
        async def managed(*args, **kwargs):
            """an async generator with setup, one yield and cleanup"""
            u, ac = start(args, kwargs)
            if ctx.suspend:
                await Suspend()
            s = u['setup']
            if s[0] == 'raise':
                raise ctx.new_exc(s[1], ('gen', u['id'], 0))
            if s[0] == 'return':
                return
            yield ctx.val(u['val'])
            if ctx.suspend:
                await Suspend()
            ctx.ev(1, u['id'], 1, ac)
            if ctx.suspend:
                await Suspend()
            c = u['cleanup']
            if c[0] == 'raise':
                raise ctx.new_exc(c[1], ('gen', u['id'], 1))
            if c[0] == 'yield':
                yield ctx.val(c[1])
                ctx.ev(1, u['id'], 2, ac)
    return managed


# ---- with statements as real source text --------------------------------------------------------------

_templates = {}


def stmt_fn(var, depth, early, style):
    """def stmt(ctx, body): the with statement(s) of one item; returns 'normal' | 'return' | 'break' | 'continue'.
    The with statements are real `with` / `async with` statements (nested, or one statement with several items)."""
    key = (var, depth, early, style)
    if key in _templates:
        return _templates[key]
    a = 'async ' if var == 'async' else ''
    # the outcome is caught inside the function that contains the with statement: a StopIteration that leaves a
    # coroutine frame is replaced by Python itself
    src = [f'{a}def stmt(ctx, body):', '  try:', '    for _once in (0,):']
    ind = ' ' * 8
    if depth == 0:
        bound = 'ctx.val(0)'
    elif style == 'multi':
        src.append(ind + f'{a}with ' + ', '.join(f'ctx.call({i}) as x{i}' for i in range(depth)) + ':')
        ind += '    '
        bound = f'x{depth - 1}'
    else:
        for i in range(depth):
            src.append(ind + f'{a}with ctx.call({i}) as x{i}:')
            ind += '    '
        bound = f'x{depth - 1}'
    if var == 'async':
        src.append(ind + 'await ctx.maybe_suspend()')
    src.append(ind + f'body({bound})')
    if early == 'return':
        src.append(ind + "return 'return', None")
    elif early in ('break', 'continue'):
        src.append(ind + early)
    src.append(' ' * 8 + 'ctx.fell = True')
    src.append('    else:')
    src.append("        return ('normal' if ctx.fell else 'continue'), None")
    src.append("    return 'break', None")
    src.append('  except BaseException as ex:')
    src.append('    return None, ex')
    ns = {}
    exec(compile('\n'.join(src), f'<c16 with statement {key}>', 'exec'), ns)
    _templates[key] = ns['stmt']
    return ns['stmt']


def run_seq(case):
    with SwitchScope():
        return run_seq_core(case)


def run_seq_core(case):
    from pedantic.decorators import safe_contextmanager, safe_async_contextmanager   # the public names
    var = case['var']
    deco = safe_contextmanager if var == 'sync' else safe_async_contextmanager
    sw_deco = case.get('switch', 'inherit')
    sw_use = case.get('switch_use', sw_deco)
    ctx = Ctx()
    ctx.suspend = bool(case.get('suspend')) and var == 'async'

    bind = case.get('bind', 'function')
    if bind not in BINDS:
        return {'error': 'unknown bind %r' % (bind,)}

    def decorate():
        set_switch(sw_deco)
        try:
            return deco(make_genfn(ctx, var))
        finally:
            set_switch(sw_use)

    try:
        shared = decorate() if case.get('shared') else None
    except Budget:
        raise
    except BaseException as e:
        return {'flat': [-4] + enc_class(e), 'exc': type(e).__name__}
    results = []
    shared_form = None
    for item in case['items']:
        uses = [dict(u) for u in item['uses']]
        try:
            for u in uses:
                u['dec'] = shared if shared is not None else decorate()
        except Budget:
            raise
        except BaseException as e:
            return {'flat': [-4] + enc_class(e), 'exc': type(e).__name__}
        if bind != 'function':
            if shared is not None and shared_form is None:
                shared_form = bind_form(shared, bind)
            for u in uses:
                u['dec'], u['recv'] = shared_form if shared is not None else bind_form(u['dec'], bind)
        ctx.uses = uses
        ctx.fell = False
        del ctx.pending[:]
        tag = uses[0]['id'] if uses else 0
        b = item['body']
        early = case.get('early', 'return') if b[0] == 'early' else None

        def body_core(x, b=b, tag=tag):
            ctx.ev(2, tag, ctx.val_index(x), 0)
            if b[0] == 'raise':
                raise ctx.new_exc(b[1], ('body', tag))

        body = body_core      # called inside the with block itself (not in a frame of its own: a StopIteration that
        #                       leaves a coroutine frame would be replaced by Python before the with statement sees it)
        fn = stmt_fn(var, len(uses), early, case.get('style', 'nested'))
        how, ex = fn(ctx, body) if var == 'sync' else drive(fn(ctx, body))
        if isinstance(ex, Budget):
            raise ex
        if ex is not None:
            results.append(ctx.classify(ex) + enc_class(ex))
        else:
            results.append([0, 0, 0, -3] if how == 'normal' else [1, 0, 0, -3])
    flat = [len(ctx.events) // 4] + ctx.events + [len(results)]
    for r in results:
        flat += r
    return {'flat': flat}


# ---- decoration time ----------------------------------------------------------------------------------

def make_callable(fkind, form):
    """a callable of the given kind (what `def` it is) in the given syntactic form"""
    if form == 'lambda':
        return {'plain': (lambda: 1), 'generator': (lambda: (yield))}[fkind]
    if fkind == 'plain':
        def target(*a, **k):
            return 1
    elif fkind == 'coroutine':
        async def target(*a, **k):
            return 1
    elif fkind == 'generator':
        def target(*a, **k):
            yield 1
    else:
        async def target(*a, **k):
            yield 1
    if form == 'def':
        return target
    if form == 'method':
        class K:
            pass
        K.m = target
        return K().m
    if form == 'partial':
        return functools.partial(target, 1)
    if form == 'wrapped':       # a plain function carrying __wrapped__ = the target (inspect must not look through it)
        @functools.wraps(target)
        def outer(*a, **k):
            return target(*a, **k)
        return outer
    if form == 'callable_object':
        class Obj:
            pass
        Obj.__call__ = target
        return Obj()
    raise ValueError(form)


def run_deco(case):
    from pedantic.decorators import safe_contextmanager, safe_async_contextmanager   # the public names
    deco = safe_contextmanager if case['var'] == 'sync' else safe_async_contextmanager
    f = make_callable(case['fkind'], case['form'])
    with SwitchScope():
        set_switch(case.get('switch', 'inherit'))
        try:
            d = deco(f)
        except BaseException as e:
            return {'deco': [1] + enc_class(e), 'exc': type(e).__name__}
    # accepted.  [0]: what comes back is built around a wrapper of f;  [2, what]: f itself (0) or contextlib's helper
    # directly around f (1 contextmanager, 2 asynccontextmanager, 9 something else) - no wrapper in between
    how = [0]
    try:
        if d is f:
            how = [2, 0]
        elif getattr(d, '__wrapped__', None) is f:
            obj = d()
            how = [2, 1 if isinstance(obj, contextlib._GeneratorContextManager) else
                   2 if isinstance(obj, contextlib._AsyncGeneratorContextManager) else 9]
            g = getattr(obj, 'gen', None)
            if hasattr(g, 'close'):
                g.close()
    except BaseException:
        how = [2, 9]
    return {'deco': how, 'exc': None, 'callable': callable(d)}


def run_shape(case):
    with SwitchScope():
        set_switch(case.get('switch', 'inherit'))
        return run_shape_core(case)


def run_shape_core(case):
    from pedantic.decorators import safe_contextmanager, safe_async_contextmanager   # the public names
    if case['var'] == 'sync':
        def some_generator(*a, **k):
            """documentation of the decorated generator"""
            yield 1
        d = safe_contextmanager(some_generator)
    else:
        async def some_generator(*a, **k):
            """documentation of the decorated generator"""
            yield 1
        d = safe_async_contextmanager(some_generator)
    f = some_generator
    wraps = int(getattr(d, '__name__', None) == f.__name__ and getattr(d, '__qualname__', None) == f.__qualname__
                and getattr(d, '__doc__', None) == f.__doc__ and getattr(d, '__module__', None) == f.__module__)
    # the chain of __wrapped__ must end in f
    chain, seen = d, 0
    while hasattr(chain, '__wrapped__') and seen < 10:
        chain = chain.__wrapped__
        seen += 1
    wraps = int(wraps and chain is f)
    inner = getattr(d, '__wrapped__', d)          # contextmanager(wrapper).__wrapped__ is wrapper
    is_async = int(inspect.isasyncgenfunction(inner) or inspect.iscoroutinefunction(inner))
    obj = d()
    if isinstance(obj, contextlib._GeneratorContextManager):
        ret = 1
    elif isinstance(obj, contextlib._AsyncGeneratorContextManager):
        ret = 2
    else:
        ret = 0
    if hasattr(obj, 'close'):
        obj.close()
    return {'shape': [wraps, is_async, ret]}


# ---- real generators described by behaviour trees ---------------------------------------------------
# tree: ['ret'] | ['raise', path, site] | ['reraise'] | ['emit', tag, k] | ['yield', x, on_next, on_throw]

def tree_gen(ctx, tree, var):
    def step(b, th):
        """run the straight-line part: returns ('yield', node) or raises / returns None"""
        while True:
            k = b[0]
            if k == 'ret':
                return None
            if k == 'raise':
                raise ctx.new_exc(b[1], ('gen', 0, b[2]))
            if k == 'reraise':
                if th is None:      # the model's language: a bare raise outside a handler is a RuntimeError
                    raise RuntimeError('No active exception to reraise')
                raise th
            if k == 'emit':
                ctx.ev(1, 0, b[1], 1)
                b = b[2]
                continue
            return b

    if var == 'sync':
        def g(*a, **k):
            b, th = tree, None
            while True:
                b = step(b, th)
                if b is None:
                    return
                try:
                    yield ctx.val(b[1])
                except BaseException as e:
                    th, b = e, b[3]
                else:
                    th, b = None, b[2]
    else:
        async def g(*a, **k):
            b, th = tree, None
            while True:
                b = step(b, th)
                if b is None:
                    return
                try:
                    yield ctx.val(b[1])
                except BaseException as e:
                    th, b = e, b[3]
                else:
                    th, b = None, b[2]
    return g


def who_of(ctx, thrown, e):
    if thrown is not None and e is thrown:
        return 0
    own = [ex for ex, key in ctx.made if key[0] == 'gen']
    if any(e is ex for ex in own):
        return 1
    c = e.__cause__
    if isinstance(e, RuntimeError) and c is not None:
        if thrown is not None and c is thrown:
            return 2
        if any(c is ex for ex in own):
            return 3
        return 5
    if type(e) in (StopIteration, StopAsyncIteration):
        return 4
    return 5


def run_gen(case):
    ctx = Ctx()
    var = case['var']
    g = tree_gen(ctx, case['beh'], var)()
    out = []

    async def aw(x):
        return await x

    for op in case['ops']:
        thrown = None
        try:
            if op[0] in ('next', 'send'):
                if var == 'sync':
                    v = next(g) if op[0] == 'next' else g.send(None)
                else:
                    v = drive(aw(anext(g) if op[0] == 'next' else g.asend(None)))
                out += [0, ctx.val_index(v)]
            elif op[0] == 'throw':
                thrown = ctx.new_exc(op[1], ('body', 0))
                v = g.throw(thrown) if var == 'sync' else drive(aw(g.athrow(thrown)))
                out += [0, ctx.val_index(v)]
            else:
                if var == 'sync':
                    g.close()
                else:
                    drive(aw(g.aclose()))
                out += [0, 0]
        except Budget:
            raise
        except BaseException as e:
            out += [1, who_of(ctx, thrown, e)] + enc_class(e)
    events = list(ctx.events)
    return {'flat': out + [-1] + events}


def run_plain(case):
    ctx = Ctx()
    var = case['var']
    genfn = tree_gen(ctx, case['beh'], var)
    cm = contextlib.contextmanager(genfn) if var == 'sync' else contextlib.asynccontextmanager(genfn)
    b = case['body']

    def body(x):
        ctx.ev(2, 0, ctx.val_index(x), 0)
        if b[0] == 'raise':
            raise ctx.new_exc(b[1], ('body', 0))

    def sync_stmt():
        for _ in (0,):
            with cm() as x:
                body(x)
                if b[0] == 'early':
                    break
        else:
            return 'normal'
        return 'break'

    async def async_stmt():
        try:
            for _ in (0,):
                async with cm() as x:
                    body(x)
                    if b[0] == 'early':
                        break
            else:
                return 'normal', None
            return 'break', None
        except Budget:
            raise
        except BaseException as ex:
            return None, ex

    try:
        if var == 'sync':
            how = sync_stmt()
        else:
            how, ex = drive(async_stmt())
            if ex is not None:
                raise ex
        res = [1, 0, 0, -3] if how == 'break' else [0, 0, 0, -3]
    except Budget:
        raise
    except BaseException as e:
        res = ctx.classify(e) + enc_class(e)
    events = list(ctx.events)
    return {'flat': [len(events) // 4] + events + res}


RUN = {'seq': run_seq, 'deco': run_deco, 'shape': run_shape, 'gen': run_gen, 'plain': run_plain}


def run_local(c):
    try:
        return RUN[c['kind']](c)
    except BaseException as ex:   # harness-level failure
        return {'error': repr(ex)}


def interp_key(c):
    k = c.get('interp') or [0, 'flag', None]
    return (int(k[0]), str(k[1]), k[2])


def run_children(groups, results):
    """groups: {interp key: [(index, case)]}.  One child interpreter per key, all at once, each under a timeout."""
    def one(key, members):
        level, via, env_switch = key
        env = dict(os.environ)
        env.pop('PYTHONOPTIMIZE', None)
        env.pop(SWITCH, None)
        cmd = [sys.executable]
        if level and via == 'env':
            env['PYTHONOPTIMIZE'] = str(level)
        elif level:
            cmd.append('-' + 'O' * level)
        if env_switch is not None:
            env[SWITCH] = env_switch
        cmd += [os.path.abspath(__file__), '--child', json.dumps(key)]
        try:
            p = subprocess.run(cmd, input=json.dumps([c for _, c in members]), capture_output=True, text=True,
                               timeout=CHILD_TIMEOUT, env=env)
            lines = [l for l in p.stdout.splitlines() if l.startswith('{')]
            err = f'child interpreter {key}: exit {p.returncode}, {len(lines)} of {len(members)} results; {p.stderr[-300:]}'
        except subprocess.TimeoutExpired:
            lines, err = [], f'child interpreter {key}: no result within {CHILD_TIMEOUT} s'
        except BaseException as ex:
            lines, err = [], f'child interpreter {key}: {ex!r}'
        for n, (i, _) in enumerate(members):
            try:
                results[i] = json.loads(lines[n])
            except Exception:
                results[i] = {'error': err}

    ths = [threading.Thread(target=one, args=(k, m)) for k, m in groups.items()]
    [t.start() for t in ths]
    [t.join() for t in ths]


def main():
    import warnings
    warnings.simplefilter('ignore')
    cases = json.load(sys.stdin)
    if len(sys.argv) >= 3 and sys.argv[1] == '--child':
        # a child interpreter: check that it really runs in the circumstances it was started for, then run everything here
        level, via, env_switch = json.loads(sys.argv[2])
        ok = sys.flags.optimize == level and os.environ.get(SWITCH) == env_switch
        for c in cases:
            r = run_local(c) if ok else {'error': f'child interpreter runs with optimize={sys.flags.optimize}, '
                                                  f'{SWITCH}={os.environ.get(SWITCH)!r} instead of {level}, {env_switch!r}'}
            print(json.dumps(r), flush=True)
        return
    here = (sys.flags.optimize, 'flag', os.environ.get(SWITCH))
    results = [None] * len(cases)
    groups = {}
    for i, c in enumerate(cases):
        if c.get('kind') in ('seq', 'deco', 'shape') and interp_key(c) != here:
            groups.setdefault(interp_key(c), []).append((i, c))
    if groups:
        run_children(groups, results)
    for i, c in enumerate(cases):
        if results[i] is None:
            results[i] = run_local(c)
        print(json.dumps(results[i]), flush=True)


if __name__ == '__main__':
    main()
