"""Implementation worker of the correspondence stream `dataclass` (C10, C11).

Input: JSON list of lowered cases (harness/dc_common.py).  For every case the worker writes a real
module with the generated class definitions (module level, or inside a function for `scope: local`; user __post_init__
bodies are real code: J.append(..), object.__setattr__(self, name, value), super().__post_init__(), raise),
builds the argument objects of the initial heap (one real object per heap cell, so that identity can be
observed with `is`), runs the operation script on the real classes and prints, per operation,
  obs  - the observation in exactly the integer encoding of coq/Model/DataclassEval.v
  viol - the clauses of the property text (C11; journal order for C10) that the real objects violate,
         judged here on the real objects against the ABSTRACT class definition (the specification side)
plus the reified annotations / atoms (what typing really built) for the model to be evaluated on.
Field identifiers: token n is written f<n> unless case['names'] gives it an identifier of the pool (deep, cls, kwargs, ...).
Call sites: an operation marked {'nest': mode} is made while the user-defined __post_init__ of a type-safe dataclass is running
(see `invoke`); what is observed is the operation itself, exactly as for a top-level call.
Never hangs: every case runs under an alarm; a nested operation run in a second thread is joined with a timeout."""
import sys, json, os, importlib.util, linecache, signal, collections, copy, dataclasses, threading
import universe as U
import excs

KIND = {list: 0, dict: 1, set: 10, frozenset: 11, tuple: 12, collections.deque: 13, collections.defaultdict: 14,
        collections.OrderedDict: 15}
MUTABLE = (list, dict, set, collections.deque)          # defaultdict / OrderedDict are dict subclasses
FACTORY = {'list': list, 'dict': dict, 'set': set, 'deque': collections.deque}
CUR = {}                                                 # per-case state used by the recorder
_patched = [False]
_mod_counter = [0]


class Timeout(Exception):
    pass


def _alarm(signum, frame):
    raise Timeout()


def patch_recorder():
    """journal of type checks: wrap the name validate_types resolves at call time"""
    if _patched[0]:
        return
    import pedantic.decorators.cls_deco_frozen_dataclass as M
    orig = M.assert_value_matches_type

    def rec(*a, **kw):
        t = kw.get('type_', a[1] if len(a) > 1 else None)
        CUR['J'].append(1000 + CUR['ann_class'].get(id(t), 999))
        return orig(*a, **kw)
    M.assert_value_matches_type = rec
    _patched[0] = True


def exc_code(ex):
    from pedantic.exceptions import PedanticTypeCheckException, PedanticException
    if isinstance(ex, Timeout): return 98
    if isinstance(ex, PedanticTypeCheckException): return 1
    if isinstance(ex, PedanticException): return 3
    if isinstance(ex, TypeError): return 10
    if isinstance(ex, ValueError): return 11
    if isinstance(ex, dataclasses.FrozenInstanceError): return 13
    if isinstance(ex, AttributeError): return 12
    if isinstance(ex, NameError): return 14
    p = excs.path_of(type(ex))
    if len(p) == 2 and p[0] == 0 and p[1] >= 20: return p[1]
    if isinstance(ex, Exception): return 4
    return 5


NAMES = {}                                               # per case: field token -> identifier (default f<token>)


def fname(n):
    return NAMES.get(n) or 'f%d' % n


def attr_name(n):
    """fields are f<n>; 90 is the new public name, 91 the private one"""
    return fname(n) if n < 90 else ('zz%d' % n if n == 90 else '_p%d' % n)


def pi_norm(pi):
    if pi is None:
        return None
    if pi == 'ret':
        return {'body': [], 'raise': None}
    if isinstance(pi, list):
        return {'body': [], 'raise': pi[1]}
    return pi


# ------------------------------------------------------------------------------------------ class source
def deco_line(d):
    if d is None:
        return None
    if d['shortcut']:
        return '@frozen_type_safe_dataclass'
    g = d['given']
    if not g and d.get('bare'):
        return '@frozen_dataclass'
    return '@frozen_dataclass(' + ', '.join(f'{k}={bool(v)}' for k, v in g.items()) + ')'


def class_source(case, indent=''):
    lines = []
    for c in case['classes']:
        dl = deco_line(c['deco'])
        if dl:
            lines.append(indent + dl)
        base = '' if c['base'] is None else f'(K{c["base"]})'
        lines.append(indent + f'class K{c["id"]}{base}:')
        body = []
        if c['deco'] is not None:
            for f in c['fields']:
                opts = []
                if f['default'] is not None:
                    if f['default'][0] == 'val':
                        opts.append(f'default=DV_{c["id"]}_{f["name"]}')
                    else:
                        opts.append(f'default_factory=FAC_{f["default"][1]}')
                if not f['init']:
                    opts.append('init=False')
                if not f['compare']:
                    opts.append('compare=False')
                if opts == [f'default=DV_{c["id"]}_{f["name"]}'] and f.get('plain_default', True):
                    body.append(f'{fname(f["name"])}: ANN_{f["tok"]} = DV_{c["id"]}_{f["name"]}')
                elif opts:
                    body.append(f'{fname(f["name"])}: ANN_{f["tok"]} = DCFIELD({", ".join(opts)})')
                else:
                    body.append(f'{fname(f["name"])}: ANN_{f["tok"]}')
        h = pi_norm(c['pi'])
        if h is not None:
            body.append('def __post_init__(self):')
            body.append(f'    J.append({100 + c["id"]})')
            body.append('    if PENDING: PENDING.pop()()')     # an operation to be made while this hook is running (mode `same`)
            for k, st in enumerate(h['body']):
                if st[0] == 'set':
                    body.append(f'    object.__setattr__(self, {attr_name(st[1])!r}, HV_{c["id"]}_{k})')
                else:
                    body.append('    super().__post_init__()')
            if h['raise'] is not None:
                body.append(f'    raise EXC_{c["id"]}()')
        if not body:
            body.append('pass')
        lines += [indent + '    ' + b for b in body]
    return lines


def build_module(case, env):
    head = ['from dataclasses import field as DCFIELD', 'from pedantic import frozen_dataclass, frozen_type_safe_dataclass']
    names = [U.ctx_name(n) for n, _, _ in case['ctx']]
    if case['scope'] == 'local':
        src = head + ['def BUILD(ENV):'] + [f'    {nm} = ENV[{nm!r}]' for nm in names] + class_source(case, '    ')
        src += ['    def CALL(f, /, *a, **k):', '        (' + ', '.join(names) + ',)', '        return f(*a, **k)']
        src += ['    return {' + ', '.join(f'"K{c["id"]}": K{c["id"]}' for c in case['classes']) + ', "CALL": CALL}']
    else:
        src = head + class_source(case) + ['def CALL(f, /, *a, **k):', '    return f(*a, **k)']
    text = '\n'.join(src) + '\n'
    _mod_counter[0] += 1
    name = f'pv_dc_{os.getpid()}_{_mod_counter[0]}'
    path = os.path.join(os.getcwd(), name + '.py')
    with open(path, 'w') as fh:
        fh.write(text)
    spec = importlib.util.spec_from_file_location(name, path)
    mod = importlib.util.module_from_spec(spec)
    g = dict(env)
    ctxd = {U.ctx_name(n): U.render_cls(c) for n, c, _ in case['ctx']}
    if case['scope'] != 'local':
        g.update(ctxd)
    mod.__dict__.update(g)
    sys.modules[name] = mod
    linecache.checkcache(path)
    exec(compile(text, path, 'exec'), mod.__dict__)
    if case['scope'] == 'local':
        out = mod.BUILD(ctxd)
    else:
        out = mod.__dict__
    try:
        os.unlink(path)
    except OSError:
        pass
    return [out[f'K{c["id"]}'] for c in case['classes']], out['CALL'], text


# ------------------------------------------------------------------------------------------ abstract class definition (spec side)
def chain_of(case, c):
    out = []
    while c is not None:
        out.append(case['classes'][c])
        c = case['classes'][c]['base']
    return out                                            # the class itself first


def merged_fields(case, c):
    """fields of class c in dataclass order: bases first, a redefined field keeps its position;
    only decorated classes contribute"""
    fs = []
    for k in reversed(chain_of(case, c)):
        if k['deco'] is None:
            continue
        for f in k['fields']:
            for i, g in enumerate(fs):
                if g['name'] == f['name']:
                    fs[i] = f
                    break
            else:
                fs.append(f)
    return fs


def hook_run_names(chain):
    """names assigned by the hooks that run for instances of the class (Spec.hook_set_names: the first class along the MRO that
    defines __post_init__, continuing through its super() calls)"""
    for i, k in enumerate(chain):
        h = pi_norm(k['pi'])
        if h is None:
            continue
        out = []
        for st in h['body']:
            if st[0] == 'set':
                out.append(st[1])
            else:
                out += hook_run_names(chain[i + 1:])
        return out
    return []


def deco_chain(case, c):
    """instances of class c are instances of a @frozen_dataclass class"""
    return any(k['deco'] is not None for k in chain_of(case, c))


def head_decorated(case, c):
    return case['classes'][c]['deco'] is not None


def opt_of(case, k, name, default):
    d = k['deco']
    if d is None:
        return None
    if d['shortcut']:
        return {'type_safe': True}.get(name, default)
    return bool(d['given'].get(name, default))


# ------------------------------------------------------------------------------------------ objects
def canon(t):
    """frozensets are unordered: sort their elements in tree keys"""
    if isinstance(t, list) and t and t[0] == 'frozenset':
        return ['frozenset', sorted((canon(x) for x in t[1]), key=json.dumps)]
    if isinstance(t, list) and t and t[0] == 'tuple':
        return ['tuple', [canon(x) for x in t[1]]]
    return t


class World:
    def __init__(self, case):
        self.case = case
        self.paths = [tuple(p) for p in case['paths']]
        self.selfcopy = set(case['selfcopy'])
        for i in self.selfcopy:
            U.user_class(case['paths'][i]).__deepcopy__ = lambda self_, memo: self_
        self.atoms = [U.render_val(t) for t in case['atoms']]
        self.atom_id = {}
        for i, o in enumerate(self.atoms):
            self.atom_id.setdefault(id(o), i)
        self.r_atoms = [U.reify_val(o, t) for o, t in zip(self.atoms, case['atoms'])]
        self.atom_tree = {}
        for i, t in enumerate(self.r_atoms):
            self.atom_tree.setdefault(json.dumps(canon(t)), i)
        self.heap = [None] * len(case['heap'])
        self.building = set()
        for q in range(len(case['heap'])):
            self.obj(q)
        self.init_id = {id(o): q for q, o in enumerate(self.heap)}

    def val(self, v):
        return self.atoms[v[1]] if v[0] == 'a' else self.obj(v[1])

    def obj(self, q):
        if self.heap[q] is not None:
            return self.heap[q]
        if q in self.building:
            raise ValueError('cyclic initial heap')
        self.building.add(q)
        cell = self.case['heap'][q]
        k, items = cell['k'], cell['items']
        if k >= 200 or k >= 100:
            idx = k - 200 if k >= 200 else k - 100
            o = U.user_class(self.case['paths'][idx])()
            o._pv_id = items[0][1]
        else:
            xs = [self.val(v) for v in items]
            if k == 0: o = xs
            elif k == 1: o = {xs[i]: xs[i + 1] for i in range(0, len(xs), 2)}
            elif k == 10: o = set(xs)
            elif k == 12: o = tuple(xs)
            elif k == 13: o = collections.deque(xs)
            elif k == 14:
                o = collections.defaultdict(int)
                o.update({xs[i]: xs[i + 1] for i in range(0, len(xs), 2)})
            elif k == 15: o = collections.OrderedDict((xs[i], xs[i + 1]) for i in range(0, len(xs), 2))
            else: raise ValueError(k)
        self.heap[q] = o
        return o

    # --- canonical encodings (same as Model/DataclassEval.v)
    def atom_index(self, o):
        i = self.atom_id.get(id(o))
        if i is not None:
            return i
        t = type(o)
        if isinstance(o, MUTABLE) or '_pv_path' in t.__dict__:
            return None
        try:
            return self.atom_tree.get(json.dumps(canon(U.reify_val(o))))
        except Exception:
            return None

    def inst_kind(self, o):
        p = tuple(type(o)._pv_path)
        if p not in self.paths:
            return None
        i = self.paths.index(p)
        return (200 + i) if i in self.selfcopy else (100 + i)

    def decompose(self, o):
        t = type(o)
        if '_pv_path' in t.__dict__ and not isinstance(o, type):
            k = self.inst_kind(o)
            return (k, [('raw', getattr(o, '_pv_id', -7))]) if k is not None else (None, None)
        if t is collections.defaultdict or t is collections.OrderedDict or t is dict:
            items = []
            for a, b in o.items():
                items += [a, b]
            return KIND[t], items
        if t is set:
            codes = []
            for x in o:
                i = self.atom_index(x)
                codes.append(-5 if i is None else i)
            return 10, [('raw', z) for z in sorted(codes)]
        if t in KIND:
            return KIND[t], list(o)
        return None, None

    def show(self, o, seen):
        if isinstance(o, tuple) and len(o) == 2 and o[0] == 'raw' and isinstance(o[1], int) and not isinstance(o[1], bool):
            return [1, o[1]]
        i = self.atom_index(o)
        if i is not None:
            return [1, i]
        if id(o) in self.init_id:
            return [2, self.init_id[id(o)]]
        if id(o) in seen:
            return [4, seen[id(o)]]
        k, items = self.decompose(o)
        if k is None:
            return [96]
        num = len(seen)
        seen[id(o)] = num
        out = [3, num, k, len(items)]
        for it in items:
            out += self.show(it, seen)
        return out

    def show_fields(self, inst, names):
        seen, out, keep = {}, [], []
        for n in names:
            try:
                v = getattr(inst, fname(n))
            except AttributeError:
                out += [-2, n, 97]
                continue
            keep.append(v)
            out += [-2, n] + self.show(v, seen)
        return out

    def show_values(self, vs):
        seen, out = {}, []
        for v in vs:
            out += self.show(v, seen)
        return out

    def tree(self, o, depth=0):
        """identity-free structure, for 'equal values'"""
        if depth > 40:
            return ['deep']
        i = self.atom_index(o)
        if i is not None:
            return ['a', i]
        k, items = self.decompose(o)
        if k is None:
            return ['?', repr(type(o))]
        return [k] + [(['raw', it[1]] if (isinstance(it, tuple) and len(it) == 2 and it[0] == 'raw') else self.tree(it, depth + 1))
                      for it in items]

    def reach_mutable(self, roots):
        """ids of mutable objects (not opted out of deep copying) reachable from the roots"""
        seen, out, work = set(), {}, list(roots)
        while work:
            o = work.pop()
            if id(o) in seen:
                continue
            seen.add(id(o))
            t = type(o)
            if '_pv_path' in t.__dict__ and not isinstance(o, type):
                if (self.inst_kind(o) or 0) < 200:
                    out[id(o)] = o
                continue
            if isinstance(o, dict):
                out[id(o)] = o
                for a, b in o.items():
                    work += [a, b]
            elif isinstance(o, (list, set, collections.deque)):
                out[id(o)] = o
                work += list(o)
            elif isinstance(o, (tuple, frozenset)):
                work += list(o)
        return out


def theirs_or_none(orig, n):
    try:
        return getattr(orig, fname(n))
    except AttributeError:
        return None


def snapshot(w, inst, names):
    out = []
    for n in names:
        try:
            v = getattr(inst, fname(n))
            out.append((n, id(v), json.dumps(w.tree(v))))
        except AttributeError:
            out.append((n, None, None))
    try:
        extra = sorted(k for k in vars(inst) if k not in CUR['field_idents'])
    except TypeError:
        extra = []
    return out, extra


# ------------------------------------------------------------------------------------------ running a script
CMP = {'eq': lambda a, b: a == b, 'lt': lambda a, b: a < b, 'le': lambda a, b: a <= b, 'gt': lambda a, b: a > b,
       'ge': lambda a, b: a >= b}


def attempt(f):
    try:
        return 0, f()
    except BaseException as ex:   # noqa
        if isinstance(ex, (KeyboardInterrupt, SystemExit)):
            raise
        if isinstance(ex, Timeout):
            signal.alarm(20)          # the case's alarm is spent: keep the rest of the script guarded
        return exc_code(ex), ex


# ------------------------------------------------------------------------------------------ call sites
_carriers = {}


def carriers():
    """type-safe dataclasses of the worker whose user-defined __post_init__ runs a callable they were given: plain, slots,
    and a type-safe subclass of a type-safe class (stacked wrappers, base reached through super())"""
    if _carriers:
        return _carriers
    from typing import Any
    from pedantic import frozen_dataclass, frozen_type_safe_dataclass

    @frozen_type_safe_dataclass
    class CarrierPlain:
        thunk: Any

        def __post_init__(self):
            self.thunk()

    @frozen_dataclass(type_safe=True, slots=True)
    class CarrierSlots:
        thunk: Any

        def __post_init__(self):
            self.thunk()

    @frozen_type_safe_dataclass
    class CarrierBase:
        thunk: Any

    @frozen_dataclass(type_safe=True)
    class CarrierStacked(CarrierBase):
        tag: int = 0

        def __post_init__(self):
            self.thunk()
            super().__post_init__()

    _carriers.update({'hook': CarrierPlain, 'hook-slots': CarrierSlots, 'hook-stacked': CarrierStacked, 'thread': CarrierPlain,
                      'same': CarrierPlain})
    return _carriers


def nest_of(op):
    return op[-1].get('nest') if op and isinstance(op[-1], dict) else None


def hook_runs(case, c):
    """a user-written __post_init__ (with the PENDING line) runs first for instances of class c"""
    return any(pi_norm(k['pi']) is not None for k in chain_of(case, c))


def invoke(case, classes, call, mode, prefer, f, a, k):
    """f(*a, **k) through the module's CALL - at top level (mode None), or while the user-defined __post_init__ of a type-safe
    dataclass is running.  The operation itself is what the caller observes: its result or exception, and its own journal
    events (those of the surrounding construction are cut out)."""
    if mode is None:
        return call(f, *a, **k)
    J = CUR['J']
    box = {}

    def run_it():
        box['b'] = len(J)
        box['r'] = attempt(lambda: call(f, *a, **k))
        box['c'] = len(J)

    def thunk():
        if 'r' in box or 'started' in box:
            return
        box['started'] = True
        if mode == 'thread':
            t = threading.Thread(target=run_it, daemon=True)
            t.start()
            t.join(30)
        else:
            run_it()

    a0 = len(J)
    outer = None
    if mode == 'same':
        # an instance of one of the case's own classes (the class of the operation if possible) whose user hook runs
        # and for which a construction succeeded earlier in this case: the same arguments again
        cands = [c for c in ([prefer] if prefer is not None else []) + sorted(CUR['good']) if c in CUR['good'] and hook_runs(case, c)]
        if cands:
            outer = cands[0]
    if outer is not None:
        pos, kw = CUR['good'][outer]
        CUR['PENDING'].append(thunk)
        attempt(lambda: call(classes[outer], *pos, **kw))
        del CUR['PENDING'][:]
    if 'started' not in box:
        attempt(lambda: carriers()[mode](thunk=thunk))
    if 'r' not in box:
        del J[a0:]
        raise Timeout()                                      # the hook did not run the operation / the thread did not finish
    J[a0:] = J[box['b']:box['c']]
    code, res = box['r']
    if code != 0:
        raise res
    return res


def hash_burst(case, c, inst, n=200):
    """make, hash and drop n instances of type(inst) whose compare fields hold fresh integers (built without __init__: only
    __hash__ is under test); every hash must be the hash of the tuple of compare fields.  -> None or a description"""
    cls = type(inst)
    fs = merged_fields(case, c)
    cmp_names = [fname(f['name']) for f in fs if f['compare']]
    if not cmp_names:
        return None

    def make(k):
        o = object.__new__(cls)
        for f in fs:
            nm = fname(f['name'])
            if f['compare']:
                object.__setattr__(o, nm, k * 31 + f['name'])
            elif hasattr(inst, nm):
                object.__setattr__(o, nm, getattr(inst, nm))
        return o

    def tup(o):
        return tuple(getattr(o, nm) for nm in cmp_names)
    try:
        keep = make(-1)
    except (AttributeError, TypeError):       # a class whose fields cannot be set this way is not probed
        return None
    hk = hash(keep)
    if hk != hash(tup(keep)):
        return {'burst': 'instance kept alive', 'impl': hk, 'tuple': hash(tup(keep))}
    for k in range(n):
        o = make(k)
        h, t = hash(o), hash(tup(o))
        if h != t:
            return {'burst': f'short-lived instance number {k} (made after {k} others of the class were hashed and dropped)',
                    'fields': list(tup(o)), 'impl': h, 'tuple': t}
        del o
    twin = make(-1)
    if hash(twin) != hk or hash(keep) != hk or not (twin == keep):
        return {'burst': 'equal instances made before and after the burst hash differently', 'impl': [hk, hash(twin), hash(keep)]}
    return None


def run_op(w, case, classes, call, regs, op):
    """-> (obs, viol, note)"""
    kind = op[0]
    J = CUR['J']
    j0 = len(J)
    viol = []

    def reg(i):
        return regs[i] if 0 <= i < len(regs) else None

    if kind == 'ctor':
        c = op[1]
        pos = [w.val(v) for v in op[2]]
        kw = {fname(n): w.val(v) for n, v in op[3]}
        code, res = attempt(lambda: invoke(case, classes, call, nest_of(op), c, classes[c], pos, kw))
        names = [f['name'] for f in merged_fields(case, c)]
        if code == 0:
            regs.append((c, res))
            CUR['ever'].append((c, res))
            CUR['good'].setdefault(c, (pos, kw))
            if type(res) is not classes[c]:
                viol.append({'clause': 'constructor returns an instance of the class', 'op': op})
            return [0] + J[j0:] + [-3, case['classes'][c]['id']] + w.show_fields(res, names), viol
        regs.append(None)
        return [code] + J[j0:], viol
    if kind in ('copy', 'deep'):
        r = reg(op[1])
        if r is None:
            regs.append(None)
            return [98], viol
        c, orig = r
        kwl = [(n, w.val(v)) for n, v in op[2]]
        kw = {fname(n): v for n, v in kwl}
        fields = merged_fields(case, c)
        names = [f['name'] for f in fields]
        before = snapshot(w, orig, names)
        meth = 'copy_with' if kind == 'copy' else 'deep_copy_with'
        code, res = attempt(lambda: invoke(case, classes, call, nest_of(op), c, getattr(orig, meth), (), kw))
        after = snapshot(w, orig, names)
        unchanged = 1 if before == after else 0
        if not unchanged:
            viol.append({'clause': f'{meth} leaves the original unchanged', 'before': before[0], 'after': after[0]})
        if code != 0:
            regs.append(None)
            if code in (10, 11) and all(n in [f['name'] for f in fields if f['init']] for n, _ in kwl):
                viol.append({'clause': f'{meth} with replacements for init fields only returns an instance (no TypeError / ValueError)',
                             'outcome': code, 'init_false_fields': [f['name'] for f in fields if not f['init']]})
            return [code] + J[j0:] + [-3, unchanged], viol
        regs.append((c, res))
        CUR['ever'].append((c, res))
        obs = [0] + J[j0:] + [-3, case['classes'][c]['id'] if type(res) is classes[c] else -9] + w.show_fields(res, names)
        if type(res) is not type(orig):
            viol.append({'clause': f'{meth} returns an instance of the same class', 'got': type(res).__name__, 'want': type(orig).__name__})
        if res is orig:
            viol.append({'clause': f'{meth} returns a new instance'})
        given = dict(kwl)
        # a field that a user-written __post_init__ of the hierarchy assigns holds what the hook assigned: the field clauses
        # of the property are judged on the other fields
        hooked = set(hook_run_names(chain_of(case, c)))
        same_orig, same_kw = [], []
        for f in fields:
            n = f['name']
            try:
                mine = getattr(res, fname(n))
            except AttributeError:
                same_orig.append(2); same_kw.append(2)
                continue
            try:
                theirs = getattr(orig, fname(n))
                if kind == 'deep' and w.atom_index(mine) is not None and w.atom_index(theirs) is not None:
                    same_orig.append(1 if w.atom_index(mine) == w.atom_index(theirs) else 0)   # copies of immutable values
                else:
                    same_orig.append(1 if mine is theirs else 0)
            except AttributeError:
                theirs = None
                same_orig.append(2)
            same_kw.append((1 if mine is given[n] else 0) if n in given else 2)
            # is the field of the copy exactly the re-initialised default (what dataclasses.replace documents for init=False)?
            reinit = None
            if not f['init'] and f['default'] is not None:
                if f['default'][0] == 'val':
                    reinit = mine is w.val(f['default'][1])
                else:
                    reinit = (type(mine) is FACTORY[f['default'][1]] and len(mine) == 0 and id(mine) not in w.init_id
                              and mine is not theirs_or_none(orig, n))
            # the property text, per field
            if n in hooked:
                pass
            elif n in given:
                if mine is not given[n]:
                    viol.append({'clause': f'{meth}: a replaced field holds the given object', 'field': n})
            elif same_orig[-1] == 2:
                pass
            elif kind == 'copy':
                if mine is not theirs:
                    viol.append({'clause': 'copy_with shares the un-replaced field object with the original (is)', 'field': n,
                                 'init': f['init'], 'default': f['default'] and f['default'][0], 'reinit': reinit})
            else:
                if w.tree(mine) != w.tree(theirs):
                    viol.append({'clause': 'deep_copy_with: an un-replaced field equals the original\'s value', 'field': n,
                                 'init': f['init'], 'default': f['default'] and f['default'][0], 'reinit': reinit})
                sh = set(w.reach_mutable([mine])) & set(w.reach_mutable([theirs]))
                if sh:
                    viol.append({'clause': 'deep_copy_with shares no mutable field object with the original', 'field': n,
                                 'init': f['init'], 'default': f['default'] and f['default'][0], 'reinit': reinit})
        unrep = [fname(f['name']) for f in fields if f['init'] and f['name'] not in given]
        o_vals = [getattr(orig, fname(n)) for n in names if hasattr(orig, fname(n))]
        m_vals = [getattr(res, a) for a in unrep if hasattr(res, a)]
        mine_mut = set(w.reach_mutable(m_vals))
        mine_mut_free = set(w.reach_mutable([getattr(res, a) for a in unrep if hasattr(res, a) and a not in {fname(x) for x in hooked}]))
        shared = len(set(w.reach_mutable(o_vals)) & mine_mut)

        def field_values(inst):
            return [getattr(inst, fname(f['name'])) for f in merged_fields(case, inst_cls) if hasattr(inst, fname(f['name']))]
        # history: instances made earlier in this run (registers of the current sequence), other than the receiver
        o2 = []
        for rr in regs[:-1]:
            if rr is not None and rr[1] is not orig:
                inst_cls = rr[0]
                o2 += field_values(rr[1])
        shared_others = len(set(w.reach_mutable(o2)) & mine_mut)
        if kind == 'deep':
            # ... and every instance the worker has seen in this case (all branches): a deep copy hands out fresh objects
            ever = []
            for inst_cls, inst in CUR['ever']:
                if inst is not orig and inst is not res:
                    ever += field_values(inst)
            stale = set(w.reach_mutable(ever)) & mine_mut_free
            if stale:
                viol.append({'clause': 'deep_copy_with: the un-replaced fields hold freshly made mutable objects '
                                       '(not the objects an earlier copy holds)', 'shared_with_earlier_instances': len(stale)})
        return obs + [-5] + same_orig + [-5] + same_kw + [-5, shared, unchanged, shared_others], viol
    if kind == 'validate':
        r = reg(op[1])
        if r is None:
            return [98], viol
        code, res = attempt(lambda: invoke(case, classes, call, nest_of(op), r[0], r[1].validate_types, (), {}))
        return [code] + J[j0:], viol
    if kind in ('setattr', 'delattr'):
        r = reg(op[1])
        if r is None:
            return [98], viol
        c, inst = r
        names = [f['name'] for f in merged_fields(case, c)]
        nm = attr_name(op[2])
        before = snapshot(w, inst, names)
        if kind == 'setattr':
            v = w.val(op[3])
            code, res = attempt(lambda: setattr(inst, nm, v))
        else:
            code, res = attempt(lambda: delattr(inst, nm))
        after = snapshot(w, inst, names)
        # the property: instances of @frozen_dataclass classes (also through an undecorated subclass) reject every assignment / deletion
        must_reject = any(k['deco'] is not None for k in chain_of(case, c))
        if must_reject and (code == 0 or before != after):
            viol.append({'clause': f'{kind} on an instance is rejected and changes nothing', 'name': nm, 'outcome': code,
                         'changed': before != after})
        if code == 0:
            return [0], viol
        return [code, 1 if before[0] == after[0] else 0], viol
    if kind == 'append':
        r = reg(op[1])
        if r is None:
            return [98], viol
        try:
            tgt = getattr(r[1], fname(op[2]))
        except AttributeError:
            return [98], viol
        if type(tgt) is not list:
            return [98], viol
        tgt.append(w.val(op[3]))
        return [0], viol
    if kind in ('cmp', 'hash'):
        a = reg(op[2] if kind == 'cmp' else op[1])
        b = reg(op[3]) if kind == 'cmp' else a
        if a is None or b is None:
            return [98], viol
        ca, ia = a
        cb, ib = b
        fs = [f for f in merged_fields(case, ca) if f['compare']]
        try:
            ta = tuple(getattr(ia, fname(f['name'])) for f in fs)
            tb = tuple(getattr(ib, fname(f['name'])) for f in fs) if type(ib) is type(ia) else None
        except AttributeError:
            ta = tb = None                                # a field without value: the specification says nothing
        if kind == 'hash':
            code, res = attempt(lambda: hash(ia))
            scode, sres = attempt(lambda: hash(ta))
            if ta is not None and deco_chain(case, ca) and ((code, res if code == 0 else None) != (scode, sres if scode == 0 else None)):
                viol.append({'clause': 'hash is the hash of the tuple of fields', 'impl': [code, str(res)[:40]], 'tuple': [scode, str(sres)[:40]]})
            # history independence: a burst of short-lived instances of the same class with other field values (each one
            # dropped before the next is made, so that CPython recycles the address), and an equal pair made before / after
            if deco_chain(case, ca):
                bad = hash_burst(case, ca, ia)
                if bad:
                    viol.append(dict(bad, clause='hash is the hash of the tuple of fields'))
            # the model reports the tuple that is hashed; whether hashing it raises is Python's business
            prov = next((k for k in chain_of(case, ca) if k['deco'] is not None), None)
            try:
                pt = [getattr(ia, fname(f['name'])) for f in merged_fields(case, prov['id']) if f['compare']]
            except AttributeError:
                return [2, 12], viol
            return [1] + w.show_values(pt), viol
        opn = op[1]
        code, res = attempt(lambda: CMP[opn](ia, ib))
        same = type(ia) is type(ib)
        # which class provides the method, according to the abstract definition
        ch = chain_of(case, ca)
        if opn == 'eq':
            provider = next((k for k in ch if k['deco'] is not None), None)
        else:
            provider = next((k for k in ch if k['deco'] is not None and opt_of(case, k, 'order', False)), None)
        # the property: == for every instance of a @frozen_dataclass class; < <= > >= when a class of its MRO was decorated with
        # order=True - always the comparison of the tuples of the fields of the instance's class
        spec_applies = deco_chain(case, ca) and (opn == 'eq' or any(k['deco'] is not None and opt_of(case, k, 'order', False) for k in ch))
        if spec_applies and same and ta is not None and tb is not None:
            scode, sres = attempt(lambda: CMP[opn](ta, tb))
            if (code, res if code == 0 else None) != (scode, sres if scode == 0 else None):
                viol.append({'clause': f'{opn} is the comparison of the tuples of fields', 'impl': [code, str(res)[:40]],
                             'tuple': [scode, str(sres)[:40]], 'opn': opn})
        if provider is None or not same:
            # NotImplemented on both sides: == falls back to identity, ordering raises TypeError
            ok = (code == 0 and res is (ia is ib)) if opn == 'eq' else (code == 10)
            if deco_chain(case, ca) and not same and not ok:
                viol.append({'clause': 'comparison with an instance of another class is NotImplemented', 'op': opn, 'outcome': code})
            return [0], viol
        pfs = [f for f in merged_fields(case, provider['id']) if f['compare']]
        try:
            pa = [getattr(ia, fname(f['name'])) for f in pfs]
            pb = [getattr(ib, fname(f['name'])) for f in pfs]
        except AttributeError:
            return [2, 12], viol
        # the model reports the two tuples; whether comparing them raises is Python's business
        return [1] + w.show_values(pa) + [-3] + w.show_values(pb), viol
    return [98], viol


def run_case(case):
    patch_recorder()
    w = World(case)
    anns = [U.render_ann(a) for a in case['anns']]
    ann_class = {}
    tok_class = []
    for k, a in enumerate(anns):
        ann_class.setdefault(id(a), k)
        tok_class.append(ann_class[id(a)])
    J = []
    CUR.clear()
    NAMES.clear()
    NAMES.update({int(k): v for k, v in (case.get('names') or {}).items()})
    CUR.update({'J': J, 'ann_class': ann_class, 'keep': anns, 'ever': [], 'good': {}, 'PENDING': [],
                'field_idents': {fname(f['name']) for k in case['classes'] for f in k['fields']}})
    env = {'J': J, 'PENDING': CUR['PENDING']}
    for k, a in enumerate(anns):
        env[f'ANN_{k}'] = a
    for c in case['classes']:
        h = pi_norm(c['pi'])
        if h is not None:
            if h['raise'] is not None:
                env[f'EXC_{c["id"]}'] = excs.cls_of(h['raise'])
            for k, st in enumerate(h['body']):
                if st[0] == 'set':
                    env[f'HV_{c["id"]}_{k}'] = w.val(st[2])
        for f in c['fields']:
            if f['default'] is not None and f['default'][0] == 'val':
                env[f'DV_{c["id"]}_{f["name"]}'] = w.val(f['default'][1])
    for k, v in FACTORY.items():
        env['FAC_' + k] = v
    res = {'anns': [U.reify_ann(a) for a in anns], 'atoms': w.r_atoms, 'tok_class': tok_class,
           'set_order': {str(q): [w.atom_index(x) for x in o] for q, o in enumerate(w.heap) if type(o) is set}}
    try:
        classes, call, text = build_module(case, env)
    except BaseException as ex:
        res['decoration_failed'] = type(ex).__name__ + ': ' + str(ex)[:200]
        return res
    obs, viol = [], []
    regs = []
    for op in case['prefix']:
        o, v = run_op(w, case, classes, call, regs, op)
        obs.append(o); viol.append(v)
    base = list(regs)
    for br in case['branches']:
        regs = list(base)
        for op in br:
            o, v = run_op(w, case, classes, call, regs, op)
            obs.append(o); viol.append(v)
    res['obs'], res['viol'] = obs, viol
    return res


def run_tv_case(case):
    """stream `typevar-fields` (C10): classes in the same abstract format (no hooks, no defaults), annotations that mention
    TypeVars (universe.render_tv hands out ONE TypeVar object per descriptor for the whole process, as a module-level
    T = TypeVar('T') would), and a flat history of operations; operation i refers to the instance operation j < i produced.
    -> {'tv': [[outcome code, exception type name], ...]}"""
    anns = [U.render_ann(a) for a in case['anns']]
    CUR.clear()
    NAMES.clear()
    CUR.update({'J': [], 'ann_class': {}, 'keep': anns, 'ever': [], 'good': {}, 'PENDING': [], 'field_idents': set()})
    env = {'J': CUR['J'], 'PENDING': CUR['PENDING']}
    for k, a in enumerate(anns):
        env[f'ANN_{k}'] = a
    try:
        classes, call, text = build_module(case, env)
    except BaseException as ex:
        if isinstance(ex, (KeyboardInterrupt, SystemExit)):
            raise
        return {'decoration_failed': type(ex).__name__ + ': ' + str(ex)[:200]}
    insts, out = [], []
    for op in case['ops']:
        kind = op[0]
        if kind == 'ctor':
            kw = {fname(n): U.render_val(v) for n, v in op[2]}
            code, res = attempt(lambda: call(classes[op[1]], **kw))
        else:
            recv = insts[op[1]] if 0 <= op[1] < len(insts) else None
            if recv is None:
                insts.append(None)
                out.append([98, None])
                continue
            if kind == 'validate':
                code, res = attempt(lambda: call(recv.validate_types))
            else:
                kw = {fname(n): U.render_val(v) for n, v in op[2]}
                code, res = attempt(lambda: call(getattr(recv, 'copy_with' if kind == 'copy' else 'deep_copy_with'), **kw))
        insts.append(res if code == 0 and kind != 'validate' else None)
        out.append([code, None if code == 0 else type(res).__name__])
        del CUR['J'][:]
    return {'tv': out}


def main():
    cases = json.load(sys.stdin)
    signal.signal(signal.SIGALRM, _alarm)
    for c in cases:
        signal.alarm(60)
        try:
            r = run_tv_case(c) if c.get('kind') == 'tvfields' else run_case(c)
        except BaseException as ex:
            import traceback
            r = {'error': type(ex).__name__ + ': ' + str(ex)[:300], 'tb': traceback.format_exc(limit=4)[-600:]}
        finally:
            signal.alarm(0)
        print(json.dumps(r), flush=True)


if __name__ == '__main__':
    main()
