"""The annotation / value zoo of C08: real objects far outside the supported vocabulary (every public
name of `typing`, subscripted and bare, collections.abc aliases, non-types) and awkward values.
Deterministic order; built inside the implementation worker (the objects are not JSON-able)."""
import collections, collections.abc, io, sys, types, typing


def annotations():
    T = typing.TypeVar('T')
    out = []

    def add(name, obj):
        out.append((name, obj))
    for n in sorted(dir(typing)):
        if n.startswith('_'):
            continue
        o = getattr(typing, n)
        if isinstance(o, types.ModuleType):
            continue
        add('typing.' + n, o)
        for args, tag in (((int,), '[int]'), ((int, str), '[int,str]'), ((int, ...), '[int,...]'), (((),), '[()]'), ((T,), '[T]')):
            try:
                add('typing.' + n + tag, o[args if len(args) != 1 else args[0]])
            except BaseException:
                pass
    for n in sorted(dir(collections.abc)):
        if n.startswith('_'):
            continue
        o = getattr(collections.abc, n)
        add('abc.' + n, o)
        for args, tag in (((int,), '[int]'), ((int, str), '[int,str]'), (([int], str), '[[int],str]')):
            try:
                add('abc.' + n + tag, o[args if len(args) != 1 else args[0]])
            except BaseException:
                pass
    for n, o in (('deque', collections.deque), ('defaultdict', collections.defaultdict), ('OrderedDict', collections.OrderedDict),
                 ('Counter', collections.Counter), ('ChainMap', collections.ChainMap)):
        add('collections.' + n, o)
        for args, tag in (((int,), '[int]'), ((int, str), '[int,str]')):
            try:
                add('collections.' + n + tag, o[args if len(args) != 1 else args[0]])
            except BaseException:
                pass
    misc = [5, 0, -1, 3.5, True, 'int', 'NoSuchName', '', 'List[int]', b'x', (), (int,), (int, str), [int], [], {}, {int}, {'a': int},
            ..., NotImplemented, len, print, (lambda x: x), sys, typing, object(), type, object, Exception, BaseException,
            typing.ForwardRef('NoSuchName'), typing.ForwardRef('int'), typing.ForwardRef('List[int]'),
            typing.NewType('N', int), typing.NewType('NN', typing.NewType('N', int)), typing.NewType('NL', typing.List[int]),
            list[int][int] if False else list, dict, tuple, set, frozenset, list[list], list[typing.List], dict[str, list],
            tuple[()], typing.Tuple[()], tuple[int, ...], typing.Tuple[int, ...], typing.Tuple[..., int] if False else typing.Tuple,
            typing.Callable[[], None], typing.Callable[..., None], typing.Callable[[int], typing.Awaitable[int]],
            typing.Callable[[typing.List[int]], typing.Dict[str, int]], collections.abc.Callable[[int], str],
            typing.Union[int, 'NoSuchName'], typing.Optional['NoSuchName'], int | None, int | str, (int | str) | None,
            typing.List['NoSuchName'], typing.List['int'], typing.Dict[str, 'NoSuchName'], typing.Literal[1, 'a', None], typing.Literal[()] if False else typing.Literal,
            typing.Annotated[int, 'meta'], typing.Final[int], typing.ClassVar[int], typing.Type[typing.Any], typing.Type['NoSuchName'],
            typing.Type[typing.Union[int, str]], type[int], type[typing.Any], type[list], typing.Generic, typing.Generic[T], typing.Protocol,
            typing.Iterator[int], typing.Generator[int, None, None], typing.AsyncGenerator[int, None], typing.Awaitable[int],
            typing.Coroutine[None, None, int], typing.IO[str], typing.Pattern[str], typing.Match[str], typing.ParamSpec('P'),
            typing.TypeVarTuple('Ts'), typing.Unpack[typing.Tuple[int, str]], typing.Required[int] if hasattr(typing, 'Required') else int,
            T, typing.TypeVar('B', bound=int), typing.TypeVar('C', int, str), typing.TypeVar('F', bound='NoSuchName'),
            typing.List[T], typing.Dict[T, T], typing.Optional[T], typing.Union[T, int], typing.Tuple[T, ...], typing.Type[T],
            typing.NamedTuple, typing.NamedTuple('NT', [('a', int)]), collections.namedtuple('UT', 'a b'), typing.TypedDict('TD', {'a': int}),
            io.StringIO, io.BytesIO, types.FunctionType, types.ModuleType, type(None), type(...), type(NotImplemented), float('nan'), 10 ** 30]
    for i, o in enumerate(misc):
        add('misc%d' % i, o)
    return out


def values():
    class K:
        pass

    class WithAsDict:
        def _asdict(self):
            return {'a': 1}

    class RaisingAsDict:
        def _asdict(self):
            raise KeyError('boom')

    NT = typing.NamedTuple('NTv', [('a', int)])
    UT = collections.namedtuple('UTv', 'a b')

    def gen():
        yield 1

    async def co():
        return 1
    g = gen()
    out = [None, True, False, 0, 1, -1, 10 ** 30, 1.5, float('nan'), float('inf'), 1j, '', 'a', 'NoSuchName', b'', b'x', bytearray(b'x'),
           [], [1], [None], [[1]], ['a', 1], (), (1,), (1, 'a'), ((),), set(), {1}, frozenset(), frozenset({1}), {}, {1: 'a'}, {'a': [1]},
           collections.deque([1]), collections.defaultdict(int), collections.OrderedDict(a=1), collections.Counter('ab'),
           collections.ChainMap({}), {}.keys(), {1: 2}.values(), {1: 2}.items(), iter([1]), range(3), g, gen, co, len, print,
           (lambda: None), (lambda x: x), K, K(), int, str, type, object, object(), Exception('e'), Exception, sys, typing,
           NT(a=1), NT(a='x'), UT(1, 2), WithAsDict(), RaisingAsDict(), io.StringIO(), io.BytesIO(), ..., NotImplemented, slice(1), memoryview(b'x'),
           typing.List[int], typing.Any, typing.TypeVar('V'), staticmethod(len), classmethod(len), property(len)]
    return out
